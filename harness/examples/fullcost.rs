use roaring::RoaringBitmap;
fn main(){ let t=std::time::Instant::now(); for i in 0..10u32 { let mut s=RoaringBitmap::full(); s.remove(i); assert!(!s.contains(i)); } println!("{:?} per op", t.elapsed()/10); }
