//! Driver for spec/FeatureFlags*.tla (property C37).  Records, never judges.
//!
//! Sections (`--section`):
//!   pure     can_read_dataset / can_write_dataset on every flag word over NKnown + NUnknown abstract bits (the unknown
//!            bits embedded at several real positions), apply_feature_flags on every small manifest, every conversion
//!            of LanceFileVersion (strings from the spec: `--strings <json file>`), DataStorageFormat
//!   hist     replays TLC-generated operation histories (`--scenarios`) on real tables; after every step the flag
//!            words, the facts they must reflect and the versions of all data files are recorded
//!   gate     writes a manifest with chosen unknown flag bits on top of a real table (the public
//!            lance_table::io::commit::write_manifest_file_to_path) and attempts every read / write operation
//!
//! Events are JSON arrays, first element = event kind (see spec/Trace_FeatureFlags.tla).
use std::collections::HashMap;
use std::path::PathBuf;
use std::str::FromStr;
use std::sync::Arc;

use futures::FutureExt;
use lance::dataset::optimize::{compact_files, CompactionOptions};
use lance::dataset::transaction::Transaction;
use lance::dataset::{
    CommitBuilder, Dataset, DeleteBuilder, InsertBuilder, MergeInsertBuilder, NewColumnTransform, UpdateBuilder,
    WhenMatched, WhenNotMatched, WriteMode, WriteParams,
};
use lance_encoding::version::LanceFileVersion;
use lance_index::scalar::ScalarIndexParams;
use lance_index::{DatasetIndexExt, IndexType};
use lance_table::feature_flags::{apply_feature_flags, can_read_dataset, can_write_dataset};
use lance_table::format::{
    BasePath, DataStorageFormat, DeletionFile, DeletionFileType, Fragment, Manifest, RowIdMeta,
};
use lance_table::io::commit::write_manifest_file_to_path;
use lance_verif_harness::tablekit::*;
use lance_verif_harness::trace::{catch, Args, TraceWriter};
use serde_json::{json, Value};

// ------------------------------------------------------------------------------------------------
// embeddings of the abstract unknown bits into real bit positions

fn embeddings(nknown: u64) -> Vec<(&'static str, Vec<u32>)> {
    let k = nknown as u32;
    vec![
        ("low", vec![k, k + 1]),
        ("mid", vec![31, 32]),
        ("split", vec![k, 63]),
        ("top", vec![62, 63]),
    ]
}

/// abstract word (bit i < nknown = real bit i; bit nknown + j = real bit emb[j]) -> real u64
fn embed(word: u64, nknown: u64, emb: &[u32]) -> u64 {
    let mut out = word & ((1u64 << nknown) - 1);
    for (j, p) in emb.iter().enumerate() {
        if word >> (nknown as usize + j) & 1 == 1 {
            out |= 1u64 << p;
        }
    }
    out
}

/// real u64 -> abstract word, or -1 if a bit outside the embedding is set
fn unembed(real: u64, nknown: u64, emb: &[u32]) -> i64 {
    let mut out = real & ((1u64 << nknown) - 1);
    let mut rest = real & !((1u64 << nknown) - 1);
    for (j, p) in emb.iter().enumerate() {
        if rest >> p & 1 == 1 {
            out |= 1u64 << (nknown as usize + j);
            rest &= !(1u64 << p);
        }
    }
    if rest != 0 {
        -1
    } else {
        out as i64
    }
}

// ------------------------------------------------------------------------------------------------
// pure section

fn vname(v: &LanceFileVersion) -> String {
    format!("{v:?}")
}

fn small_schema() -> lance_core::datatypes::Schema {
    lance_core::datatypes::Schema::try_from(arrow_schema(&["id".to_string(), "val".to_string()]).as_ref()).unwrap()
}

fn pure(w: &mut TraceWriter, args: &Args) {
    let nknown = args.num("nknown", 6);
    let nunknown = args.num("nunknown", 2);
    let mutate = args.get_or("mutate", "");
    assert!(nunknown == 2);
    let embs = embeddings(nknown);
    w.emit(json!(["univ", nknown, nunknown, embs.iter().map(|e| e.0).collect::<Vec<_>>()]));
    // 1. the gate on every word
    for (ename, emb) in &embs {
        for word in 0..(1u64 << (nknown + nunknown)) {
            let real = embed(word, nknown, emb);
            let mut r = can_read_dataset(real);
            let wr = can_write_dataset(real);
            if mutate == "gate-top-bit" && real >> 63 == 1 {
                r = true;
            }
            w.emit(json!(["can_read", ename, word, r]));
            w.emit(json!(["can_write", ename, word, wr]));
        }
    }
    // 2. apply_feature_flags on every small manifest
    let mut frag_lists: Vec<Vec<(bool, bool)>> = vec![vec![]];
    let opts = [(false, false), (false, true), (true, false), (true, true)];
    for a in opts {
        frag_lists.push(vec![a]);
        for b in opts {
            frag_lists.push(vec![a, b]);
        }
    }
    let (ename, emb) = &embs[0];
    for fl in &frag_lists {
        for bits in 0..16u32 {
            let (enable, notxn, config, base) = (bits & 1 == 1, bits & 2 == 2, bits & 4 == 4, bits & 8 == 8);
            for pre in [0u64, u64::MAX] {
                let frags: Vec<Fragment> = fl
                    .iter()
                    .enumerate()
                    .map(|(i, (del, rid))| {
                        let mut f = Fragment::new(i as u64);
                        f.physical_rows = Some(2);
                        if *del {
                            f.deletion_file = Some(DeletionFile {
                                read_version: 1,
                                id: 7,
                                file_type: DeletionFileType::Array,
                                num_deleted_rows: Some(1),
                                base_id: None,
                            });
                        }
                        if *rid {
                            f.row_id_meta = Some(RowIdMeta::Inline(vec![]));
                        }
                        f
                    })
                    .collect();
                let mut bp = HashMap::new();
                if base {
                    bp.insert(1u32, BasePath::new(1, "file:///elsewhere".to_string(), None, true));
                }
                let mut m = Manifest::new(small_schema(), Arc::new(frags), DataStorageFormat::new(LanceFileVersion::V2_0), bp);
                if config {
                    m.config.insert("k".into(), "v".into());
                }
                m.reader_feature_flags = pre;
                m.writer_feature_flags = pre;
                let r = apply_feature_flags(&mut m, enable, notxn);
                let frs: Vec<Value> = fl.iter().map(|(d, r)| json!([*d as u8, *r as u8])).collect();
                let (res, rf, wf) = match r {
                    Ok(()) => {
                        let mut rf = unembed(m.reader_feature_flags, nknown, emb);
                        if mutate == "apply-no-base" && base {
                            rf &= !16;
                        }
                        ("ok".to_string(), rf, unembed(m.writer_feature_flags, nknown, emb))
                    }
                    Err(e) => (classify(&e), -1, -1),
                };
                w.emit(json!(["apply", ename, frs, enable, notxn, config, base, pre != 0, res, rf, wf]));
            }
        }
    }
    // 3. version conversions
    let strings: Value = serde_json::from_str(&std::fs::read_to_string(args.get("strings").expect("--strings")).unwrap()).unwrap();
    for (i, x) in strings.as_array().unwrap().iter().enumerate() {
        let s = x["s"].as_str().unwrap();
        let r = LanceFileVersion::from_str(s);
        match r {
            Ok(v) => {
                let (a, b) = v.to_numbers();
                w.emit(json!(["parse", i + 1, s, vname(&v), [a, b]]));
            }
            Err(_) => w.emit(json!(["parse", i + 1, s, "invalid", [-1, -1]])),
        }
    }
    let mut variants = vec![LanceFileVersion::Legacy, LanceFileVersion::Stable, LanceFileVersion::Next];
    variants.extend(LanceFileVersion::iter_non_legacy());
    for v in variants {
        let disp = v.to_string();
        let parsed = LanceFileVersion::from_str(&disp).map(|x| vname(&x)).unwrap_or("invalid".into());
        let mut resolved = v.resolve();
        if mutate == "stable-is-2.1" && v == LanceFileVersion::Stable {
            resolved = LanceFileVersion::V2_1;
        }
        let (a, b) = v.to_numbers();
        let fromnum = LanceFileVersion::try_from_major_minor(a, b).map(|x| vname(&x)).unwrap_or("invalid".into());
        let dsf = DataStorageFormat::new(v);
        let back = dsf.lance_file_version().map(|x| vname(&x)).unwrap_or("invalid".into());
        w.emit(json!(["variant", vname(&v), disp, parsed, vname(&resolved), [a, b], fromnum, dsf.version, back, v.is_unstable()]));
    }
    // 4. a table's files all carry one storage version: Fragment::try_infer_version over every layout of up to two
    //    fragments with up to three data files each, file versions drawn from four (major, minor) pairs
    let pairs: [(u32, u32); 4] = [(0, 2), (2, 0), (0, 3), (2, 1)];
    let mut frag_layouts: Vec<Vec<(u32, u32)>> = vec![vec![]];
    for n in 1..=3usize {
        let mut idx = vec![0usize; n];
        loop {
            frag_layouts.push(idx.iter().map(|i| pairs[*i]).collect());
            let mut k = 0;
            while k < n {
                idx[k] += 1;
                if idx[k] < pairs.len() {
                    break;
                }
                idx[k] = 0;
                k += 1;
            }
            if k == n {
                break;
            }
        }
    }
    let mk = |id: u64, files: &Vec<(u32, u32)>| {
        let mut f = Fragment::new(id);
        for (j, (maj, min)) in files.iter().enumerate() {
            f.files.push(lance_table::format::DataFile::new(format!("f{id}_{j}.lance"), vec![j as i32], vec![0], *maj, *min, None, None));
        }
        f
    };
    let mut infer = |frs: Vec<&Vec<(u32, u32)>>| {
        let fragments: Vec<Fragment> = frs.iter().enumerate().map(|(i, fl)| mk(i as u64, fl)).collect();
        let res = match Fragment::try_infer_version(&fragments) {
            Ok(Some(v)) => vname(&v),
            Ok(None) => "none".to_string(),
            Err(_) => "error".to_string(),
        };
        let shape: Vec<Vec<[u32; 2]>> = frs.iter().map(|fl| fl.iter().map(|(a, b)| [*a, *b]).collect()).collect();
        w.emit(json!(["infer", shape, res]));
    };
    infer(vec![]);
    for a in &frag_layouts {
        infer(vec![a]);
        for b in &frag_layouts {
            infer(vec![a, b]);
        }
    }
    for maj in 0..4u32 {
        for min in 0..5u32 {
            match LanceFileVersion::try_from_major_minor(maj, min) {
                Ok(v) => {
                    let (a, b) = v.to_numbers();
                    w.emit(json!(["from_numbers", maj, min, vname(&v), [a, b]]));
                }
                Err(_) => w.emit(json!(["from_numbers", maj, min, "invalid", [-1, -1]])),
            }
        }
    }
}

// ------------------------------------------------------------------------------------------------
// table helpers

fn cols() -> Vec<String> {
    vec!["id".to_string(), "val".to_string()]
}

fn wparams(mode: WriteMode, stable: bool, ver: Option<LanceFileVersion>) -> WriteParams {
    WriteParams {
        mode,
        enable_stable_row_ids: stable,
        data_storage_version: ver,
        auto_cleanup: None,
        ..Default::default()
    }
}

fn res_of<T>(r: &lance::Result<T>) -> (String, String) {
    match r {
        Ok(_) => ("ok".into(), String::new()),
        Err(e) => (classify(e), err_text(e)),
    }
}

/// The facts the flag words must reflect, read from the manifest of a handle.
async fn facts(d: &Dataset) -> Value {
    let m = d.manifest();
    let mut frags = vec![];
    let mut files = vec![];
    for f in m.fragments.iter() {
        let live = match d.get_fragment(f.id as usize) {
            Some(ff) => ff.count_rows(None).await.map(|x| x as i64).unwrap_or(-1),
            None => -1,
        };
        frags.push(json!([
            f.physical_rows.map(|x| x as i64).unwrap_or(-1),
            live,
            f.deletion_file.is_some() as u8,
            f.row_id_meta.is_some() as u8
        ]));
        for df in &f.files {
            files.push(json!([df.file_major_version, df.file_minor_version]));
        }
    }
    let small = |x: u64| if x < (1 << 20) { x as i64 } else { -1 };
    json!({
        "v": m.version,
        "r": small(m.reader_feature_flags),
        "w": small(m.writer_feature_flags),
        "frags": frags,
        "config": !m.config.is_empty(),
        "base": !m.base_paths.is_empty(),
        "dsv": m.data_storage_format.version,
        "files": files,
    })
}

struct Hist {
    d: Dataset,
    stable: bool,
    next_id: i64,
    dir: PathBuf,
}

fn new_rows(h: &mut Hist, n: usize) -> Vec<Vec<i64>> {
    (0..n)
        .map(|_| {
            h.next_id += 1;
            vec![h.next_id, h.next_id * 10]
        })
        .collect()
}

/// id value of one live row of the fragment at position `pos` (1-based) of the manifest
async fn pick_row(d: &Dataset, pos: usize) -> lance::Result<i64> {
    let fid = d.manifest().fragments[pos - 1].id;
    let mut sc = d.scan();
    sc.project(&["id"])?;
    sc.with_row_address();
    sc.scan_in_order(true);
    let b = sc.try_into_batch().await?;
    let ids = b.column_by_name("id").unwrap();
    let ids = arrow_array::cast::AsArray::as_primitive::<arrow_array::types::Int32Type>(ids.as_ref());
    let addr = b.column_by_name("_rowaddr").unwrap();
    let addr = arrow_array::cast::AsArray::as_primitive::<arrow_array::types::UInt64Type>(addr.as_ref());
    for i in 0..b.num_rows() {
        if addr.value(i) >> 32 == fid {
            return Ok(ids.value(i) as i64);
        }
    }
    Err(lance::Error::invalid_input("no live row in fragment", snafu::location!()))
}

fn other_version(d: &Dataset) -> LanceFileVersion {
    match d.manifest().data_storage_format.lance_file_version() {
        Ok(LanceFileVersion::V2_0) => LanceFileVersion::V2_1,
        _ => LanceFileVersion::V2_0,
    }
}

async fn hist_step(h: &mut Hist, op: &Value, mutate: &str) -> (String, String) {
    let a = op.as_array().unwrap();
    let name = a[0].as_str().unwrap();
    let d = Arc::new(h.d.clone());
    match name {
        "append" => {
            // the requested version differs from the table's: "always use the dataset version"
            let p = wparams(WriteMode::Append, h.stable, Some(other_version(&h.d)));
            let rows = new_rows(h, 2);
            let r = InsertBuilder::new(d).with_params(&p).execute(vec![batch(&cols(), &rows)]).await;
            let out = res_of(&r);
            if let Ok(nd) = r {
                h.d = nd;
            }
            out
        }
        "overwrite" => {
            let ver = if a[1].as_str().unwrap() == "switch" { Some(other_version(&h.d)) } else { None };
            let p = wparams(WriteMode::Overwrite, h.stable, ver);
            let rows = new_rows(h, 2);
            let r = InsertBuilder::new(d).with_params(&p).execute(vec![batch(&cols(), &rows)]).await;
            let out = res_of(&r);
            if let Ok(nd) = r {
                h.d = nd;
            }
            out
        }
        "delete" => {
            let id = match pick_row(&h.d, a[1].as_u64().unwrap() as usize).await {
                Ok(x) => x,
                Err(e) => return (classify(&e), err_text(&e)),
            };
            let r = DeleteBuilder::new(d, format!("id = {id}")).execute().await;
            let out = res_of(&r);
            if let Ok(nd) = r {
                h.d = (*nd).clone();
            }
            out
        }
        "update" => {
            let id = match pick_row(&h.d, a[1].as_u64().unwrap() as usize).await {
                Ok(x) => x,
                Err(e) => return (classify(&e), err_text(&e)),
            };
            let r = async {
                UpdateBuilder::new(d)
                    .update_where(&format!("id = {id}"))?
                    .set("val", "val + 1")?
                    .build()?
                    .execute()
                    .await
            }
            .await;
            let out = res_of(&r);
            if let Ok(u) = r {
                h.d = (*u.new_dataset).clone();
            }
            out
        }
        "compact" => {
            let mut nd = h.d.clone();
            let o = CompactionOptions { num_threads: Some(1), ..Default::default() };
            let r = compact_files(&mut nd, o, None).await;
            let out = res_of(&r);
            h.d = nd;
            out
        }
        "set_config" => {
            let mut nd = h.d.clone();
            #[allow(deprecated)]
            let r = nd.update_config(vec![("k".to_string(), "v".to_string())]).await;
            let out = res_of(&r);
            h.d = nd;
            out
        }
        "clear_config" => {
            let mut nd = h.d.clone();
            #[allow(deprecated)]
            let r = nd.delete_config_keys(&["k"]).await;
            let out = res_of(&r);
            h.d = nd;
            out
        }
        "clone" => {
            let mut src = h.d.clone();
            let target = h.dir.join("clone");
            let v = src.manifest().version;
            let r = src.shallow_clone(target.to_str().unwrap(), v, None).await;
            let out = res_of(&r);
            if let Ok(nd) = r {
                h.d = nd;
            }
            let _ = mutate;
            out
        }
        other => (format!("unknown-op:{other}"), String::new()),
    }
}

fn hist(w: &mut TraceWriter, args: &Args, rt: &tokio::runtime::Runtime) {
    let scn_file = args.get("scenarios").expect("--scenarios");
    let scratch = PathBuf::from(args.get_or("scratch", "/verif/work/flags-scratch"));
    let seed = args.num("seed", 0);
    let mutate = args.get_or("mutate", "");
    std::fs::create_dir_all(&scratch).unwrap();
    let text = std::fs::read_to_string(&scn_file).unwrap();
    for (li, line) in text.lines().enumerate() {
        if line.trim().is_empty() {
            continue;
        }
        let scn: Value = serde_json::from_str(line).unwrap();
        let steps = scn.as_array().unwrap();
        let dir = scratch.join(format!("h{}_{}", std::process::id(), li));
        let _ = std::fs::remove_dir_all(&dir);
        std::fs::create_dir_all(&dir).unwrap();
        let stable = steps[0]["stable"].as_bool().unwrap();
        let ver = steps[0]["ver"].as_str().unwrap();
        // a name (alias or number) that must resolve to the scenario's concrete version
        let alias = (li as u64 + seed) % 2 == 0;
        let name = match (ver, alias) {
            ("V2_0", true) => "stable",
            ("V2_0", false) => "2.0",
            ("V2_1", true) => "next",
            ("V2_1", false) => "2.1",
            (_, _) => "2.2",
        };
        let uri = dir.join("t").to_str().unwrap().to_string();
        let p = wparams(WriteMode::Create, stable, Some(LanceFileVersion::from_str(name).unwrap()));
        let r = rt.block_on(
            InsertBuilder::new(uri.as_str()).with_params(&p).execute(vec![batch(&cols(), &[vec![1, 10], vec![2, 20]])]),
        );
        let d = match r {
            Ok(d) => d,
            Err(e) => {
                w.emit(json!(["reset", li, stable, ver, name, classify(&e), {}]));
                continue;
            }
        };
        let f = rt.block_on(facts(&d));
        w.emit(json!(["reset", li, stable, ver, name, "ok", f]));
        let mut h = Hist { d, stable, next_id: 2, dir: dir.clone() };
        for (i, st) in steps.iter().enumerate().skip(1) {
            let op = &st["op"];
            let fut = std::panic::AssertUnwindSafe(hist_step(&mut h, op, &mutate)).catch_unwind();
            let (res, text) = match rt.block_on(fut) {
                Ok(x) => x,
                Err(_) => ("panic".to_string(), String::new()),
            };
            let mut f = rt.block_on(facts(&h.d));
            if mutate == "hist-drop-del-flag" && f["r"].as_i64().unwrap() & 1 == 1 {
                f["r"] = json!(f["r"].as_i64().unwrap() & !1);
            }
            w.emit(json!(["step", li, i, op, res, f, text]));
        }
        let _ = std::fs::remove_dir_all(&dir);
    }
}

// ------------------------------------------------------------------------------------------------
// gate section

const READ_OPS: [&str; 3] = ["open", "checkout_version", "refresh"];
const WRITE_OPS: [&str; 16] = [
    "append", "overwrite", "delete", "update", "merge_insert", "compact", "create_index", "optimize_indices",
    "add_column", "drop_column", "rename_column", "update_config", "delete_config", "restore", "commit_append",
    "commit_detached",
];

struct Setup {
    uri: String,
    stale: Dataset,        // handle at the last clean version
    prepared: Transaction, // an append prepared on the clean table
    poison_v: u64,
}

/// create(v1) -> update_config(v2) -> create_index(v3) -> delete one row(v4) -> append(v5); then a "future writer"
/// commits v6 = v5's manifest with the chosen flag bits added.
async fn gate_setup(dir: &PathBuf, rbits: u64, wbits: u64) -> lance::Result<Setup> {
    let uri = dir.join("t").to_str().unwrap().to_string();
    let mut p = wparams(WriteMode::Create, false, None);
    p.enable_v2_manifest_paths = true; // detached commits need V2 manifest names
    let mut d = InsertBuilder::new(uri.as_str())
        .with_params(&p)
        .execute(vec![batch(&cols(), &[vec![1, 10], vec![2, 20]])])
        .await?;
    #[allow(deprecated)]
    d.update_config(vec![("k".to_string(), "v".to_string())]).await?;
    d.create_index(&["val"], IndexType::BTree, Some("val_idx".into()), &ScalarIndexParams::default(), true).await?;
    let d = DeleteBuilder::new(Arc::new(d), "id = 2").execute().await?;
    let p = wparams(WriteMode::Append, false, None);
    let d = InsertBuilder::new(d)
        .with_params(&p)
        .execute(vec![batch(&cols(), &[vec![3, 30], vec![4, 40]])])
        .await?;
    let prepared = InsertBuilder::new(Arc::new(d.clone()))
        .with_params(&p)
        .execute_uncommitted(vec![batch(&cols(), &[vec![5, 50]])])
        .await?;
    // the future writer
    let mut m = d.manifest().clone();
    m.version += 1;
    m.reader_feature_flags |= rbits;
    m.writer_feature_flags |= wbits;
    let loc = d.manifest_location();
    let parts: Vec<_> = loc.path.parts().collect();
    let base = object_store::path::Path::from_iter(parts[..parts.len() - 2].iter().cloned());
    let path = loc.naming_scheme.manifest_path(&base, m.version);
    let indices = d.load_indices().await?;
    // the future writer's version carries its own inline transaction (a copy of the last append's)
    let tx: Option<lance_table::format::Transaction> = d.read_transaction().await?.as_ref().map(|t| t.into());
    if tx.is_none() {
        m.transaction_section = None;
    }
    write_manifest_file_to_path(d.object_store(), &mut m, Some(indices.as_ref().clone()), &path, tx).await?;
    Ok(Setup { uri, stale: d, prepared, poison_v: m.version })
}

async fn gate_op(op: &str, h: Dataset, s: &Setup) -> (String, String, i64) {
    let d = Arc::new(h.clone());
    let one = |id: i64| vec![batch(&cols(), &[vec![id, id * 10]])];
    let mut hv = -1i64;
    let r: (String, String) = match op {
        "append" => {
            let r = InsertBuilder::new(d).with_params(&wparams(WriteMode::Append, false, None)).execute(one(9)).await;
            res_of(&r)
        }
        "overwrite" => {
            let r = InsertBuilder::new(d).with_params(&wparams(WriteMode::Overwrite, false, None)).execute(one(9)).await;
            res_of(&r)
        }
        "delete" => res_of(&DeleteBuilder::new(d, "id = 1").execute().await),
        "update" => {
            let r = async { UpdateBuilder::new(d).update_where("id = 1")?.set("val", "val + 1")?.build()?.execute().await }.await;
            res_of(&r)
        }
        "merge_insert" => {
            let r = async {
                let mut b = MergeInsertBuilder::try_new(d, vec!["id".to_string()])?;
                b.when_matched(WhenMatched::UpdateAll).when_not_matched(WhenNotMatched::InsertAll);
                let job = b.try_build()?;
                let rdr = reader(&cols(), &[vec![1, 11], vec![9, 90]]);
                job.execute(lance_datafusion::utils::reader_to_stream(Box::new(rdr))).await
            }
            .await;
            res_of(&r)
        }
        "compact" => {
            let mut nd = h.clone();
            let o = CompactionOptions { num_threads: Some(1), ..Default::default() };
            res_of(&compact_files(&mut nd, o, None).await)
        }
        "create_index" => {
            let mut nd = h.clone();
            res_of(&nd.create_index(&["id"], IndexType::BTree, Some("id_idx".into()), &ScalarIndexParams::default(), true).await)
        }
        "optimize_indices" => {
            let mut nd = h.clone();
            res_of(&nd.optimize_indices(&Default::default()).await)
        }
        "add_column" => {
            let mut nd = h.clone();
            res_of(&nd.add_columns(NewColumnTransform::SqlExpressions(vec![("w".into(), "val + 1".into())]), None, None).await)
        }
        "drop_column" => {
            let mut nd = h.clone();
            res_of(&nd.drop_columns(&["val"]).await)
        }
        "rename_column" => {
            let mut nd = h.clone();
            let alt = lance::dataset::ColumnAlteration::new("val".to_string()).rename("val2".to_string());
            res_of(&nd.alter_columns(&[alt]).await)
        }
        "update_config" => {
            let mut nd = h.clone();
            #[allow(deprecated)]
            let r = nd.update_config(vec![("k2".to_string(), "v2".to_string())]).await;
            res_of(&r)
        }
        "delete_config" => {
            let mut nd = h.clone();
            #[allow(deprecated)]
            let r = nd.delete_config_keys(&["k"]).await;
            res_of(&r)
        }
        "restore" => match h.checkout_version(1).await {
            Err(e) => (classify(&e), err_text(&e)),
            Ok(mut old) => res_of(&old.restore().await),
        },
        "commit_append" => res_of(&CommitBuilder::new(d).execute(s.prepared.clone()).await),
        // a detached commit (does not become the latest version) built on the handle's version
        "commit_detached" => res_of(&CommitBuilder::new(d).with_detached(true).execute(s.prepared.clone()).await),
        // read operations ---------------------------------------------------------------------
        "open" => {
            let r = Dataset::open(&s.uri).await;
            if let Ok(x) = &r {
                hv = x.manifest().version as i64;
            }
            res_of(&r)
        }
        "checkout_version" => {
            let r = h.checkout_version(s.poison_v).await;
            if let Ok(x) = &r {
                hv = x.manifest().version as i64;
            }
            res_of(&r)
        }
        "refresh" => {
            let mut nd = h.clone();
            let r = nd.checkout_latest().await;
            hv = nd.manifest().version as i64;
            res_of(&r)
        }
        other => (format!("unknown-op:{other}"), String::new()),
    };
    (r.0, r.1, hv)
}

fn gate(w: &mut TraceWriter, args: &Args, rt: &tokio::runtime::Runtime) {
    let nknown = args.num("nknown", 6);
    let scratch = PathBuf::from(args.get_or("scratch", "/verif/work/flags-scratch"));
    let only_op = args.get("op");
    let emb_names: Vec<String> = args.get_or("embeds", "low,top").split(',').map(|s| s.to_string()).collect();
    std::fs::create_dir_all(&scratch).unwrap();
    let embs = embeddings(nknown);
    let mut cases: Vec<(String, String, u64, u64, String)> = vec![]; // op, handle, ur, uw (abstract, shifted to 0..3), emb
    for en in &emb_names {
        for op in READ_OPS {
            for ur in 0..4u64 {
                for uw in 0..4u64 {
                    cases.push((op.to_string(), if op == "open" { "fresh" } else { "stale" }.to_string(), ur, uw, en.clone()));
                }
            }
        }
        for op in WRITE_OPS {
            for uw in 0..4u64 {
                cases.push((op.to_string(), "fresh".to_string(), 0, uw, en.clone()));
                cases.push((op.to_string(), "stale".to_string(), 0, uw, en.clone()));
                if uw != 0 {
                    cases.push((op.to_string(), "stale".to_string(), uw, uw, en.clone()));
                }
            }
        }
    }
    w.emit(json!(["gate_univ", READ_OPS, WRITE_OPS, emb_names]));
    let mut n = 0;
    let chunk = 8;
    let cases: Vec<_> = cases.into_iter().filter(|c| only_op.as_ref().map(|o| *o == c.0).unwrap_or(true)).collect();
    for group in cases.chunks(chunk) {
        let futs = group.iter().enumerate().map(|(gi, (op, handle, ur, uw, en))| {
            let emb = embs.iter().find(|e| e.0 == en).unwrap().1.clone();
            let dir = scratch.join(format!("g{}_{}", std::process::id(), n + gi));
            let (op, handle, ur, uw, en) = (op.clone(), handle.clone(), *ur, *uw, en.clone());
            async move {
                let _ = std::fs::remove_dir_all(&dir);
                std::fs::create_dir_all(&dir).unwrap();
                let rbits = embed(ur << nknown, nknown, &emb);
                let wbits = embed(uw << nknown, nknown, &emb);
                let ev = match gate_setup(&dir, rbits, wbits).await {
                    Err(e) => json!(["gate", op, handle, ur, uw, en, "setup-failed", classify(&e), -1, -1, -1, err_text(&e)]),
                    Ok(s) => {
                        let before = s.stale.latest_version_id().await.map(|x| x as i64).unwrap_or(-1);
                        let h = if handle == "stale" || op == "open" {
                            Ok(s.stale.clone())
                        } else {
                            Dataset::open(&s.uri).await
                        };
                        match h {
                            Err(e) => json!(["gate", op, handle, ur, uw, en, "open-refused", classify(&e), before, before, -1, ""]),
                            Ok(h) => {
                                let fut = std::panic::AssertUnwindSafe(gate_op(&op, h, &s)).catch_unwind();
                                let (res, text, hv) = match fut.await {
                                    Ok(x) => x,
                                    Err(_) => ("panic".to_string(), String::new(), -1),
                                };
                                let after = s.stale.latest_version_id().await.map(|x| x as i64).unwrap_or(-1);
                                // versions are reported relative to the future writer's version
                                let rel = |x: i64| if x < 0 { -1 } else { x - s.poison_v as i64 };
                                json!(["gate", op, handle, ur, uw, en, "ran", res, rel(before), rel(after),
                                       if hv < 0 { -9 } else { hv - s.poison_v as i64 }, text])
                            }
                        }
                    }
                };
                let _ = std::fs::remove_dir_all(&dir);
                ev
            }
        });
        let evs = rt.block_on(futures::future::join_all(futs));
        for e in evs {
            w.emit(e);
        }
        n += group.len();
    }
}

fn main() {
    let args = Args::from_env();
    let out = args.get("out").expect("--out");
    let section = args.get_or("section", "pure");
    let rt = tokio::runtime::Builder::new_multi_thread().worker_threads(4).enable_all().build().unwrap();
    let mut w = TraceWriter::create(&out);
    match section.as_str() {
        "pure" => {
            if let Err(p) = catch(std::panic::AssertUnwindSafe(|| pure(&mut w, &args))) {
                w.emit(json!(["panic", p]));
            }
        }
        "hist" => hist(&mut w, &args, &rt),
        "gate" => gate(&mut w, &args, &rt),
        other => panic!("unknown section {other}"),
    }
    let events = w.finish();
    println!("{{\"events\":{events}}}");
}
