//! Driver for spec/IndexAlgebra.tla (property C21).
//!
//! Enumerates the complete finite universe described by (NF, NR) -- the same
//! integer codes the TLA+ module defines -- calls the real `RowIdTreeMap`,
//! `RowIdMask` and `ScalarIndexExpr::evaluate`, and records one event per call.
//! It never compares anything itself: Trace_IndexAlgebra.tla is the judge.
use std::any::Any;
use std::collections::HashMap;
use std::ops::Bound;
use std::sync::Arc;

use async_trait::async_trait;
use deepsize::DeepSizeOf;
use lance_core::utils::mask::{RowIdMask, RowIdTreeMap};
use lance_core::Result;
use lance_index::metrics::{MetricsCollector, NoOpMetricsCollector};
use lance_index::scalar::expression::{
    IndexExprResult, ScalarIndexExpr, ScalarIndexLoader, ScalarIndexSearch,
};
use lance_index::scalar::{
    AnyQuery, CreatedIndex, IndexStore, SargableQuery, ScalarIndex, ScalarIndexParams,
    SearchResult, UpdateCriteria,
};
use lance_index::{Index, IndexType};
use lance_verif_harness::trace::{catch, Args, TraceWriter};
use roaring::RoaringBitmap;
use serde_json::{json, Value};

#[derive(Clone)]
struct Univ {
    nf: u32,
    nr: u32,
    fid: Vec<u32>, // nf+1 fragment ids, increasing
    off: Vec<u32>, // nr+1 row offsets, increasing
}

impl Univ {
    fn b(&self) -> u64 {
        2 + (1u64 << self.nr)
    }
    fn t(&self) -> u64 {
        self.b().pow(self.nf)
    }
    fn addr(&self, f: u32, r: u32) -> u64 {
        ((self.fid[f as usize] as u64) << 32) | self.off[r as usize] as u64
    }
    fn addr_of_idx(&self, idx: u32) -> u64 {
        self.addr(idx / (self.nr + 1), idx % (self.nr + 1))
    }
    fn nu(&self) -> u32 {
        (self.nf + 1) * (self.nr + 1)
    }
    fn idx_of_addr(&self, a: u64) -> i64 {
        let f = (a >> 32) as u32;
        let o = a as u32;
        match (
            self.fid.iter().position(|x| *x == f),
            self.off.iter().position(|x| *x == o),
        ) {
            (Some(fi), Some(ri)) => (fi as u32 * (self.nr + 1) + ri as u32) as i64,
            _ => -2,
        }
    }
    fn tm(&self, code: u64) -> RowIdTreeMap {
        let mut m = RowIdTreeMap::new();
        let b = self.b();
        let mut c = code;
        for f in 0..self.nf {
            let d = c % b;
            c /= b;
            match d {
                0 => {}
                1 => m.insert_fragment(self.fid[f as usize]),
                _ => {
                    let bits = d - 2;
                    let mut bm = RoaringBitmap::new();
                    for r in 0..self.nr {
                        if (bits >> r) & 1 == 1 {
                            bm.insert(self.off[r as usize]);
                        }
                    }
                    m.insert_bitmap(self.fid[f as usize], bm);
                }
            }
        }
        m
    }
    fn mask(&self, mc: u64) -> RowIdMask {
        let t1 = self.t() + 1;
        let a = (mc / t1) as i64 - 1;
        let b = (mc % t1) as i64 - 1;
        RowIdMask {
            allow_list: if a < 0 { None } else { Some(self.tm(a as u64)) },
            block_list: if b < 0 { None } else { Some(self.tm(b as u64)) },
        }
    }
    fn probe_tm(&self, m: &RowIdTreeMap) -> u64 {
        let mut bits = 0u64;
        for i in 0..self.nu() {
            if m.contains(self.addr_of_idx(i)) {
                bits |= 1 << i;
            }
        }
        bits
    }
    fn probe_mask(&self, m: &RowIdMask) -> u64 {
        let mut bits = 0u64;
        for i in 0..self.nu() {
            if m.selected(self.addr_of_idx(i)) {
                bits |= 1 << i;
            }
        }
        bits
    }
}

impl Univ {
    /// Digits (per fragment) of the lists that are present.
    fn lists(&self, mc: u64) -> Vec<u64> {
        let t1 = self.t() + 1;
        let mut v = vec![];
        if mc / t1 > 0 {
            v.push(mc / t1 - 1);
        }
        if mc % t1 > 0 {
            v.push(mc % t1 - 1);
        }
        v
    }
    /// Conservative predicate: could evaluating an operator over these tree maps materialise
    /// `RoaringBitmap::full()` (512 MiB, ~1 s)?  True when some fragment is Full in one of the
    /// lists and a bitmap in another.
    fn costly(&self, tms: &[u64]) -> bool {
        let b = self.b();
        (0..self.nf).any(|f| {
            let ds: Vec<u64> = tms.iter().map(|c| (c / b.pow(f)) % b).collect();
            ds.iter().any(|d| *d == 1) && ds.iter().any(|d| *d >= 2)
        })
    }
}

impl Univ {
    fn digit(&self, c: u64, f: u32) -> u64 {
        (c / self.b().pow(f)) % self.b()
    }
    /// a - b materialises a full bitmap iff some fragment is Full in a and a bitmap in b
    fn sub_costly(&self, a: u64, b: u64) -> bool {
        (0..self.nf).any(|f| self.digit(a, f) == 1 && self.digit(b, f) >= 2)
    }
    fn split(&self, mc: u64) -> (Option<u64>, Option<u64>) {
        let t1 = self.t() + 1;
        (
            if mc / t1 > 0 { Some(mc / t1 - 1) } else { None },
            if mc % t1 > 0 { Some(mc % t1 - 1) } else { None },
        )
    }
    fn norm_costly(&self, mc: u64) -> bool {
        matches!(self.split(mc), (Some(a), Some(b)) if self.sub_costly(a, b))
    }
    /// x | y : normalize both, then block - other's allow
    fn or_costly(&self, x: u64, y: u64) -> bool {
        if self.norm_costly(x) || self.norm_costly(y) {
            return true;
        }
        let (xa, xb) = self.split(x);
        let (ya, yb) = self.split(y);
        let c1 = matches!((xa, xb, ya), (None, Some(b), Some(a)) if self.sub_costly(b, a));
        let c2 = matches!((ya, yb, xa), (None, Some(b), Some(a)) if self.sub_costly(b, a));
        c1 || c2
    }
    /// tm.mask(m): tm &= allow ; tm -= block
    fn mask_costly(&self, tm: u64, mc: u64) -> bool {
        let (al, bl) = self.split(mc);
        match bl {
            None => false,
            Some(b) => (0..self.nf).any(|f| {
                self.digit(tm, f) == 1
                    && al.map(|a| self.digit(a, f) == 1).unwrap_or(true)
                    && self.digit(b, f) >= 2
            }),
        }
    }
}

/// Deterministic sampling of the costly cases: a counting pass first measures how many costly
/// cases each operator has, the recording pass then takes about `budget` of them per operator
/// (chosen by a seeded hash of the arguments) and counts the rest as skipped.
struct Sampler {
    seed: u64,
    budget: u64,
    counting: bool,
    costly: std::collections::BTreeMap<String, u64>,
    skipped: std::collections::BTreeMap<String, u64>,
}
impl Sampler {
    fn take(&mut self, op: &str, costly: bool, a: u64, b: u64) -> bool {
        if !costly {
            return !self.counting;
        }
        if self.counting {
            *self.costly.entry(op.to_string()).or_insert(0) += 1;
            return false;
        }
        let total = self.costly.get(op).copied().unwrap_or(0);
        let k = (total / self.budget).max(1);
        let mut h = self.seed ^ 0x9E3779B97F4A7C15;
        for x in [a, b, op.len() as u64, op.as_bytes()[op.len() - 1] as u64] {
            h = (h ^ x).wrapping_mul(0x100000001B3).rotate_left(23);
        }
        if h % k == 0 {
            true
        } else {
            *self.skipped.entry(op.to_string()).or_insert(0) += 1;
            false
        }
    }
}

struct W {
    inner: Option<TraceWriter>,
}
impl W {
    fn emit(&mut self, v: Value) {
        if let Some(w) = &mut self.inner {
            w.emit(v);
        }
    }
}

fn opt_u64(v: Option<u64>) -> Value {
    match v {
        Some(n) if n < (1 << 30) => json!(n),
        Some(_) => json!(-3), // too large for TLC integers: not checkable
        None => json!(-1),
    }
}

// ---------------------------------------------------------------------------
// mock index for evaluate()
#[derive(Debug)]
struct MockIndex {
    tag: u8,
    tm: RowIdTreeMap,
}
impl DeepSizeOf for MockIndex {
    fn deep_size_of_children(&self, _c: &mut deepsize::Context) -> usize {
        0
    }
}
#[async_trait]
impl Index for MockIndex {
    fn as_any(&self) -> &dyn Any {
        self
    }
    fn as_index(self: Arc<Self>) -> Arc<dyn Index> {
        self
    }
    fn as_vector_index(self: Arc<Self>) -> Result<Arc<dyn lance_index::vector::VectorIndex>> {
        unimplemented!()
    }
    fn statistics(&self) -> Result<serde_json::Value> {
        Ok(json!({}))
    }
    async fn prewarm(&self) -> Result<()> {
        Ok(())
    }
    fn index_type(&self) -> IndexType {
        IndexType::BTree
    }
    async fn calculate_included_frags(&self) -> Result<RoaringBitmap> {
        Ok(RoaringBitmap::new())
    }
}
#[async_trait]
impl ScalarIndex for MockIndex {
    async fn search(
        &self,
        _query: &dyn AnyQuery,
        _metrics: &dyn MetricsCollector,
    ) -> Result<SearchResult> {
        Ok(match self.tag {
            0 => SearchResult::Exact(self.tm.clone()),
            1 => SearchResult::AtMost(self.tm.clone()),
            _ => SearchResult::AtLeast(self.tm.clone()),
        })
    }
    fn can_remap(&self) -> bool {
        false
    }
    async fn remap(
        &self,
        _mapping: &HashMap<u64, Option<u64>>,
        _dest_store: &dyn IndexStore,
    ) -> Result<CreatedIndex> {
        unimplemented!()
    }
    async fn update(
        &self,
        _new_data: datafusion::physical_plan::SendableRecordBatchStream,
        _dest_store: &dyn IndexStore,
    ) -> Result<CreatedIndex> {
        unimplemented!()
    }
    fn update_criteria(&self) -> UpdateCriteria {
        unimplemented!()
    }
    fn derive_index_params(&self) -> Result<ScalarIndexParams> {
        unimplemented!()
    }
}
struct MockLoader {
    u: Univ,
}
#[async_trait]
impl ScalarIndexLoader for MockLoader {
    async fn load_index(
        &self,
        _column: &str,
        index_name: &str,
        _metrics: &dyn MetricsCollector,
    ) -> Result<Arc<dyn ScalarIndex>> {
        // index name = "<tag>_<tmcode>"
        let (t, c) = index_name.split_once('_').unwrap();
        Ok(Arc::new(MockIndex {
            tag: t.parse().unwrap(),
            tm: self.u.tm(c.parse().unwrap()),
        }))
    }
}

#[derive(Clone, Debug)]
enum Tree {
    L(u8, u64),
    N(Box<Tree>),
    A(Box<Tree>, Box<Tree>),
    O(Box<Tree>, Box<Tree>),
}
impl Tree {
    fn leaf_codes(&self, out: &mut Vec<u64>) {
        match self {
            Tree::L(_, c) => out.push(*c),
            Tree::N(x) => x.leaf_codes(out),
            Tree::A(x, y) | Tree::O(x, y) => {
                x.leaf_codes(out);
                y.leaf_codes(out);
            }
        }
    }
    fn json(&self) -> Value {
        match self {
            Tree::L(t, c) => {
                let tag = ["Exact", "AtMost", "AtLeast"][*t as usize];
                json!(["L", tag, c])
            }
            Tree::N(x) => json!(["N", x.json()]),
            Tree::A(x, y) => json!(["A", x.json(), y.json()]),
            Tree::O(x, y) => json!(["O", x.json(), y.json()]),
        }
    }
    fn expr(&self) -> ScalarIndexExpr {
        match self {
            Tree::L(t, c) => ScalarIndexExpr::Query(ScalarIndexSearch {
                column: "c".into(),
                index_name: format!("{t}_{c}"),
                query: Arc::new(SargableQuery::IsNull()),
                needs_recheck: *t != 0,
            }),
            Tree::N(x) => ScalarIndexExpr::Not(Box::new(x.expr())),
            Tree::A(x, y) => ScalarIndexExpr::And(Box::new(x.expr()), Box::new(y.expr())),
            Tree::O(x, y) => ScalarIndexExpr::Or(Box::new(x.expr()), Box::new(y.expr())),
        }
    }
}

/// All trees with at most `max_leaves` leaves and NOT applied at most once per node.
fn trees(leaves: &[Tree], max_leaves: usize) -> Vec<Tree> {
    // by_n[n] = trees with exactly n leaves
    let mut by_n: Vec<Vec<Tree>> = vec![vec![]; max_leaves + 1];
    for n in 1..=max_leaves {
        let mut plain: Vec<Tree> = vec![];
        if n == 1 {
            plain.extend(leaves.iter().cloned());
        }
        for k in 1..n {
            for x in &by_n[k] {
                for y in &by_n[n - k] {
                    plain.push(Tree::A(Box::new(x.clone()), Box::new(y.clone())));
                    plain.push(Tree::O(Box::new(x.clone()), Box::new(y.clone())));
                }
            }
        }
        let mut all = plain.clone();
        for p in plain {
            all.push(Tree::N(Box::new(p)));
        }
        by_n[n] = all;
    }
    by_n.into_iter().flatten().collect()
}

fn main() {
    let args = Args::from_env();
    let nf = args.num("nf", 2) as u32;
    let nr = args.num("nr", 2) as u32;
    let embed = args.get_or("embed", "dense");
    let section = args.get_or("section", "all");
    let max_leaves = args.num("leaves", 3) as usize;
    let out = args.get("out").expect("--out");
    let (fid, off): (Vec<u32>, Vec<u32>) = match embed.as_str() {
        // dense: ids 0,1,2.. ; offsets 0,1,.. (rest row directly after)
        "dense" => ((0..=nf).collect(), (0..=nr).collect()),
        // wide: fragment ids and offsets at the far ends of u32
        "wide" => {
            let mut f: Vec<u32> = (0..=nf).map(|i| 5 + 1000 * i).collect();
            *f.last_mut().unwrap() = u32::MAX;
            f[0] = 0;
            let mut o: Vec<u32> = (0..=nr).map(|i| 65535 + 65536 * i).collect();
            o[0] = 0;
            *o.last_mut().unwrap() = u32::MAX;
            (f, o)
        }
        _ => panic!("unknown embedding"),
    };
    let u = Univ { nf, nr, fid, off };
    let mut sm = Sampler {
        seed: args.num("seed", 0),
        budget: args.num("costly-budget", 4),
        counting: true,
        costly: Default::default(),
        skipped: Default::default(),
    };
    let mut total = 0;
    for pass in 0..2 {
        sm.counting = pass == 0;
        let mut w = W {
            inner: if pass == 0 { None } else { Some(TraceWriter::create(&out)) },
        };
        record(&args, &u, &embed, &section, max_leaves, &mut sm, &mut w);
        if let Some(mut tw) = w.inner.take() {
            tw.emit(json!(["skipped", sm.skipped]));
            total = tw.finish();
        }
    }
    println!("{{\"events\":{total}}}");
}

fn record(
    args: &Args,
    u: &Univ,
    embed: &str,
    section: &str,
    max_leaves: usize,
    sm: &mut Sampler,
    w: &mut W,
) {
    let (nf, nr) = (u.nf, u.nr);
    w.emit(json!(["univ", nf, nr, embed, u.fid.clone(), u.off.clone()]));
    let t = u.t();
    let nmask = (t + 1) * (t + 1);
    let nu = u.nu();
    let want = |s: &str| section == "all" || section == s;

    if want("tm1") {
        for c in 0..t {
            let m = u.tm(c);
            w.emit(json!(["tm_contains", c, u.probe_tm(&m)]));
            w.emit(json!(["tm_len", c, opt_u64(m.len())]));
            w.emit(json!(["tm_is_empty", c, m.is_empty()]));
            let it: Value = match m.row_ids() {
                None => json!([-1]),
                Some(it) => json!(it.map(|a| u.idx_of_addr(u64::from(a))).collect::<Vec<_>>()),
            };
            w.emit(json!(["tm_iter", c, it]));
            // serialise round trip
            let mut buf = vec![];
            m.serialize_into(&mut buf).unwrap();
            let size_ok = buf.len() == m.serialized_size();
            let back = RowIdTreeMap::deserialize_from(&buf[..]).unwrap();
            w.emit(json!(["tm_ser", c, u.probe_tm(&back), back == m && size_ok]));
            for i in 0..nu {
                let mut x = m.clone();
                let r = x.insert(u.addr_of_idx(i));
                w.emit(json!(["tm_insert", c, i, r, u.probe_tm(&x)]));
                let f = i / (nr + 1);
                let costly = f < nf && (c / u.b().pow(f)) % u.b() == 1;
                if sm.take("tm_remove", costly, c, i as u64) {
                    let mut x = m.clone();
                    let r = x.remove(u.addr_of_idx(i));
                    w.emit(json!(["tm_remove", c, i, r, u.probe_tm(&x)]));
                }
            }
            // ranges between universe points.  insert_range walks every fragment id between the
            // bounds, so ranges that span fragments are only issued in the dense embedding and
            // unbounded upper ends are never issued (they would enumerate 2^32 fragments).
            let dense = embed == "dense";
            let per = nr + 1;
            for lo in 0..nu {
                for hi in 0..nu {
                    let cross = lo / per != hi / per;
                    if cross && !dense {
                        continue;
                    }
                    // a range spanning fragments materialises full bitmaps for the fragments in between
                    if !sm.take("tm_range", cross && lo < hi, c * 1000 + lo as u64, hi as u64) {
                        continue;
                    }
                    let (a, b) = (u.addr_of_idx(lo), u.addr_of_idx(hi));
                    for kind in ["incl", "excl", "exin"] {
                        let mut x = m.clone();
                        let res = catch(std::panic::AssertUnwindSafe(|| match kind {
                            "incl" => x.insert_range(a..=b),
                            "excl" => x.insert_range(a..b),
                            _ => x.insert_range((Bound::Excluded(a), Bound::Included(b))),
                        }));
                        match res {
                            Ok(cnt) => w.emit(json!([
                                "tm_range", c, kind, lo, hi, opt_u64(Some(cnt)), u.probe_tm(&x)
                            ])),
                            Err(_) => w.emit(json!(["tm_range", c, kind, lo, hi, -9, 0])),
                        }
                    }
                }
                if lo / per == 0 {
                    let a = u.addr_of_idx(lo);
                    let mut x = m.clone();
                    x.insert_range(..a);
                    w.emit(json!(["tm_range", c, "to", lo, lo, -3, u.probe_tm(&x)]));
                    let mut x = m.clone();
                    x.insert_range(..=a);
                    w.emit(json!(["tm_range", c, "toin", lo, lo, -3, u.probe_tm(&x)]));
                }
            }
        }
    }
    if want("tm2") {
        for a in 0..t {
            for b in 0..t {
                let (x, y) = (u.tm(a), u.tm(b));
                w.emit(json!(["tm_or", a, b, u.probe_tm(&(x.clone() | y.clone()))]));
                w.emit(json!(["tm_and", a, b, u.probe_tm(&(x.clone() & y.clone()))]));
                if sm.take("tm_sub", u.sub_costly(a, b), a, b) {
                    let d = x.clone() - y.clone();
                    w.emit(json!(["tm_sub", a, b, u.probe_tm(&d)]));
                }
                let un = RowIdTreeMap::union_all(&[&x, &y]);
                w.emit(json!(["tm_or", a, b, u.probe_tm(&un)]));
                let mut e = x.clone();
                e.extend(std::iter::once(y.clone()));
                w.emit(json!(["tm_or", a, b, u.probe_tm(&e)]));
            }
        }
        for a in 0..t {
            for mc in 0..nmask {
                if sm.take("tm_mask", u.mask_costly(a, mc), a, mc) {
                    let mut x = u.tm(a);
                    x.mask(&u.mask(mc));
                    w.emit(json!(["tm_mask", a, mc, u.probe_tm(&x)]));
                }
            }
        }
    }
    if want("m1") {
        let ids: Vec<u64> = (0..nu).map(|i| u.addr_of_idx(i)).collect();
        for mc in 0..nmask {
            let m = u.mask(mc);
            w.emit(json!(["m_sel", mc, u.probe_mask(&m)]));
            let costly1 = u.norm_costly(mc);
            if sm.take("m_not", costly1, mc, 0) {
                w.emit(json!(["m_not", mc, u.probe_mask(&!m.clone())]));
            }
            if sm.take("m_norm", costly1, mc, 0) {
                let n = m.clone().normalize();
                let single = n.block_list.is_none() || n.allow_list.is_none();
                w.emit(json!(["m_norm", mc, u.probe_mask(&n), single]));
            }
            w.emit(json!(["m_max_len", mc, opt_u64(m.max_len())]));
            let it: Value = match m.iter_ids() {
                None => json!([-1]),
                Some(it) => json!(it.map(|a| u.idx_of_addr(u64::from(a))).collect::<Vec<_>>()),
            };
            w.emit(json!(["m_iter", mc, it]));
            let arr = m.into_arrow().unwrap();
            let back = RowIdMask::from_arrow(&arr).unwrap();
            w.emit(json!(["m_arrow", mc, u.probe_mask(&back)]));
            if m.allow_list.is_some() || m.block_list.is_some() {
                let sel = m.selected_indices(ids.iter());
                w.emit(json!(["m_selidx", mc, sel]));
            }
            for c in 0..t {
                w.emit(json!(["m_also_allow", mc, c, u.probe_mask(&m.clone().also_allow(u.tm(c)))]));
                w.emit(json!(["m_also_block", mc, c, u.probe_mask(&m.clone().also_block(u.tm(c)))]));
            }
        }
    }
    if want("m2") {
        let a_lo = args.num("a-lo", 0);
        let a_hi = args.num("a-hi", nmask).min(nmask);
        for a in a_lo..a_hi {
            let x = u.mask(a);
            for b in 0..nmask {
                let y = u.mask(b);
                w.emit(json!(["m_and", a, b, u.probe_mask(&(x.clone() & y.clone()))]));
                if sm.take("m_or", u.or_costly(a, b), a, b) {
                    w.emit(json!(["m_or", a, b, u.probe_mask(&(x.clone() | y))]));
                }
            }
        }
    }
    if want("ev") {
        let rt = tokio::runtime::Builder::new_current_thread().build().unwrap();
        let loader = MockLoader { u: u.clone() };
        let mut leaves = vec![];
        for tag in 0..3u8 {
            for c in 0..t {
                leaves.push(Tree::L(tag, c));
            }
        }
        for (ti, tr) in trees(&leaves, max_leaves).into_iter().enumerate() {
            let mut codes = vec![];
            tr.leaf_codes(&mut codes);
            if !sm.take("ev", u.costly(&codes), ti as u64, 0) {
                continue;
            }
            let e = tr.expr();
            let res = rt.block_on(e.evaluate(&loader, &NoOpMetricsCollector)).unwrap();
            let tag = match &res {
                IndexExprResult::Exact(_) => "Exact",
                IndexExprResult::AtMost(_) => "AtMost",
                IndexExprResult::AtLeast(_) => "AtLeast",
            };
            w.emit(json!(["ev", tr.json(), tag, u.probe_mask(res.row_id_mask())]));
        }
    }
}
