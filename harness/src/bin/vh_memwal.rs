//! Driver for spec/MemWal.tla (property C39): replays TLC-generated histories of MemWAL index
//! operations on a real lance dataset and records, after every step, the result class and the raw
//! decoded `MemWalIndexDetails.mem_wal_list` of the latest version.  Nothing is judged here.
//!
//! Scenario (one JSON object per line):  {"id": n, "steps": [step, ...]}
//!   step = {"k": kind, "h": handle, ...}
//!     create                                   create the table (2 rows), handle "m"
//!     checkout  h, from, v                     h := from.checkout_version(v)   (stale handles)
//!     advance   h, r, exp ("" = None), own     advance_mem_wal_generation
//!     append    h, r, g, eid, exp              append_mem_wal_entry
//!     seal | flush | merge   h, r, g, exp      mark_mem_wal_as_sealed / flushed / merged
//!     owner     h, r, g, own                   update_mem_wal_owner
//!     trim      h                              trim_mem_wal_index
//!     mmerge    h, r, g, exp                   merge_insert(...).mark_mem_wal_as_merged(...) of one fresh row
//!     tappend   h                              plain table append of one fresh row
//! A handle is a `Dataset` value pinned at the version it last read or committed; an operation
//! on a stale handle is a transaction that read that version and commits now (as in vh_table).
//!
//! `--mutate <name>` emulates a seeded defect of the lance function under test by committing a
//! hand-built transaction instead of calling the API (binding demonstration only).
use std::collections::HashMap;
use std::path::PathBuf;
use std::sync::Arc;

use futures::FutureExt;
use lance::dataset::transaction::{Operation, Transaction};
use lance::dataset::{
    CommitBuilder, Dataset, InsertBuilder, MergeInsertBuilder, WhenMatched, WhenNotMatched, WriteMode, WriteParams,
};
use lance::index::mem_wal::{
    advance_mem_wal_generation, append_mem_wal_entry, mark_mem_wal_as_flushed, mark_mem_wal_as_merged,
    mark_mem_wal_as_sealed, trim_mem_wal_index, update_mem_wal_owner,
};
use lance_index::mem_wal::{MemWal, MemWalId, MemWalIndexDetails, State, MEM_WAL_INDEX_NAME};
use lance_index::DatasetIndexExt;
use lance_table::format::pb;
use lance_verif_harness::tablekit::{batch, classify, err_text, reader};
use lance_verif_harness::trace::{Args, TraceWriter};
use prost::Message;
use serde_json::{json, Value};

struct Ctx {
    uri: String,
    cols: Vec<String>,
    handles: HashMap<String, Dataset>,
    mutate: String,
    tag: String,
}

fn state_num(s: &State) -> i64 {
    match s {
        State::Open => 0,
        State::Sealed => 1,
        State::Flushed => 2,
        State::Merged => 3,
    }
}

/// Raw list of the MemWAL index of one dataset version (None = no such index); also the number of
/// index entries carrying the MemWAL name.
async fn raw_list(ds: &Dataset) -> lance::Result<(Option<Vec<MemWal>>, usize)> {
    let indices = ds.load_indices().await?;
    let metas: Vec<_> = indices.iter().filter(|i| i.name == MEM_WAL_INDEX_NAME).collect();
    let Some(meta) = metas.first() else {
        return Ok((None, 0));
    };
    let Some(any) = meta.index_details.as_ref() else {
        return Err(lance::Error::Index { message: "no index details".into(), location: snafu::location!() });
    };
    let msg = pb::MemWalIndexDetails::decode(any.value.as_slice())
        .map_err(|e| lance::Error::Index { message: format!("decode: {e}"), location: snafu::location!() })?;
    let d = MemWalIndexDetails::try_from(msg)?;
    Ok((Some(d.mem_wal_list), metas.len()))
}

fn entry_json(m: &MemWal) -> Value {
    let seg = m.wal_entries();
    let ids: Vec<u64> = seg.iter().collect();
    json!({
        "r": m.id.region, "g": m.id.generation, "st": state_num(&m.state), "own": m.owner_id,
        "lu": m.last_updated_dataset_version,
        "hi": ids.iter().max().copied().unwrap_or(0), "n": ids.len(),
        "mt": m.mem_table_location, "wal": m.wal_location,
    })
}

async fn latest_projection(ctx: &Ctx) -> Value {
    let r: lance::Result<Value> = async {
        let ds = Dataset::open(&ctx.uri).await?;
        let (list, nidx) = raw_list(&ds).await?;
        let rows = ds.count_rows(None).await?;
        Ok(json!({
            "v": ds.manifest().version,
            "idx": list.is_some(),
            "nidx": nidx,
            "list": list.unwrap_or_default().iter().map(entry_json).collect::<Vec<_>>(),
            "rows": rows,
            "frags": ds.manifest().fragments.len(),
        }))
    }
    .await;
    match r {
        Ok(v) => v,
        Err(e) => json!({"error": classify(&e), "text": err_text(&e)}),
    }
}

fn res_of<T>(r: &lance::Result<T>) -> (String, String) {
    match r {
        Ok(_) => ("ok".into(), String::new()),
        Err(e) => (classify(e), err_text(e)),
    }
}

/// the entry a handle sees for (region, generation): the last one in the raw list, as MemWalIndex::new keeps it
async fn seen(ds: &Dataset, r: &str, g: u64) -> Option<MemWal> {
    let (list, _) = raw_list(ds).await.ok()?;
    list?.into_iter().filter(|m| m.id.region == r && m.id.generation == g).last()
}

async fn commit_by_hand(ds: &Dataset, read_version: u64, added: Vec<MemWal>, updated: Vec<MemWal>, removed: Vec<MemWal>) -> lance::Result<Dataset> {
    let txn = Transaction::new(read_version, Operation::UpdateMemWalState { added, updated, removed }, None);
    CommitBuilder::new(Arc::new(ds.clone())).execute(txn).await
}

async fn exec_step(ctx: &mut Ctx, step: &Value, i: usize) -> (String, String, Value) {
    let k = step["k"].as_str().unwrap().to_string();
    let h = step.get("h").and_then(|v| v.as_str()).unwrap_or("m").to_string();
    let r = step.get("r").and_then(|v| v.as_str()).unwrap_or("").to_string();
    let g = step.get("g").and_then(|v| v.as_u64()).unwrap_or(0);
    let exp = step.get("exp").and_then(|v| v.as_str()).unwrap_or("").to_string();
    let own = step.get("own").and_then(|v| v.as_str()).unwrap_or("").to_string();
    let extra = json!({});
    macro_rules! handle {
        () => {
            match ctx.handles.get(&h) {
                Some(d) => d.clone(),
                None => return ("nohandle".into(), String::new(), extra),
            }
        };
    }
    let mu = ctx.mutate.clone();
    let (res, text) = match k.as_str() {
        "create" => {
            let p = WriteParams { mode: WriteMode::Create, ..Default::default() };
            let r = InsertBuilder::new(ctx.uri.as_str())
                .with_params(&p)
                .execute(vec![batch(&ctx.cols, &[vec![1, 1], vec![2, 2]])])
                .await;
            let out = res_of(&r);
            if let Ok(d) = r {
                ctx.handles.insert(h.clone(), d);
            }
            out
        }
        "checkout" => {
            let from = step.get("from").and_then(|v| v.as_str()).unwrap_or("m").to_string();
            let src = match ctx.handles.get(&from) {
                Some(d) => d.clone(),
                None => return ("nohandle".into(), String::new(), extra),
            };
            let r = src.checkout_version(step["v"].as_u64().unwrap()).await;
            let out = res_of(&r);
            if let Ok(d) = r {
                ctx.handles.insert(h.clone(), d);
            }
            out
        }
        "advance" => {
            let mut d = handle!();
            let mt = format!("mt_{}_{}", ctx.tag, i);
            let wal = format!("wal_{}_{}", ctx.tag, i);
            let out = if mu == "advance-no-seal" || mu == "advance-skip-gen" {
                // seeded defects of advance_mem_wal_generation: the previous generation is left open /
                // the new generation number skips one
                let (list, _) = raw_list(&d).await.unwrap_or((None, 0));
                let latest = list.unwrap_or_default().into_iter().filter(|m| m.id.region == r).max_by_key(|m| m.id.generation);
                let (ng, upd, rem) = match &latest {
                    None => (0, vec![], vec![]),
                    Some(l) => {
                        let ng = l.id.generation + if mu == "advance-skip-gen" { 2 } else { 1 };
                        if l.state == State::Open && mu != "advance-no-seal" {
                            let mut u = l.clone();
                            u.state = State::Sealed;
                            (ng, vec![u], vec![l.clone()])
                        } else {
                            (ng, vec![], vec![])
                        }
                    }
                };
                let r2 = commit_by_hand(&d, d.manifest().version, vec![MemWal::new_empty(MemWalId::new(&r, ng), &mt, &wal, &own)], upd, rem).await;
                let o = res_of(&r2);
                if let Ok(nd) = r2 {
                    d = nd;
                }
                o
            } else {
                let r2 = advance_mem_wal_generation(&mut d, &r, &mt, &wal, if exp.is_empty() { None } else { Some(exp.as_str()) }, &own).await;
                res_of(&r2)
            };
            ctx.handles.insert(h.clone(), d);
            out
        }
        "append" | "seal" | "flush" | "merge" | "owner" => {
            let mut d = handle!();
            let by_hand = match (mu.as_str(), k.as_str()) {
                ("keep-removed", _) => true,      // update_mem_wal_index_in_indices_list forgets to drop the old entry
                ("merge-sets-sealed", "merge") => true, // mark_mem_wal_as_merged writes the wrong state
                ("no-conflict-check", _) => true, // check_txn accepts everything
                ("skip-owner-check", _) => true,  // check_expected_owner_id removed
                _ => false,
            };
            let out = if by_hand {
                match seen(&d, &r, g).await {
                    None => ("invalid".to_string(), "hand-built: no such generation".to_string()),
                    Some(old) => {
                        let want = match k.as_str() {
                            "append" | "seal" => Some(State::Open),
                            "flush" => Some(State::Sealed),
                            "merge" => Some(State::Flushed),
                            _ => None,
                        };
                        let owner_ok = k == "owner" && own != old.owner_id || k != "owner" && (exp == old.owner_id || mu == "skip-owner-check");
                        if want.as_ref().map(|w| *w != old.state).unwrap_or(false) || !owner_ok {
                            ("invalid".to_string(), "hand-built: precondition".to_string())
                        } else {
                            let mut u = old.clone();
                            match k.as_str() {
                                "append" => {
                                    u.wal_entries = pb::U64Segment::from(u.wal_entries().with_new_high(step["eid"].as_u64().unwrap()).unwrap()).encode_to_vec()
                                }
                                "seal" => u.state = State::Sealed,
                                "flush" => u.state = State::Flushed,
                                "merge" => u.state = if mu == "merge-sets-sealed" { State::Sealed } else { State::Merged },
                                _ => u.owner_id = own.clone(),
                            }
                            let rv = if mu == "no-conflict-check" {
                                Dataset::open(&ctx.uri).await.map(|x| x.manifest().version).unwrap_or(d.manifest().version)
                            } else {
                                d.manifest().version
                            };
                            let rem = if mu == "keep-removed" { vec![] } else { vec![old] };
                            let r2 = commit_by_hand(&d, rv, vec![], vec![u], rem).await;
                            let o = res_of(&r2);
                            if let Ok(nd) = r2 {
                                d = nd;
                            }
                            o
                        }
                    }
                }
            } else {
                match k.as_str() {
                    "append" => res_of(&append_mem_wal_entry(&mut d, &r, g, step["eid"].as_u64().unwrap(), &exp).await),
                    "seal" => res_of(&mark_mem_wal_as_sealed(&mut d, &r, g, &exp).await),
                    "flush" => res_of(&mark_mem_wal_as_flushed(&mut d, &r, g, &exp).await),
                    "merge" => res_of(&mark_mem_wal_as_merged(&mut d, &r, g, &exp).await),
                    _ => res_of(&update_mem_wal_owner(&mut d, &r, g, &own, None).await),
                }
            };
            ctx.handles.insert(h.clone(), d);
            out
        }
        "trim" => {
            let mut d = handle!();
            let out = if mu == "trim-removes-flushed" {
                // seeded defect of trim_mem_wal_index: `>= Flushed` instead of `== Merged`
                let (list, _) = raw_list(&d).await.unwrap_or((None, 0));
                match list {
                    None => ("unsupported".to_string(), String::new()),
                    Some(l) => {
                        let rem: Vec<MemWal> = l.into_iter().filter(|m| matches!(m.state, State::Merged | State::Flushed)).collect();
                        let r2 = commit_by_hand(&d, d.manifest().version, vec![], vec![], rem).await;
                        let o = res_of(&r2);
                        if let Ok(nd) = r2 {
                            d = nd;
                        }
                        o
                    }
                }
            } else {
                res_of(&trim_mem_wal_index(&mut d).await)
            };
            ctx.handles.insert(h.clone(), d);
            out
        }
        "mmerge" => {
            let d = Arc::new(handle!());
            let key = 1000 + i as i64;
            let built = async {
                let mut b = MergeInsertBuilder::try_new(d.clone(), vec!["id".to_string()])?;
                b.when_matched(WhenMatched::UpdateAll).when_not_matched(WhenNotMatched::InsertAll).conflict_retries(0);
                b.mark_mem_wal_as_merged(MemWalId::new(&r, g), &exp).await?;
                b.try_build()
            }
            .await;
            match built {
                Err(e) => (classify(&e), err_text(&e)),
                Ok(job) => {
                    let r2 = job.execute_reader(Box::new(reader(&ctx.cols, &[vec![key, key]])) as Box<dyn arrow_array::RecordBatchReader + Send>).await;
                    let out = res_of(&r2);
                    if let Ok((nd, _)) = r2 {
                        ctx.handles.insert(h.clone(), (*nd).clone());
                    }
                    out
                }
            }
        }
        "tappend" => {
            let d = Arc::new(handle!());
            let key = 2000 + i as i64;
            let p = WriteParams { mode: WriteMode::Append, ..Default::default() };
            let r2 = InsertBuilder::new(d).with_params(&p).execute(vec![batch(&ctx.cols, &[vec![key, key]])]).await;
            let out = res_of(&r2);
            if let Ok(nd) = r2 {
                ctx.handles.insert(h.clone(), nd);
            }
            out
        }
        other => (format!("unknown-op:{other}"), String::new()),
    };
    (res, text, extra)
}

fn main() {
    let args = Args::from_env();
    let scn_file = args.get("scenarios").expect("--scenarios");
    let out = args.get("out").expect("--out");
    let scratch = PathBuf::from(args.get_or("scratch", "/verif/work/memwal-scratch"));
    let shard = args.num("shard", 0);
    let nshards = args.num("shards", 1);
    let mutate = args.get_or("mutate", "");
    std::fs::create_dir_all(&scratch).unwrap();
    let rt = tokio::runtime::Builder::new_multi_thread().worker_threads(2).enable_all().build().unwrap();
    let mut w = TraceWriter::create(&out);
    let text = std::fs::read_to_string(&scn_file).unwrap();
    let mut n = 0u64;
    for (li, line) in text.lines().enumerate() {
        if line.trim().is_empty() || (li as u64) % nshards != shard {
            continue;
        }
        let scn: Value = serde_json::from_str(line).unwrap();
        let id = scn["id"].clone();
        let dir = scratch.join(format!("s{}_{}", std::process::id(), li));
        let _ = std::fs::remove_dir_all(&dir);
        let mut ctx = Ctx {
            uri: dir.to_str().unwrap().to_string(),
            cols: vec!["id".into(), "val".into()],
            handles: HashMap::new(),
            mutate: mutate.clone(),
            tag: format!("{}", li),
        };
        w.emit(json!({"ev": "reset", "scn": id}));
        for (i, step) in scn["steps"].as_array().unwrap().iter().enumerate() {
            let fut = std::panic::AssertUnwindSafe(exec_step(&mut ctx, step, i)).catch_unwind();
            let (res, text, extra) = match rt.block_on(fut) {
                Ok(x) => x,
                Err(p) => {
                    let msg = p
                        .downcast_ref::<String>()
                        .cloned()
                        .or_else(|| p.downcast_ref::<&str>().map(|s| s.to_string()))
                        .unwrap_or_default();
                    ("panic".to_string(), msg.chars().take(300).collect(), json!({}))
                }
            };
            let proj = rt.block_on(latest_projection(&ctx));
            let hv: HashMap<String, u64> = ctx.handles.iter().map(|(k, d)| (k.clone(), d.manifest().version)).collect();
            w.emit(json!({"ev": "step", "scn": id, "i": i + 1, "step": step, "res": res, "text": text,
                          "extra": extra, "handles": hv, "latest": proj}));
        }
        let _ = std::fs::remove_dir_all(&dir);
        n += 1;
    }
    let events = w.finish();
    println!("{{\"scenarios\":{n},\"events\":{events}}}");
}
