//! Driver for spec/Namespace.tla (property C36: the namespace catalog behaves as a hierarchical map).
//!
//! Replays TLC-generated histories of catalog calls on a real `DirectoryNamespace` (local scratch
//! directory) in one of the three modes the builder offers:
//!     dir       manifest_enabled(false), dir_listing_enabled(true)
//!     manifest  manifest_enabled(true),  dir_listing_enabled(false)
//!     dual      manifest_enabled(true),  dir_listing_enabled(true)      (the default)
//! and *records* every response (or error class).  After every step the driver probes the catalog:
//! `table_exists` + `describe_table` for every id in `probe.tables`, `namespace_exists` +
//! `describe_namespace` for every id in `probe.ns`, unlimited `list_tables` + `list_namespaces` for
//! every path in `probe.paths`.  Nothing is judged here; spec/Trace_Namespace.tla is the judge.
//!
//! Scenario (one JSON object per line):
//!   {"id": 7, "mode": "manifest", "opt": false, "probe": {"tables": [[..]..], "ns": [[..]..], "paths": [[..]..]},
//!    "steps": [{"op": "create_ns", "id": ["a"]}, {"op": "create_table", "id": ["a", "b"]},
//!              {"op": "register_table", "id": ["c"], "src": ["a", "b"]}, {"op": "list_tables", "id": [], "limit": 1}, ...]}
//! ops: create_ns drop_ns describe_ns ns_exists list_ns create_table create_empty_table drop_table
//!      register_table deregister_table describe_table table_exists list_tables reopen
//!
//! Listing steps follow the paging protocol documented on `ListTablesRequest::page_token`: the first
//! request carries no token; while the response carries a non-empty `page_token`, it is sent back.
//!
//! Events:
//!   {"ev":"reset","scn":..,"mode":..,"opt":..,"build":"ok"|class,"meta":<scenario.meta verbatim>,"obs":{..}}
//!   {"ev":"step","scn":..,"i":k,"step":{..},"res":"ok"|class,"err":"..","out":{..},"obs":{..}}
//!
//! `--mutate <name>` emulates a small change of the catalog code at the call boundary (binding
//! demonstration only; /repo is never edited).
use std::collections::HashMap;
use std::future::Future;
use std::panic::AssertUnwindSafe;
use std::path::PathBuf;
use std::sync::Arc;
use std::time::Duration;

use arrow_array::{Int32Array, RecordBatch};
use arrow_schema::{DataType, Field, Schema};
use bytes::Bytes;
use futures::FutureExt;
use lance_core::Error;
use lance_namespace::models::{
    CreateEmptyTableRequest, CreateNamespaceRequest, CreateTableRequest, DeregisterTableRequest, DescribeNamespaceRequest,
    DescribeTableRequest, DropNamespaceRequest, DropTableRequest, ListNamespacesRequest, ListTablesRequest,
    NamespaceExistsRequest, RegisterTableRequest, TableExistsRequest,
};
use lance_namespace::LanceNamespace;
use lance_namespace_impls::{DirectoryNamespace, DirectoryNamespaceBuilder};
use lance_verif_harness::trace::{Args, TraceWriter};
use serde_json::{json, Value};

fn class_of(e: &Error) -> String {
    match e {
        Error::Namespace { .. } => "namespace".into(),
        Error::InvalidInput { .. } => "invalid".into(),
        Error::NotSupported { .. } => "unsupported".into(),
        Error::IO { .. } => "io".into(),
        Error::DatasetNotFound { .. } | Error::NotFound { .. } => "notfound".into(),
        Error::DatasetAlreadyExists { .. } => "exists".into(),
        Error::Internal { .. } => "internal".into(),
        Error::Arrow { .. } => "arrow".into(),
        Error::Execution { .. } => "execution".into(),
        other => {
            let s = format!("{other:?}");
            format!("error:{}", s.split(|c: char| !c.is_alphanumeric()).next().unwrap_or("other"))
        }
    }
}

/// (class, text)
type Fail = (String, String);

async fn guarded<T, F: Future<Output = lance_core::Result<T>>>(f: F) -> Result<T, Fail> {
    let fut = AssertUnwindSafe(f).catch_unwind();
    match tokio::time::timeout(Duration::from_secs(120), fut).await {
        Err(_) => Err(("timeout".into(), "call did not return within 120 s".into())),
        Ok(Err(p)) => {
            let msg = if let Some(s) = p.downcast_ref::<&str>() {
                s.to_string()
            } else if let Some(s) = p.downcast_ref::<String>() {
                s.clone()
            } else {
                "panic".to_string()
            };
            Err(("panic".into(), msg.chars().take(300).collect()))
        }
        Ok(Ok(Err(e))) => Err((class_of(&e), e.to_string().chars().take(300).collect())),
        Ok(Ok(Ok(v))) => Ok(v),
    }
}

fn ids(v: &Value) -> Vec<String> {
    v.as_array().map(|a| a.iter().map(|x| x.as_str().unwrap_or("").to_string()).collect()).unwrap_or_default()
}

fn ipc_bytes() -> Bytes {
    use arrow::ipc::writer::StreamWriter;
    let schema = Arc::new(Schema::new(vec![Field::new("id", DataType::Int32, false)]));
    let batch = RecordBatch::try_new(schema.clone(), vec![Arc::new(Int32Array::from(vec![1, 2]))]).unwrap();
    let mut buf = Vec::new();
    {
        let mut w = StreamWriter::try_new(&mut buf, &schema).unwrap();
        w.write(&batch).unwrap();
        w.finish().unwrap();
    }
    Bytes::from(buf)
}

struct Ctx {
    root: String,
    root_url: String,
    mode: String,
    opt: bool,
    ns: Option<DirectoryNamespace>,
    mutate: String,
    ipc: Bytes,
    /// last location (relative) learned for a table id from a successful create / deregister
    known_loc: HashMap<String, String>,
}

impl Ctx {
    async fn build(&self) -> Result<DirectoryNamespace, Fail> {
        let (m, d) = match self.mode.as_str() {
            "dir" => (false, true),
            "manifest" => (true, false),
            _ => (true, true),
        };
        let b = DirectoryNamespaceBuilder::new(self.root.clone())
            .manifest_enabled(m)
            .dir_listing_enabled(d)
            .inline_optimization_enabled(self.opt);
        guarded(b.build()).await
    }

    /// location relative to the catalog root ("" when none); locations outside the root keep their text
    fn rel(&self, loc: &str) -> String {
        let l = loc.trim_end_matches('/');
        if let Some(r) = l.strip_prefix(&self.root_url) {
            return r.to_string();
        }
        let plain = format!("{}/", self.root);
        if let Some(r) = l.strip_prefix(&plain) {
            return r.to_string();
        }
        format!("abs:{l}")
    }

    fn ns(&self) -> &DirectoryNamespace {
        self.ns.as_ref().unwrap()
    }

    // ---- single calls (with the emulated mutations at the call boundary) ----

    async fn table_exists(&self, id: &[String]) -> Result<(), Fail> {
        let mut r = TableExistsRequest::new();
        r.id = Some(id.to_vec());
        guarded(self.ns().table_exists(r)).await
    }

    async fn describe_table(&self, id: &[String]) -> Result<(String, i64), Fail> {
        let mut r = DescribeTableRequest::new();
        r.id = Some(id.to_vec());
        let resp = guarded(self.ns().describe_table(r)).await?;
        let mut loc = resp.location.clone().map(|l| self.rel(&l)).unwrap_or_default();
        if self.mutate == "describe-other-location" && !loc.is_empty() {
            loc.push('x');
        }
        Ok((loc, resp.version.unwrap_or(-1)))
    }

    async fn ns_exists(&self, id: &[String]) -> Result<(), Fail> {
        if self.mutate == "ns-exists-always" {
            return Ok(());
        }
        let mut r = NamespaceExistsRequest::new();
        r.id = Some(id.to_vec());
        guarded(self.ns().namespace_exists(r)).await
    }

    async fn describe_ns(&self, id: &[String]) -> Result<(), Fail> {
        let mut r = DescribeNamespaceRequest::new();
        r.id = Some(id.to_vec());
        guarded(self.ns().describe_namespace(r)).await.map(|_| ())
    }

    /// one request of a listing; returns (names, next token)
    async fn list_once(&self, tables: bool, id: &[String], limit: i64, token: Option<String>) -> Result<(Vec<String>, String), Fail> {
        let lim = if limit > 0 { Some(limit as i32) } else { None };
        let (mut names, tok) = if tables {
            let mut r = ListTablesRequest::new();
            r.id = Some(id.to_vec());
            r.limit = lim;
            r.page_token = token;
            let resp = guarded(self.ns().list_tables(r)).await?;
            (resp.tables, resp.page_token.unwrap_or_default())
        } else {
            let mut r = ListNamespacesRequest::new();
            r.id = Some(id.to_vec());
            r.limit = lim;
            r.page_token = token;
            let resp = guarded(self.ns().list_namespaces(r)).await?;
            (resp.namespaces, resp.page_token.unwrap_or_default())
        };
        if self.mutate == "list-drops-last" && tables && names.len() >= 2 {
            names.pop();
        }
        Ok((names, tok))
    }

    /// the documented paging protocol: follow the response's page token until it is absent / empty
    async fn list_paged(&self, tables: bool, id: &[String], limit: i64) -> Result<Value, Fail> {
        let mut pages: Vec<Value> = Vec::new();
        let mut tokens: Vec<String> = Vec::new();
        let mut token: Option<String> = None;
        let mut runaway = false;
        loop {
            let tk = if self.mutate == "page-token-ignored" { None } else { token.clone() };
            let (names, next) = self.list_once(tables, id, limit, tk).await?;
            pages.push(json!(names));
            tokens.push(next.clone());
            if next.is_empty() {
                break;
            }
            if pages.len() >= 12 {
                runaway = true;
                break;
            }
            token = Some(next);
        }
        Ok(json!({"rel": "", "raw": "", "pages": pages, "tokens": tokens, "runaway": runaway}))
    }

    async fn observe(&self, probe: &Value) -> Value {
        if self.ns.is_none() {
            return json!({"t": [], "n": [], "lt": [], "ln": []});
        }
        let mut t = Vec::new();
        for idv in probe["tables"].as_array().cloned().unwrap_or_default() {
            let id = ids(&idv);
            let ex = match self.table_exists(&id).await {
                Ok(()) => "ok".to_string(),
                Err((c, _)) => c,
            };
            let (de, loc, ver) = match self.describe_table(&id).await {
                Ok((loc, ver)) => ("ok".to_string(), loc, ver),
                Err((c, _)) => (c, String::new(), -1),
            };
            t.push(json!({"id": id, "ex": ex, "de": de, "loc": loc, "ver": ver}));
        }
        let mut n = Vec::new();
        for idv in probe["ns"].as_array().cloned().unwrap_or_default() {
            let id = ids(&idv);
            let ex = match self.ns_exists(&id).await {
                Ok(()) => "ok".to_string(),
                Err((c, _)) => c,
            };
            let de = match self.describe_ns(&id).await {
                Ok(()) => "ok".to_string(),
                Err((c, _)) => c,
            };
            n.push(json!({"id": id, "ex": ex, "de": de}));
        }
        let mut lt = Vec::new();
        let mut ln = Vec::new();
        for idv in probe["paths"].as_array().cloned().unwrap_or_default() {
            let id = ids(&idv);
            match self.list_once(true, &id, 0, None).await {
                Ok((names, _)) => lt.push(json!({"id": id, "res": "ok", "names": names})),
                Err((c, _)) => lt.push(json!({"id": id, "res": c, "names": []})),
            }
            match self.list_once(false, &id, 0, None).await {
                Ok((names, _)) => ln.push(json!({"id": id, "res": "ok", "names": names})),
                Err((c, _)) => ln.push(json!({"id": id, "res": c, "names": []})),
            }
        }
        json!({"t": t, "n": n, "lt": lt, "ln": ln})
    }

    async fn exec(&mut self, step: &Value) -> Result<Value, Fail> {
        let op = step["op"].as_str().unwrap_or("");
        let mut id = ids(&step["id"]);
        let key = serde_json::to_string(&id).unwrap();
        let blank = |rel: String, raw: String| json!({"rel": rel, "raw": raw, "pages": [], "tokens": [], "runaway": false});
        if self.mutate == "create-drops-path" && (op == "create_table" || op == "create_empty_table") && id.len() == 2 {
            id = vec![id[1].clone()];
        }
        match op {
            "reopen" => {
                self.ns = None;
                let ns = self.build().await?;
                self.ns = Some(ns);
                Ok(blank(String::new(), String::new()))
            }
            "create_ns" => {
                let mut r = CreateNamespaceRequest::new();
                r.id = Some(id);
                guarded(self.ns().create_namespace(r)).await?;
                Ok(blank(String::new(), String::new()))
            }
            "drop_ns" => {
                let mut r = DropNamespaceRequest::new();
                r.id = Some(id);
                guarded(self.ns().drop_namespace(r)).await?;
                Ok(blank(String::new(), String::new()))
            }
            "describe_ns" => {
                self.describe_ns(&id).await?;
                Ok(blank(String::new(), String::new()))
            }
            "ns_exists" => {
                self.ns_exists(&id).await?;
                Ok(blank(String::new(), String::new()))
            }
            "create_table" => {
                let mut r = CreateTableRequest::new();
                r.id = Some(id);
                let resp = guarded(self.ns().create_table(r, self.ipc.clone())).await?;
                let raw = resp.location.unwrap_or_default();
                let rel = self.rel(&raw);
                self.known_loc.insert(key, rel.clone());
                Ok(blank(rel, raw))
            }
            "create_empty_table" => {
                let mut r = CreateEmptyTableRequest::new();
                r.id = Some(id);
                let resp = guarded(self.ns().create_empty_table(r)).await?;
                let raw = resp.location.unwrap_or_default();
                let rel = self.rel(&raw);
                self.known_loc.insert(key, rel.clone());
                Ok(blank(rel, raw))
            }
            "drop_table" => {
                if self.mutate == "drop-not-applied" {
                    return Ok(blank(String::new(), String::new()));
                }
                let mut r = DropTableRequest::new();
                r.id = Some(id);
                let resp = guarded(self.ns().drop_table(r)).await?;
                let raw = resp.location.unwrap_or_default();
                Ok(blank(self.rel(&raw), raw))
            }
            "register_table" => {
                let src = serde_json::to_string(&ids(&step["src"])).unwrap();
                let loc = self.known_loc.get(&src).cloned().filter(|l| !l.is_empty() && !l.starts_with("abs:"))
                    .unwrap_or_else(|| format!("ext_{}.lance", step["i"].as_i64().unwrap_or(0)));
                let mut r = RegisterTableRequest::new(loc.clone());
                r.id = Some(id);
                let resp = guarded(self.ns().register_table(r)).await?;
                // `rel` = the location that was requested; `raw` = the location echoed by the response
                Ok(blank(loc, resp.location))
            }
            "deregister_table" => {
                let mut r = DeregisterTableRequest::new();
                r.id = Some(id);
                let resp = guarded(self.ns().deregister_table(r)).await?;
                let raw = resp.location.unwrap_or_default();
                let rel = self.rel(&raw);
                self.known_loc.insert(key, rel.clone());
                Ok(blank(rel, raw))
            }
            "describe_table" => {
                let (loc, _) = self.describe_table(&id).await?;
                Ok(blank(loc.clone(), loc))
            }
            "table_exists" => {
                self.table_exists(&id).await?;
                Ok(blank(String::new(), String::new()))
            }
            "list_tables" => self.list_paged(true, &id, step["limit"].as_i64().unwrap_or(0)).await,
            "list_ns" => self.list_paged(false, &id, step["limit"].as_i64().unwrap_or(0)).await,
            other => Err(("harness".into(), format!("unknown op {other}"))),
        }
    }
}

fn main() {
    let args = Args::from_env();
    let scn_file = args.get("scenarios").expect("--scenarios");
    let out = args.get("out").expect("--out");
    let scratch = PathBuf::from(args.get_or("scratch", "/verif/work/namespace-scratch"));
    let shard = args.num("shard", 0);
    let nshards = args.num("shards", 1);
    let mutate = args.get_or("mutate", "");
    let keep = args.flag("keep");
    std::fs::create_dir_all(&scratch).unwrap();
    std::panic::set_hook(Box::new(|_| {})); // panics inside lance are recorded as data, not printed
    let rt = tokio::runtime::Builder::new_multi_thread().worker_threads(2).enable_all().build().unwrap();
    let mut w = TraceWriter::create(&out);
    let text = std::fs::read_to_string(&scn_file).unwrap();
    let ipc = ipc_bytes();
    let mut n = 0u64;
    for (li, line) in text.lines().enumerate() {
        if line.trim().is_empty() || (li as u64) % nshards != shard {
            continue;
        }
        let scn: Value = serde_json::from_str(line).unwrap();
        let sid = scn["id"].clone();
        let dir = scratch.join(format!("s{}_{}", std::process::id(), li));
        let _ = std::fs::remove_dir_all(&dir);
        std::fs::create_dir_all(&dir).unwrap();
        let root = dir.to_str().unwrap().to_string();
        let root_url = lance_io::object_store::uri_to_url(&root).map(|u| u.to_string()).unwrap_or_else(|_| format!("file://{root}/"));
        let mut ctx = Ctx {
            root,
            root_url,
            mode: scn["mode"].as_str().unwrap_or("dual").to_string(),
            opt: scn["opt"].as_bool().unwrap_or(false),
            ns: None,
            mutate: mutate.clone(),
            ipc: ipc.clone(),
            known_loc: HashMap::new(),
        };
        let probe = scn["probe"].clone();
        rt.block_on(async {
            let build = match ctx.build().await {
                Ok(ns) => {
                    ctx.ns = Some(ns);
                    "ok".to_string()
                }
                Err((c, _)) => c,
            };
            let obs = ctx.observe(&probe).await;
            w.emit(json!({"ev": "reset", "scn": sid, "mode": ctx.mode, "opt": ctx.opt, "build": build, "meta": scn["meta"], "obs": obs}));
            if ctx.ns.is_none() {
                return;
            }
            for (k, step) in scn["steps"].as_array().cloned().unwrap_or_default().iter().enumerate() {
                let mut st = step.clone();
                st["i"] = json!(k + 1);
                let (res, err, outv) = match ctx.exec(&st).await {
                    Ok(o) => ("ok".to_string(), String::new(), o),
                    Err((c, t)) => (c, t, json!({"rel": "", "raw": "", "pages": [], "tokens": [], "runaway": false})),
                };
                if ctx.ns.is_none() {
                    // a failed reopen: nothing can be observed any more
                    w.emit(json!({"ev": "step", "scn": sid, "i": k + 1, "step": step, "res": res, "err": err, "out": outv,
                                  "obs": {"t": [], "n": [], "lt": [], "ln": []}}));
                    break;
                }
                let obs = ctx.observe(&probe).await;
                w.emit(json!({"ev": "step", "scn": sid, "i": k + 1, "step": step, "res": res, "err": err, "out": outv, "obs": obs}));
            }
        });
        drop(ctx);
        if !keep {
            let _ = std::fs::remove_dir_all(&dir);
        }
        n += 1;
    }
    let events = w.finish();
    println!("{{\"scenarios\":{n},\"events\":{events}}}");
}
