//! Driver for spec/ManifestNaming.tla (property C33).
//!
//! Enumerates the finite universe of `_versions` directory contents described by the spec
//! constants (entry kinds x embedded versions), builds each directory on
//!   * `lex`   : `object_store::memory::InMemory` (lexically ordered listing, as `memory://`),
//!   * `unord` : the same store behind `OrderedStore`, whose `list` returns the entries in the
//!               order the scenario dictates (`list_is_lexically_ordered = false`, e.g. S3 Express),
//!   * `local` : a real directory under /verif/work/naming-* (`current_manifest_local` fast path),
//! and calls the real `ManifestNamingScheme::*`, `CommitHandler::resolve_latest_location`,
//! `CommitHandler::list_manifest_locations` and `migrate_scheme_to_v2`.
//! It records one event per call and never judges: Trace_ManifestNaming.tla is the judge.
use std::collections::HashMap;
use std::panic::AssertUnwindSafe;
use std::sync::{Arc, Mutex};

use async_trait::async_trait;
use futures::stream::BoxStream;
use futures::{FutureExt, StreamExt, TryStreamExt};
use lance_io::object_store::ObjectStore;
use lance_table::io::commit::{
    migrate_scheme_to_v2, CommitHandler, ConditionalPutCommitHandler, ManifestLocation,
    ManifestNamingScheme,
};
use lance_verif_harness::trace::{catch, Args, TraceWriter};
use object_store::memory::InMemory;
use object_store::path::Path;
use object_store::{
    GetOptions, GetResult, ListResult, MultipartUpload, ObjectMeta, ObjectStore as OS,
    PutMultipartOptions, PutOptions, PutPayload, PutResult,
};
use serde_json::{json, Value};
use url::Url;

// (the table-level part can be compiled out for scratch builds that only link lance-table)
#[cfg(not(c33_no_e2e))]
use arrow_array::{Int32Array, RecordBatch, RecordBatchIterator};
#[cfg(not(c33_no_e2e))]
use arrow_schema::{DataType, Field, Schema};
#[cfg(not(c33_no_e2e))]
use lance::dataset::{CommitBuilder, InsertBuilder, WriteMode, WriteParams};
#[cfg(not(c33_no_e2e))]
use lance::Dataset;

// ---------------------------------------------------------------------------------------------
// A store that lists in the order the scenario dictates.
#[derive(Debug)]
struct OrderedStore {
    inner: Arc<InMemory>,
    /// file names in listing order; names not mentioned come last in the inner store's order
    order: Mutex<Vec<String>>,
}
impl std::fmt::Display for OrderedStore {
    fn fmt(&self, f: &mut std::fmt::Formatter<'_>) -> std::fmt::Result {
        write!(f, "OrderedStore")
    }
}
#[async_trait]
impl OS for OrderedStore {
    async fn put_opts(
        &self,
        location: &Path,
        payload: PutPayload,
        opts: PutOptions,
    ) -> object_store::Result<PutResult> {
        self.inner.put_opts(location, payload, opts).await
    }
    async fn put_multipart_opts(
        &self,
        location: &Path,
        opts: PutMultipartOptions,
    ) -> object_store::Result<Box<dyn MultipartUpload>> {
        self.inner.put_multipart_opts(location, opts).await
    }
    async fn get_opts(&self, location: &Path, options: GetOptions) -> object_store::Result<GetResult> {
        self.inner.get_opts(location, options).await
    }
    async fn delete(&self, location: &Path) -> object_store::Result<()> {
        self.inner.delete(location).await
    }
    fn list(&self, prefix: Option<&Path>) -> BoxStream<'static, object_store::Result<ObjectMeta>> {
        // InMemory::list is an already materialised stream
        let mut metas: Vec<ObjectMeta> = self
            .inner
            .list(prefix)
            .try_collect::<Vec<_>>()
            .now_or_never()
            .expect("InMemory list is ready")
            .expect("InMemory list");
        let order = self.order.lock().unwrap().clone();
        let pos = |m: &ObjectMeta| {
            let name = m.location.filename().unwrap_or("");
            order.iter().position(|n| n == name).unwrap_or(usize::MAX)
        };
        metas.sort_by_key(|m| pos(m)); // stable: unknown names keep the inner order, last
        futures::stream::iter(metas.into_iter().map(Ok)).boxed()
    }
    async fn list_with_delimiter(&self, prefix: Option<&Path>) -> object_store::Result<ListResult> {
        self.inner.list_with_delimiter(prefix).await
    }
    async fn copy(&self, from: &Path, to: &Path) -> object_store::Result<()> {
        self.inner.copy(from, to).await
    }
    async fn copy_if_not_exists(&self, from: &Path, to: &Path) -> object_store::Result<()> {
        self.inner.copy_if_not_exists(from, to).await
    }
}

// ---------------------------------------------------------------------------------------------
// universe

#[derive(Clone, Debug)]
struct Entry {
    kind: &'static str,
    i: usize, // 1-based index into the embedding (junk: which junk name)
    name: String,
}

fn embedding(name: &str) -> (Vec<u64>, Vec<u64>) {
    const P32: u64 = 1 << 32;
    const P63: u64 = 1 << 63;
    match name {
        "low" => (vec![0, 1, 2], vec![P63, P63 + 1]),
        "dec" => (vec![9, 10, 11], vec![P63 + 9, 10_000_000_000_000_000_000]),
        "mid" => (vec![P32 - 1, P32, P32 + 1], vec![P63 + P32, u64::MAX - 1]),
        "top" => (vec![P63 - 3, P63 - 2, P63 - 1], vec![P63, u64::MAX]),
        "wide" => (vec![1, P32, P63 - 1], vec![P63, u64::MAX]),
        _ => panic!("unknown embedding {name}"),
    }
}

/// versions used for the operator probes (format / parse / detect / order)
fn probe_versions() -> Vec<u64> {
    const P32: u64 = 1 << 32;
    const P63: u64 = 1 << 63;
    let mut v = vec![
        0,
        1,
        2,
        9,
        10,
        11,
        99,
        100,
        P32 - 1,
        P32,
        P32 + 1,
        999_999_999_999_999_999,
        1_000_000_000_000_000_000,
        P63 - 3,
        P63 - 2,
        P63 - 1,
        P63,
        P63 + 1,
        P63 + 9,
        P63 + P32,
        9_999_999_999_999_999_999,
        10_000_000_000_000_000_000,
        u64::MAX - 1,
        u64::MAX,
    ];
    v.sort();
    v.dedup();
    v
}

fn digits(v: u64) -> Value {
    json!(v.to_string().bytes().map(|b| (b - b'0') as i64).collect::<Vec<_>>())
}
fn chars(s: &str) -> Value {
    json!(s.chars().map(|c| c.to_string()).collect::<Vec<_>>())
}
fn scheme_name(s: ManifestNamingScheme) -> &'static str {
    match s {
        ManifestNamingScheme::V1 => "V1",
        ManifestNamingScheme::V2 => "V2",
    }
}

struct Rng(u64);
impl Rng {
    fn next(&mut self) -> u64 {
        // splitmix64
        self.0 = self.0.wrapping_add(0x9E3779B97F4A7C15);
        let mut z = self.0;
        z = (z ^ (z >> 30)).wrapping_mul(0xBF58476D1CE4E5B9);
        z = (z ^ (z >> 27)).wrapping_mul(0x94D049BB133111EB);
        z ^ (z >> 31)
    }
    fn uuid(&mut self) -> String {
        let x = ((self.next() as u128) << 64) | self.next() as u128;
        uuid::Builder::from_random_bytes(x.to_be_bytes())
            .into_uuid()
            .hyphenated()
            .to_string()
    }
}

struct Universe {
    emb: Vec<u64>, // attached then detached
    na: usize,
    nd: usize,
    entries: Vec<Entry>, // eid = index + 1
    by_name: HashMap<String, usize>,
}

fn fname(scheme: ManifestNamingScheme, base: &Path, v: u64) -> String {
    scheme.manifest_path(base, v).filename().unwrap().to_string()
}

impl Universe {
    fn build(embname: &str, rng: &mut Rng) -> Self {
        let (att, det) = embedding(embname);
        let (na, nd) = (att.len(), det.len());
        let mut emb = att.clone();
        emb.extend(det.iter());
        let base = Path::from("base");
        let v1 = ManifestNamingScheme::V1;
        let v2 = ManifestNamingScheme::V2;
        let mut entries = vec![];
        for i in 1..=na {
            entries.push(Entry { kind: "v1", i, name: fname(v1, &base, emb[i - 1]) });
        }
        for i in 1..=na {
            entries.push(Entry { kind: "v2", i, name: fname(v2, &base, emb[i - 1]) });
        }
        for i in na + 1..=na + nd {
            entries.push(Entry { kind: "det", i, name: fname(v2, &base, emb[i - 1]) });
        }
        // staging names as made by make_staging_manifest_path: "<final>-<uuid>"
        for i in [1, na] {
            entries.push(Entry { kind: "stg1", i, name: format!("{}-{}", fname(v1, &base, emb[i - 1]), rng.uuid()) });
        }
        for i in [1, na] {
            entries.push(Entry { kind: "stg2", i, name: format!("{}-{}", fname(v2, &base, emb[i - 1]), rng.uuid()) });
        }
        entries.push(Entry { kind: "stgd", i: na + 1, name: format!("{}-{}", fname(v2, &base, emb[na]), rng.uuid()) });
        // temporary file as named in current_manifest_local's comment
        entries.push(Entry { kind: "tmp", i: na, name: format!(".tmp_{}_{}", fname(v1, &base, emb[na - 1]), rng.uuid()) });
        entries.push(Entry { kind: "junk", i: 1, name: "irrelevant".into() });
        entries.push(Entry { kind: "junk", i: 2, name: "foo.manifest".into() });
        entries.push(Entry { kind: "junk", i: 3, name: "draft.txt".into() });
        // multipart leftover of LocalFileSystem ("<dest>#<n>"): cannot exist on an object store
        entries.push(Entry { kind: "mp", i: na, name: format!("{}#1", fname(v2, &base, emb[na - 1])) });
        let by_name = entries.iter().enumerate().map(|(k, e)| (e.name.clone(), k + 1)).collect();
        Self { emb, na, nd, entries, by_name }
    }
    fn vidx(&self, v: u64) -> i64 {
        self.emb.iter().position(|x| *x == v).map(|p| p as i64 + 1).unwrap_or(-2)
    }
    fn eid_of(&self, name: &str) -> i64 {
        self.by_name.get(name).map(|e| *e as i64).unwrap_or(0)
    }
    fn name(&self, eid: usize) -> &str {
        &self.entries[eid - 1].name
    }
}

// ---------------------------------------------------------------------------------------------
// panics are data

static LAST_PANIC_LOC: Mutex<String> = Mutex::new(String::new());

fn short(msg: &str) -> String {
    let m: String = msg.chars().take(160).collect();
    m.replace('\n', " ")
}

struct Ctx {
    rt: tokio::runtime::Runtime,
}
impl Ctx {
    fn new() -> Self {
        Self { rt: tokio::runtime::Builder::new_current_thread().build().unwrap() }
    }
    /// run a future of lance code; a panic becomes Err(message @ location)
    fn run<T>(&mut self, fut: impl std::future::Future<Output = T>) -> Result<T, String> {
        let rt = &self.rt;
        let r = catch(AssertUnwindSafe(|| rt.block_on(fut)));
        match r {
            Ok(v) => Ok(v),
            Err(msg) => {
                let loc = LAST_PANIC_LOC.lock().unwrap().clone();
                // fresh runtime after an unwinding block_on
                self.rt = tokio::runtime::Builder::new_current_thread().build().unwrap();
                Err(format!("{} @ {}", short(&msg), loc))
            }
        }
    }
}

fn out_of(u: &Universe, r: Result<lance_core::Result<ManifestLocation>, String>) -> Value {
    match r {
        Err(p) => json!(["panic", 0, 0, p, 0]),
        Ok(Ok(loc)) => {
            let name = loc.path.filename().unwrap_or("").to_string();
            json!([
                "ok",
                u.vidx(loc.version),
                u.eid_of(&name),
                scheme_name(loc.naming_scheme),
                loc.size.map(|s| s as i64).unwrap_or(-1),
                loc.version.to_string()
            ])
        }
        Ok(Err(lance_core::Error::NotFound { .. })) => json!(["notfound", 0, 0, "none", 0]),
        Ok(Err(e)) => json!(["err", 0, 0, short(&e.to_string()), 0]),
    }
}

fn list_out(u: &Universe, r: Result<lance_core::Result<Vec<ManifestLocation>>, String>) -> (Value, Value) {
    match r {
        Err(p) => (json!(["panic", p]), json!([])),
        Ok(Err(e)) => (json!(["err", short(&e.to_string())]), json!([])),
        Ok(Ok(v)) => (
            json!(["ok", ""]),
            json!(v
                .iter()
                .map(|l| json!([
                    u.vidx(l.version),
                    u.eid_of(l.path.filename().unwrap_or("")),
                    scheme_name(l.naming_scheme)
                ]))
                .collect::<Vec<_>>()),
        ),
    }
}

// ---------------------------------------------------------------------------------------------

fn combos(n_items: &[usize], k: usize, f: &mut dyn FnMut(&[usize])) {
    fn rec(items: &[usize], k: usize, start: usize, cur: &mut Vec<usize>, f: &mut dyn FnMut(&[usize])) {
        if cur.len() == k {
            f(cur);
            return;
        }
        for j in start..items.len() {
            cur.push(items[j]);
            rec(items, k, j + 1, cur, f);
            cur.pop();
        }
    }
    rec(n_items, k, 0, &mut vec![], f);
}

fn permutations(xs: &[usize]) -> Vec<Vec<usize>> {
    if xs.len() <= 1 {
        return vec![xs.to_vec()];
    }
    let mut out = vec![];
    for i in 0..xs.len() {
        let mut rest = xs.to_vec();
        let h = rest.remove(i);
        for mut p in permutations(&rest) {
            p.insert(0, h);
            out.push(p);
        }
    }
    out
}

struct Driver {
    u: Universe,
    w: TraceWriter,
    ctx: Ctx,
    handler: ConditionalPutCommitHandler,
    stores: Vec<String>,
    scratch: String,
    dir_counter: u64,
    mutate: String,
}

impl Driver {
    fn versions_dir(base: &Path) -> Path {
        base.child("_versions")
    }

    fn fill(&mut self, mem: &Arc<InMemory>, base: &Path, subset: &[usize]) {
        let dir = Self::versions_dir(base);
        for &e in subset {
            let p = Path::parse(format!("{}/{}", dir, self.u.name(e))).unwrap();
            let content = vec![b'x'; e];
            let mem = mem.clone();
            self.ctx
                .run(async move { mem.put(&p, content.into()).await.unwrap() })
                .unwrap();
        }
    }

    fn listing_eids(&mut self, store: Arc<dyn OS>, base: &Path) -> Vec<i64> {
        let dir = Self::versions_dir(base);
        let metas = self
            .ctx
            .run(async move { store.list(Some(&dir)).try_collect::<Vec<_>>().await.unwrap() })
            .unwrap();
        metas.iter().map(|m| self.u.eid_of(m.location.filename().unwrap_or(""))).collect()
    }

    fn resolve(&mut self, os: &ObjectStore, base: &Path) -> Value {
        let h = &self.handler;
        let r = self.ctx.run(async { h.resolve_latest_location(base, os).await });
        let mut out = out_of(&self.u, r);
        self.apply_mutation_resolve(&mut out);
        out
    }

    /// `--mutate`: emulated defects, applied to the *recorded result* (binding demonstration only)
    fn apply_mutation_resolve(&self, out: &mut Value) {
        match self.mutate.as_str() {
            // report the second highest version instead of the highest
            "off-by-one" => {
                if out[0] == "ok" && out[1].as_i64().unwrap_or(0) > 1 {
                    out[1] = json!(out[1].as_i64().unwrap() - 1);
                }
            }
            // right version, wrong naming scheme reported
            "flip-scheme" => {
                if out[0] == "ok" {
                    out[3] = json!(if out[3] == "V1" { "V2" } else { "V1" });
                }
            }
            _ => {}
        }
    }

    fn list_locations(&mut self, os: &ObjectStore, base: &Path, sorted: bool) -> (Value, Value) {
        let h = &self.handler;
        let r = self
            .ctx
            .run(async { h.list_manifest_locations(base, os, sorted).try_collect::<Vec<_>>().await });
        list_out(&self.u, r)
    }

    fn lex_store(mem: Arc<InMemory>) -> ObjectStore {
        ObjectStore::new(mem, Url::parse("memory:///").unwrap(), None, None, false, true, 8, 3, None)
    }
    fn unord_store(st: Arc<OrderedStore>) -> ObjectStore {
        // a remote store whose listing is not lexically ordered (as S3 Express One Zone)
        ObjectStore::new(st, Url::parse("s3express:///").unwrap(), None, None, false, false, 8, 3, None)
    }

    fn run_subset(&mut self, subset: &[usize]) {
        let has_mp = subset.iter().any(|e| self.u.entries[*e - 1].kind == "mp");
        let base = Path::from("base");
        let sub_json = json!(subset);
        if !has_mp && self.stores.iter().any(|s| s == "lex") {
            let mem = Arc::new(InMemory::new());
            self.fill(&mem, &base, subset);
            let os = Self::lex_store(mem.clone());
            let listing = self.listing_eids(mem.clone(), &base);
            let out = self.resolve(&os, &base);
            self.w.emit(json!(["resolve", "lex", listing, out]));
            for sorted in [true, false] {
                let (k, items) = self.list_locations(&os, &base, sorted);
                self.w.emit(json!(["list", "lex", sorted, listing, k, items]));
            }
            // migration (consumes this directory)
            let r = self.ctx.run(async { migrate_scheme_to_v2(&os, &base).await });
            let after = {
                let mut a = self.listing_eids(mem.clone(), &base);
                a.sort();
                a
            };
            let res = match r {
                Err(p) => json!(["panic", p]),
                Ok(Err(e)) => json!(["err", short(&e.to_string())]),
                Ok(Ok(())) => json!(["ok", ""]),
            };
            self.w.emit(json!(["migrate", "lex", sub_json, res, after]));
        }
        if !has_mp && self.stores.iter().any(|s| s == "unord") {
            let mem = Arc::new(InMemory::new());
            self.fill(&mem, &base, subset);
            let st = Arc::new(OrderedStore { inner: mem.clone(), order: Mutex::new(vec![]) });
            let os = Self::unord_store(st.clone());
            for perm in permutations(subset) {
                *st.order.lock().unwrap() = perm.iter().map(|e| self.u.name(*e).to_string()).collect();
                let listing = self.listing_eids(st.clone(), &base);
                let out = self.resolve(&os, &base);
                self.w.emit(json!(["resolve", "unord", listing, out]));
                let (k, items) = self.list_locations(&os, &base, true);
                self.w.emit(json!(["list", "unord", true, listing, k, items]));
            }
        }
        if self.stores.iter().any(|s| s == "local") {
            self.dir_counter += 1;
            let root = format!("{}/d{}", self.scratch, self.dir_counter);
            let vdir = format!("{root}/_versions");
            if !subset.is_empty() {
                std::fs::create_dir_all(&vdir).unwrap();
            } else {
                std::fs::create_dir_all(&root).unwrap();
            }
            // creation order = a rotation of the subset (varies the readdir order a little)
            let rot = (self.dir_counter as usize) % subset.len().max(1);
            for k in 0..subset.len() {
                let e = subset[(k + rot) % subset.len()];
                std::fs::write(format!("{vdir}/{}", self.u.name(e)), vec![b'x'; e]).unwrap();
            }
            let os = ObjectStore::local();
            let base = Path::from_absolute_path(&root).unwrap();
            let out = self.resolve(&os, &base);
            self.w.emit(json!(["resolve", "local", sub_json, out]));
            for sorted in [true, false] {
                let (k, items) = self.list_locations(&os, &base, sorted);
                self.w.emit(json!(["list", "local", sorted, sub_json, k, items]));
            }
            let r = self.ctx.run(async { migrate_scheme_to_v2(&os, &base).await });
            let mut after: Vec<i64> = match std::fs::read_dir(&vdir) {
                Ok(rd) => rd
                    .map(|d| self.u.eid_of(&d.unwrap().file_name().to_string_lossy()))
                    .collect(),
                Err(_) => vec![],
            };
            after.sort();
            let res = match r {
                Err(p) => json!(["panic", p]),
                Ok(Err(e)) => json!(["err", short(&e.to_string())]),
                Ok(Ok(())) => json!(["ok", ""]),
            };
            self.w.emit(json!(["migrate", "local", sub_json, res, after]));
            let _ = std::fs::remove_dir_all(&root);
        }
    }

    fn probes(&mut self) {
        let base = Path::from("base");
        let schemes = [ManifestNamingScheme::V1, ManifestNamingScheme::V2];
        let pv = probe_versions();
        let mut names: Vec<String> = vec![];
        for &v in &pv {
            for s in schemes {
                let r = catch(AssertUnwindSafe(|| s.manifest_path(&base, v)));
                match r {
                    Ok(p) => {
                        let name = p.filename().unwrap().to_string();
                        let dir = p.as_ref()[..p.as_ref().len() - name.len()].trim_end_matches('/').to_string();
                        self.w.emit(json!(["fmt", scheme_name(s), digits(v), dir, chars(&name)]));
                        names.push(format!("{name}-3f2504e0-4f89-41d3-9a0c-0305e82c3301"));
                        names.push(name);
                    }
                    Err(m) => self.w.emit(json!(["fmt", scheme_name(s), digits(v), "panic", chars(&short(&m))])),
                }
            }
        }
        names.extend(self.u.entries.iter().map(|e| e.name.clone()));
        // a few more hand-made names (judged weakly: only "no panic")
        for n in ["", ".", "manifest", ".manifest", "7", "7.", "7.manifest.bak", "07.manifest",
                  "00000000000000000007.manifest", "18446744073709551616.manifest", "d.manifest", "d7.manifest"] {
            names.push(n.to_string());
        }
        names.sort();
        names.dedup();
        for n in &names {
            for s in schemes {
                let r = catch(AssertUnwindSafe(|| s.parse_version(n)));
                let res = match r {
                    Ok(Some(v)) => digits(v),
                    Ok(None) => json!([-1]),
                    Err(_) => json!([-9]),
                };
                self.w.emit(json!(["parse", scheme_name(s), chars(n), res]));
            }
            let r = catch(AssertUnwindSafe(|| ManifestNamingScheme::detect_scheme(n)));
            let res = match r {
                Ok(Some(s)) => scheme_name(s),
                Ok(None) => "none",
                Err(_) => "panic",
            };
            self.w.emit(json!(["detect", chars(n), res]));
            let r = catch(AssertUnwindSafe(|| ManifestNamingScheme::detect_scheme_staging(n)));
            let res = match r {
                Ok(s) => scheme_name(s),
                Err(_) => "panic",
            };
            self.w.emit(json!(["detect_stg", chars(n), res]));
        }
        // order of manifest paths (object_store::path::Path ordering = listing order of object stores)
        for s in schemes {
            for &a in &pv {
                for &b in &pv {
                    let (pa, pb) = (s.manifest_path(&base, a), s.manifest_path(&base, b));
                    let o = match pa.cmp(&pb) {
                        std::cmp::Ordering::Less => -1,
                        std::cmp::Ordering::Equal => 0,
                        std::cmp::Ordering::Greater => 1,
                    };
                    self.w.emit(json!(["cmp", scheme_name(s), digits(a), digits(b), o]));
                }
            }
        }
    }
}

// ---------------------------------------------------------------------------------------------
// The same question through the public table API: after k commits, which version does a fresh
// open see?  (small real version numbers; `store` is a URI scheme of lance's default registry)
#[cfg(c33_no_e2e)]
fn e2e(_d: &mut Driver) {}
#[cfg(not(c33_no_e2e))]
fn e2e(d: &mut Driver) {
    let schema = Arc::new(Schema::new(vec![Field::new("x", DataType::Int32, false)]));
    let batch = |k: i32| RecordBatch::try_new(schema.clone(), vec![Arc::new(Int32Array::from(vec![k]))]).unwrap();
    let mut n = 0;
    for (store, lexical) in [("memory", true), ("file-object-store", false), ("file", false)] {
        for v2 in [false, true] {
            n += 1;
            let root = format!("{}/e2e{}", d.scratch, n);
            std::fs::create_dir_all(&root).unwrap();
            let uri = match store {
                "memory" => format!("memory://c33-e2e-{}-{}/ds", std::process::id(), n),
                "file" => format!("{root}/ds"),
                _ => format!("{store}://{root}/ds"),
            };
            let scheme = if v2 { "V2" } else { "V1" };
            // memory:// stores are per-registry: keep one session-wide handle alive through a
            // shared registry by always going through the dataset handle we already have
            let mut handle: Option<Dataset> = None;
            for k in 1..=3i32 {
                let params = WriteParams {
                    mode: if k == 1 { WriteMode::Create } else { WriteMode::Append },
                    enable_v2_manifest_paths: v2,
                    ..Default::default()
                };
                let b = batch(k);
                let sch = schema.clone();
                let uri2 = uri.clone();
                let prev = handle.clone();
                let w = d.ctx.run(async move {
                    match prev {
                        None => {
                            let rd = RecordBatchIterator::new(vec![Ok(b)], sch);
                            Dataset::write(rd, &uri2, Some(params)).await
                        }
                        Some(ds) => InsertBuilder::new(Arc::new(ds)).with_params(&params).execute(vec![b]).await,
                    }
                });
                let wres = match &w {
                    Err(p) => json!(["panic", p]),
                    Ok(Err(e)) => json!(["err", short(&e.to_string())]),
                    Ok(Ok(ds)) => json!(["ok", ds.version().version]),
                };
                if let Ok(Ok(ds)) = w {
                    handle = Some(ds);
                }
                d.w.emit(json!(["e2e_commit", store, lexical, scheme, k, wres]));
                // a fresh look at the table: which version is the latest?
                let latest = match handle.clone() {
                    None => json!(["err", "no handle"]),
                    Some(mut ds) => {
                        let r = d.ctx.run(async move { ds.checkout_latest().await.map(|_| ds.version().version) });
                        match r {
                            Err(p) => json!(["panic", p]),
                            Ok(Err(e)) => json!(["err", short(&e.to_string())]),
                            Ok(Ok(v)) => json!(["ok", v]),
                        }
                    }
                };
                d.w.emit(json!(["e2e_latest", store, lexical, scheme, k, 0, latest]));
            }
            // a detached commit (V2 only) must not change what "latest" means
            if v2 {
                if let Some(ds) = handle.clone() {
                    let b = batch(99);
                    let ds2 = ds.clone();
                    let r = d.ctx.run(async move {
                        let ds = Arc::new(ds2);
                        let tx = InsertBuilder::new(ds.clone())
                            .with_params(&WriteParams { mode: WriteMode::Append, ..Default::default() })
                            .execute_uncommitted(vec![b])
                            .await?;
                        CommitBuilder::new(ds).with_detached(true).execute(tx).await
                    });
                    let (dres, detached) = match r {
                        Err(p) => (json!(["panic", p]), 0),
                        Ok(Err(e)) => (json!(["err", short(&e.to_string())]), 0),
                        Ok(Ok(dd)) => (json!(["ok", (dd.version().version >> 63) as i64]), 1),
                    };
                    d.w.emit(json!(["e2e_detached", store, lexical, scheme, dres]));
                    let mut ds3 = ds.clone();
                    let r = d.ctx.run(async move { ds3.checkout_latest().await.map(|_| ds3.version().version) });
                    let latest = match r {
                        Err(p) => json!(["panic", p]),
                        Ok(Err(e)) => json!(["err", short(&e.to_string())]),
                        Ok(Ok(v)) => json!(["ok", v]),
                    };
                    d.w.emit(json!(["e2e_latest", store, lexical, scheme, 3, detached, latest]));
                }
            }
        }
    }
}

fn main() {
    let args = Args::from_env();
    let out = args.get("out").expect("--out");
    let embname = args.get_or("embed", "low");
    let k = args.num("max-entries", 3) as usize;
    let big_k = args.num("big-max-entries", k as u64) as usize;
    let big_kinds: Vec<String> = args
        .get_or("big-kinds", "v2,det,stg2,stgd,tmp,mp")
        .split(',')
        .map(|s| s.to_string())
        .collect();
    let stores: Vec<String> = args.get_or("stores", "lex,unord,local").split(',').map(|s| s.to_string()).collect();
    let shard = args.num("shard", 0) as usize;
    let nshards = args.num("nshards", 1) as usize;
    let seed = args.num("seed", 0);
    let mutate = args.get_or("mutate", "");
    let scratch = format!("/verif/work/naming-{}-{}-{}", std::process::id(), embname, shard);
    let _ = std::fs::remove_dir_all(&scratch);
    std::fs::create_dir_all(&scratch).unwrap();

    std::panic::set_hook(Box::new(|info| {
        let loc = info
            .location()
            .map(|l| {
                let f = l.file();
                let f = f.rsplit("/rust/").next().unwrap_or(f);
                format!("{}:{}", f, l.line())
            })
            .unwrap_or_default();
        *LAST_PANIC_LOC.lock().unwrap() = loc;
    }));

    let mut rng = Rng(seed.wrapping_mul(0x2545F4914F6CDD1D) ^ 0xC33);
    let u = Universe::build(&embname, &mut rng);
    let mut d = Driver {
        u,
        w: TraceWriter::create(&out),
        ctx: Ctx::new(),
        handler: ConditionalPutCommitHandler,
        stores,
        scratch: scratch.clone(),
        dir_counter: 0,
        mutate,
    };
    d.w.emit(json!([
        "univ",
        embname,
        d.u.na,
        d.u.nd,
        d.u.emb.iter().map(|v| digits(*v)).collect::<Vec<_>>(),
        d.u.entries.iter().map(|e| json!([e.kind, e.i])).collect::<Vec<_>>()
    ]));
    for (k, e) in d.u.entries.clone().iter().enumerate() {
        d.w.emit(json!(["entry", k + 1, chars(&e.name)]));
    }
    if shard == 0 && !args.flag("no-probes") {
        d.probes();
        e2e(&mut d);
    }
    let n = d.u.entries.len();
    let all: Vec<usize> = (1..=n).collect();
    let big: Vec<usize> = all
        .iter()
        .copied()
        .filter(|e| big_kinds.iter().any(|kd| kd == d.u.entries[*e - 1].kind))
        .collect();
    let mut idx = 0usize;
    let mut subsets: Vec<Vec<usize>> = vec![];
    for size in 0..=k {
        combos(&all, size, &mut |s| subsets.push(s.to_vec()));
    }
    for size in k + 1..=big_k {
        combos(&big, size, &mut |s| subsets.push(s.to_vec()));
    }
    for s in subsets {
        if idx % nshards == shard {
            d.run_subset(&s);
        }
        idx += 1;
    }
    let total = d.w.finish();
    let _ = std::fs::remove_dir_all(&scratch);
    println!("{{\"events\":{total},\"subsets\":{idx}}}");
}
