//! Driver for spec/ObjectWriter.tla (property C31).
//!
//! Replays TLC-generated scenarios (write sizes, part-upload resolutions, faults,
//! shutdown / abort / drop) on the real `lance_io::object_writer::ObjectWriter` over a mock
//! `object_store::ObjectStore` + `MultipartUpload` with scripted outcomes, and records after
//! every step: the store calls that happened (with the payload described as segments of the
//! written byte stream), the result of the API call (ok / pending / error class) and the
//! destination listing.  It never judges: Trace_ObjectWriter.tla does.
//!
//! The API future is polled by hand with a flag waker and only when it has been woken, so a
//! lost wake-up shows up as a call that stays pending.  put_part futures are gated (resolved by
//! "done" steps); put_multipart / put / complete / abort resolve immediately.
//!
//! `--mutate <name>` runs the same scenarios on a scratch copy of ObjectWriter (module
//! `mutant`, transcribed from rust/lance-io/src/object_writer.rs) with one seeded mutation;
//! `--mutate none` runs the unmutated copy (sanity check of the copy itself).
use std::collections::HashMap;
use std::fmt;
use std::future::Future;
use std::pin::Pin;
use std::sync::atomic::{AtomicBool, AtomicU64, Ordering};
use std::sync::{Arc, Mutex};
use std::task::{Context, Poll, Wake, Waker};

use async_trait::async_trait;
use bytes::Bytes;
use futures::stream::BoxStream;
use lance_io::object_store::ObjectStore as LanceObjectStore;
use lance_io::object_writer::ObjectWriter;
use lance_verif_harness::trace::{Args, TraceWriter};
use object_store::path::Path;
use object_store::{
    Error as OSError, GetOptions, GetResult, ListResult, MultipartUpload, ObjectMeta,
    ObjectStore, PutMultipartOptions, PutOptions, PutPayload, PutResult, Result as OSResult,
    UploadPart,
};
use serde_json::{json, Value};
use tokio::io::AsyncWriteExt;
use tokio::sync::oneshot;

const DEFAULT_PART: usize = 5 * 1024 * 1024;
const PAT_LEN: usize = 16 * 1024 * 1024;

// ------------------------------------------------------------------------------------------
// self-describing byte pattern: the 4-byte word at stream offset 4w is w * 2654435761 mod 2^32 (LE);
// the multiplication is a bijection, so a word identifies its offset

fn make_pattern() -> Vec<u8> {
    let mut v = Vec::with_capacity(PAT_LEN);
    for w in 0..(PAT_LEN / 4) as u32 {
        v.extend_from_slice(&w.wrapping_mul(2654435761).to_le_bytes());
    }
    v
}

fn common_prefix(a: &[u8], b: &[u8]) -> usize {
    let n = a.len().min(b.len());
    let mut i = 0;
    while i + 4096 <= n && a[i..i + 4096] == b[i..i + 4096] {
        i += 4096;
    }
    while i < n && a[i] == b[i] {
        i += 1;
    }
    i
}

/// Describe `data` as segments [start, len] of the pattern ([-1, len] = bytes that are not
/// a piece of the pattern).  Maximal segments, adjacent contiguous segments merge by construction.
fn describe(pat: &[u8], chunks: &[Bytes], hint: usize) -> Vec<[i64; 2]> {
    let mut data: Vec<u8>;
    let d: &[u8] = if chunks.len() == 1 {
        &chunks[0]
    } else {
        data = Vec::with_capacity(chunks.iter().map(|c| c.len()).sum());
        for c in chunks {
            data.extend_from_slice(c);
        }
        &data
    };
    let n = d.len();
    let mut segs: Vec<[i64; 2]> = Vec::new();
    let mut p = 0usize;
    // `hint` only disambiguates payloads too short to identify themselves (a few bytes)
    let mut expect_next: Option<usize> = Some(hint);
    while p < n {
        let mut cand: Option<usize> = None;
        let probe = (n - p).min(16);
        let mut tries: Vec<usize> = Vec::new();
        if let Some(e) = expect_next {
            tries.push(e);
        }
        tries.push(p);
        tries.push(0);
        for a in 0..4usize {
            let q = p + a;
            if q + 4 <= n {
                let w = u32::from_le_bytes([d[q], d[q + 1], d[q + 2], d[q + 3]]).wrapping_mul(244002641);
                let sq = (w as usize).wrapping_mul(4);
                if sq >= a {
                    tries.push(sq - a);
                }
            }
        }
        for s in tries {
            if s + probe <= pat.len() && d[p..p + probe] == pat[s..s + probe] {
                cand = Some(s);
                break;
            }
        }
        match cand {
            Some(s) => {
                let len = common_prefix(&d[p..], &pat[s..]);
                let merged = match segs.last_mut() {
                    Some(last) if last[0] >= 0 && (last[0] + last[1]) as usize == s => {
                        last[1] += len as i64;
                        true
                    }
                    _ => false,
                };
                if !merged {
                    segs.push([s as i64, len as i64]);
                }
                p += len;
                expect_next = Some(s + len);
            }
            None => {
                match segs.last_mut() {
                    Some(last) if last[0] < 0 => last[1] += 1,
                    _ => segs.push([-1, 1]),
                }
                p += 1;
            }
        }
    }
    segs
}

// ------------------------------------------------------------------------------------------
// mock store

#[derive(Clone, Copy, PartialEq, Debug)]
enum PartRes {
    Pending,
    Ok,
    Fail,
    Reset,
}

struct PartRec {
    payload: Vec<Bytes>,
    desc: Vec<[i64; 2]>,
    res: PartRes,
    resolved: bool, // the put_part future has returned
}

struct Shared {
    pat: &'static [u8],
    strict: bool,
    plan: Vec<String>,
    calls: Mutex<Vec<Value>>, // store calls observed since the last step boundary
    activity: AtomicU64,
    parts: Mutex<Vec<PartRec>>,
    gates: Mutex<HashMap<usize, oneshot::Sender<PartRes>>>,
    dest: Mutex<Option<Vec<[i64; 2]>>>, // destination object (described), None = absent
    mpu: Mutex<&'static str>,
    hint: AtomicU64, // end of the furthest stream segment uploaded as a part so far
}

impl Shared {
    fn note(&self, v: Value) {
        self.calls.lock().unwrap().push(v);
        self.activity.fetch_add(1, Ordering::SeqCst);
    }
    fn fails(&self, what: &str) -> bool {
        self.plan.iter().any(|p| p == what)
    }
}

fn generic(msg: &str) -> OSError {
    OSError::Generic {
        store: "mock",
        source: msg.to_string().into(),
    }
}

struct MockStore(Arc<Shared>);
impl fmt::Debug for MockStore {
    fn fmt(&self, f: &mut fmt::Formatter<'_>) -> fmt::Result {
        write!(f, "MockStore")
    }
}
impl fmt::Display for MockStore {
    fn fmt(&self, f: &mut fmt::Formatter<'_>) -> fmt::Result {
        write!(f, "MockStore")
    }
}

#[async_trait]
impl ObjectStore for MockStore {
    async fn put_opts(&self, _location: &Path, payload: PutPayload, _opts: PutOptions) -> OSResult<PutResult> {
        let chunks: Vec<Bytes> = payload.iter().cloned().collect();
        let d = describe(self.0.pat, &chunks, 0);
        if self.0.fails("put") {
            self.0.note(json!(["put", d, "fail"]));
            return Err(generic("mock put failure"));
        }
        *self.0.dest.lock().unwrap() = Some(d.clone());
        self.0.note(json!(["put", d, "ok"]));
        Ok(PutResult {
            e_tag: Some("mock".into()),
            version: None,
        })
    }

    async fn put_multipart_opts(&self, _location: &Path, _opts: PutMultipartOptions) -> OSResult<Box<dyn MultipartUpload>> {
        if self.0.fails("mpu") {
            self.0.note(json!(["put_multipart", "fail"]));
            return Err(generic("mock put_multipart failure"));
        }
        *self.0.mpu.lock().unwrap() = "open";
        self.0.note(json!(["put_multipart", "ok"]));
        Ok(Box::new(MockUpload(self.0.clone())))
    }

    async fn get_opts(&self, _location: &Path, _options: GetOptions) -> OSResult<GetResult> {
        Err(OSError::NotImplemented)
    }
    async fn delete(&self, _location: &Path) -> OSResult<()> {
        self.0.note(json!(["delete"]));
        *self.0.dest.lock().unwrap() = None;
        Ok(())
    }
    fn list(&self, _prefix: Option<&Path>) -> BoxStream<'static, OSResult<ObjectMeta>> {
        Box::pin(futures::stream::empty())
    }
    async fn list_with_delimiter(&self, _prefix: Option<&Path>) -> OSResult<ListResult> {
        Err(OSError::NotImplemented)
    }
    async fn copy(&self, _from: &Path, _to: &Path) -> OSResult<()> {
        Err(OSError::NotImplemented)
    }
    async fn copy_if_not_exists(&self, _from: &Path, _to: &Path) -> OSResult<()> {
        Err(OSError::NotImplemented)
    }
}

struct MockUpload(Arc<Shared>);
impl fmt::Debug for MockUpload {
    fn fmt(&self, f: &mut fmt::Formatter<'_>) -> fmt::Result {
        write!(f, "MockUpload")
    }
}

#[async_trait]
impl MultipartUpload for MockUpload {
    fn put_part(&mut self, data: PutPayload) -> UploadPart {
        let sh = self.0.clone();
        let chunks: Vec<Bytes> = data.iter().cloned().collect();
        let hint = sh.hint.load(Ordering::SeqCst) as usize;
        // a payload that is the very same buffer as an earlier part (a retry) has the same description;
        // otherwise the payload describes itself (`hint` only matters for payloads of a few bytes)
        let same = {
            let parts = sh.parts.lock().unwrap();
            parts.iter().find(|p| {
                p.payload.len() == chunks.len()
                    && p.payload.iter().zip(chunks.iter()).all(|(a, b)| a.as_ptr() == b.as_ptr() && a.len() == b.len())
            }).map(|p| p.desc.clone())
        };
        let d = same.unwrap_or_else(|| describe(sh.pat, &chunks, hint));
        for sg in &d {
            if sg[0] >= 0 {
                sh.hint.fetch_max((sg[0] + sg[1]) as u64, Ordering::SeqCst);
            }
        }
        let (tx, rx) = oneshot::channel();
        let c = {
            let mut parts = sh.parts.lock().unwrap();
            parts.push(PartRec {
                payload: chunks,
                desc: d.clone(),
                res: PartRes::Pending,
                resolved: false,
            });
            parts.len()
        };
        sh.gates.lock().unwrap().insert(c, tx);
        sh.note(json!(["put_part", c, d]));
        Box::pin(async move {
            let outcome = rx.await.unwrap_or(PartRes::Fail);
            {
                let mut parts = sh.parts.lock().unwrap();
                parts[c - 1].res = outcome;
                parts[c - 1].resolved = true;
            }
            sh.activity.fetch_add(1, Ordering::SeqCst);
            match outcome {
                PartRes::Ok => Ok(()),
                PartRes::Reset => Err(generic("Connection reset by peer (os error 104)")),
                _ => Err(generic("mock put_part failure")),
            }
        })
    }

    async fn complete(&mut self) -> OSResult<PutResult> {
        let sh = &self.0;
        if sh.fails("complete") {
            sh.note(json!(["complete", "fail"]));
            return Err(generic("mock complete failure"));
        }
        let parts = sh.parts.lock().unwrap();
        if sh.strict && parts.iter().any(|p| p.res != PartRes::Ok) {
            sh.note(json!(["complete", "missing"]));
            return Err(generic("Missing part"));
        }
        // parts are numbered by put_part call order; only successfully uploaded parts exist
        // the object is the concatenation of the uploaded parts: its description is the
        // concatenation of their descriptions (adjacent contiguous segments merged)
        let mut d: Vec<[i64; 2]> = Vec::new();
        for p in parts.iter().filter(|p| p.res == PartRes::Ok) {
            for sg in &p.desc {
                match d.last_mut() {
                    Some(last) if last[0] >= 0 && sg[0] >= 0 && last[0] + last[1] == sg[0] => last[1] += sg[1],
                    _ => d.push(*sg),
                }
            }
        }
        *sh.dest.lock().unwrap() = Some(d);
        *sh.mpu.lock().unwrap() = "completed";
        sh.note(json!(["complete", "ok"]));
        Ok(PutResult {
            e_tag: Some("mock".into()),
            version: None,
        })
    }

    async fn abort(&mut self) -> OSResult<()> {
        *self.0.mpu.lock().unwrap() = "aborted";
        self.0.note(json!(["abort"]));
        Ok(())
    }
}

// ------------------------------------------------------------------------------------------
// scratch copy of ObjectWriter with seeded mutations (binding demonstration only)

static MUTATION: Mutex<&'static str> = Mutex::new("real");
fn mutation() -> &'static str {
    *MUTATION.lock().unwrap()
}

mod mutant {
    //! Transcribed from /repo/rust/lance-io/src/object_writer.rs (tracing / logging removed).
    //! Mutation points are marked `MUT`.
    use super::mutation;
    use bytes::Bytes;
    use futures::future::BoxFuture;
    use futures::FutureExt;
    use lance_io::object_store::ObjectStore as LanceObjectStore;
    use object_store::MultipartUpload;
    use object_store::{path::Path, Error as OSError, ObjectStore, Result as OSResult};
    use std::io;
    use std::pin::Pin;
    use std::sync::Arc;
    use std::task::Poll;
    use tokio::io::AsyncWrite;
    use tokio::runtime::Handle;
    use tokio::task::JoinSet;

    const INITIAL_UPLOAD_STEP: usize = 1024 * 1024 * 5;
    fn envnum(k: &str, d: usize) -> usize {
        std::env::var(k).ok().and_then(|s| s.parse::<usize>().ok()).unwrap_or(d)
    }
    fn max_upload_parallelism() -> usize {
        envnum("LANCE_UPLOAD_CONCURRENCY", 10)
    }
    fn max_conn_reset_retries() -> u16 {
        envnum("LANCE_CONN_RESET_RETRIES", 20) as u16
    }
    fn initial_upload_size() -> usize {
        INITIAL_UPLOAD_STEP
    }

    pub struct ObjectWriter {
        state: UploadState,
        path: Arc<Path>,
        pub cursor: usize,
        connection_resets: u16,
        buffer: Vec<u8>,
        use_constant_size_upload_parts: bool,
    }
    #[derive(Debug, Clone, Default)]
    pub struct WriteResult {
        pub size: usize,
        pub e_tag: Option<String>,
    }
    enum UploadState {
        Started(Arc<dyn ObjectStore>),
        CreatingUpload(BoxFuture<'static, OSResult<Box<dyn MultipartUpload>>>),
        InProgress {
            part_idx: u16,
            upload: Box<dyn MultipartUpload>,
            futures: JoinSet<std::result::Result<(), UploadPutError>>,
        },
        PuttingSingle(BoxFuture<'static, OSResult<WriteResult>>),
        Completing(BoxFuture<'static, OSResult<WriteResult>>),
        Done(WriteResult),
    }
    impl UploadState {
        fn started_to_putting_single(&mut self, path: Arc<Path>, buffer: Vec<u8>) {
            let this = std::mem::replace(self, Self::Done(WriteResult::default()));
            *self = match this {
                Self::Started(store) => {
                    let fut = async move {
                        let size = buffer.len();
                        let res = store.put(&path, buffer.into()).await?;
                        Ok(WriteResult { size, e_tag: res.e_tag })
                    };
                    Self::PuttingSingle(Box::pin(fut))
                }
                _ => unreachable!(),
            }
        }
        fn in_progress_to_completing(&mut self) {
            let this = std::mem::replace(self, Self::Done(WriteResult::default()));
            *self = match this {
                Self::InProgress { mut upload, futures, .. } => {
                    let fut = async move {
                        let _keep = futures; // MUT complete_early keeps unfinished uploads alive
                        let res = upload.complete().await?;
                        Ok(WriteResult { size: 0, e_tag: res.e_tag })
                    };
                    Self::Completing(Box::pin(fut))
                }
                _ => unreachable!(),
            };
        }
    }
    impl ObjectWriter {
        pub async fn new(object_store: &LanceObjectStore, path: &Path) -> lance_core::Result<Self> {
            Ok(Self {
                state: UploadState::Started(object_store.inner.clone()),
                cursor: 0,
                path: Arc::new(path.clone()),
                connection_resets: 0,
                buffer: Vec::with_capacity(initial_upload_size()),
                use_constant_size_upload_parts: object_store.use_constant_size_upload_parts,
            })
        }
        fn next_part_buffer(buffer: &mut Vec<u8>, part_idx: u16, constant_upload_size: bool) -> Bytes {
            let new_capacity = if constant_upload_size {
                initial_upload_size()
            } else {
                initial_upload_size().max(((part_idx / 100) as usize + 1) * INITIAL_UPLOAD_STEP)
            };
            let new_buffer = Vec::with_capacity(new_capacity);
            let part = std::mem::replace(buffer, new_buffer);
            Bytes::from(part)
        }
        fn put_part(
            upload: &mut dyn MultipartUpload,
            buffer: Bytes,
            part_idx: u16,
            sleep: Option<std::time::Duration>,
        ) -> BoxFuture<'static, std::result::Result<(), UploadPutError>> {
            let fut = upload.put_part(buffer.clone().into());
            Box::pin(async move {
                if let Some(sleep) = sleep {
                    tokio::time::sleep(sleep).await;
                }
                fut.await.map_err(|source| UploadPutError { part_idx, buffer, source })?;
                Ok(())
            })
        }
        fn poll_tasks(mut self: Pin<&mut Self>, cx: &mut std::task::Context<'_>) -> std::result::Result<(), io::Error> {
            let mut_self = &mut *self;
            loop {
                match &mut mut_self.state {
                    UploadState::Started(_) | UploadState::Done(_) => break,
                    UploadState::CreatingUpload(ref mut fut) => match fut.poll_unpin(cx) {
                        Poll::Ready(Ok(mut upload)) => {
                            let mut futures = JoinSet::new();
                            let data = Self::next_part_buffer(&mut mut_self.buffer, 0, mut_self.use_constant_size_upload_parts);
                            futures.spawn(Self::put_part(upload.as_mut(), data, 0, None));
                            mut_self.state = UploadState::InProgress { part_idx: 1, futures, upload };
                        }
                        Poll::Ready(Err(e)) => return Err(std::io::Error::other(e)),
                        Poll::Pending => break,
                    },
                    UploadState::InProgress { upload, futures, .. } => {
                        while let Poll::Ready(Some(res)) = futures.poll_join_next(cx) {
                            match res {
                                Ok(Ok(())) => {}
                                Err(err) => return Err(std::io::Error::other(err)),
                                Ok(Err(UploadPutError { source: OSError::Generic { source, .. }, part_idx, buffer }))
                                    if source.to_string().to_lowercase().contains("connection reset by peer") =>
                                {
                                    if mut_self.connection_resets < max_conn_reset_retries() {
                                        mut_self.connection_resets += 1;
                                        futures.spawn(Self::put_part(
                                            upload.as_mut(),
                                            buffer,
                                            part_idx,
                                            Some(std::time::Duration::from_millis(50)),
                                        ));
                                    } else {
                                        return Err(io::Error::new(
                                            io::ErrorKind::ConnectionReset,
                                            format!("Hit max retries ({}) for connection reset: {}", max_conn_reset_retries(), source),
                                        ));
                                    }
                                }
                                Ok(Err(err)) => {
                                    if mutation() == "swallow_part_error" {
                                        continue; // MUT: a failed part upload is ignored
                                    }
                                    return Err(err.source.into());
                                }
                            }
                        }
                        break;
                    }
                    UploadState::PuttingSingle(ref mut fut) | UploadState::Completing(ref mut fut) => match fut.poll_unpin(cx) {
                        Poll::Ready(Ok(mut res)) => {
                            res.size = mut_self.cursor;
                            mut_self.state = UploadState::Done(res)
                        }
                        Poll::Ready(Err(e)) => return Err(std::io::Error::other(e)),
                        Poll::Pending => break,
                    },
                }
            }
            Ok(())
        }
        pub async fn shutdown(&mut self) -> lance_core::Result<WriteResult> {
            tokio::io::AsyncWriteExt::shutdown(self).await.map_err(|e| {
                lance_core::Error::io(
                    format!("failed to shutdown object writer for {}: {}", self.path, e),
                    snafu::location!(),
                )
            })?;
            if let UploadState::Done(result) = &self.state {
                Ok(result.clone())
            } else {
                unreachable!()
            }
        }
        pub async fn abort(&mut self) {
            let state = std::mem::replace(&mut self.state, UploadState::Done(WriteResult::default()));
            if let UploadState::InProgress { mut upload, .. } = state {
                let _ = upload.abort().await;
            }
        }
    }
    impl Drop for ObjectWriter {
        fn drop(&mut self) {
            if mutation() == "drop_no_abort" {
                return; // MUT
            }
            if matches!(self.state, UploadState::InProgress { .. }) {
                let state = std::mem::replace(&mut self.state, UploadState::Done(WriteResult::default()));
                if let UploadState::InProgress { mut upload, .. } = state {
                    if let Ok(handle) = Handle::try_current() {
                        handle.spawn(async move {
                            let _ = upload.abort().await;
                        });
                    }
                }
            }
        }
    }
    struct UploadPutError {
        part_idx: u16,
        buffer: Bytes,
        source: OSError,
    }
    impl AsyncWrite for ObjectWriter {
        fn poll_write(
            mut self: std::pin::Pin<&mut Self>,
            cx: &mut std::task::Context<'_>,
            buf: &[u8],
        ) -> std::task::Poll<std::result::Result<usize, std::io::Error>> {
            self.as_mut().poll_tasks(cx)?;
            let remaining_capacity = self.buffer.capacity() - self.buffer.len();
            let bytes_to_write = std::cmp::min(remaining_capacity, buf.len());
            self.buffer.extend_from_slice(&buf[..bytes_to_write]);
            self.cursor += bytes_to_write;
            let mut_self = &mut *self;
            if mut_self.buffer.capacity() == mut_self.buffer.len() {
                match &mut mut_self.state {
                    UploadState::Started(store) => {
                        let path = mut_self.path.clone();
                        let store = store.clone();
                        let fut = Box::pin(async move { store.put_multipart(path.as_ref()).await });
                        self.state = UploadState::CreatingUpload(fut);
                    }
                    UploadState::InProgress { upload, part_idx, futures, .. } => {
                        let limit = if mutation() == "parallelism_plus_one" {
                            max_upload_parallelism() + 1 // MUT
                        } else {
                            max_upload_parallelism()
                        };
                        if futures.len() < limit {
                            let data = Self::next_part_buffer(&mut mut_self.buffer, *part_idx, mut_self.use_constant_size_upload_parts);
                            futures.spawn(Self::put_part(upload.as_mut(), data, *part_idx, None));
                            *part_idx += 1;
                        }
                    }
                    _ => {}
                }
            }
            self.poll_tasks(cx)?;
            match bytes_to_write {
                0 => Poll::Pending,
                _ => Poll::Ready(Ok(bytes_to_write)),
            }
        }
        fn poll_flush(mut self: std::pin::Pin<&mut Self>, cx: &mut std::task::Context<'_>) -> std::task::Poll<std::result::Result<(), std::io::Error>> {
            self.as_mut().poll_tasks(cx)?;
            match &self.state {
                UploadState::Started(_) | UploadState::Done(_) => Poll::Ready(Ok(())),
                UploadState::CreatingUpload(_) | UploadState::Completing(_) | UploadState::PuttingSingle(_) => Poll::Pending,
                UploadState::InProgress { futures, .. } => {
                    if futures.is_empty() {
                        Poll::Ready(Ok(()))
                    } else {
                        Poll::Pending
                    }
                }
            }
        }
        fn poll_shutdown(mut self: std::pin::Pin<&mut Self>, cx: &mut std::task::Context<'_>) -> std::task::Poll<std::result::Result<(), std::io::Error>> {
            loop {
                self.as_mut().poll_tasks(cx)?;
                let mut_self = &mut *self;
                match &mut mut_self.state {
                    UploadState::Done(_) => return Poll::Ready(Ok(())),
                    UploadState::CreatingUpload(_) | UploadState::PuttingSingle(_) | UploadState::Completing(_) => return Poll::Pending,
                    UploadState::Started(_) => {
                        let part = std::mem::take(&mut mut_self.buffer);
                        let path = mut_self.path.clone();
                        self.state.started_to_putting_single(path, part);
                    }
                    UploadState::InProgress { upload, futures, part_idx } => {
                        let skip_tail = mutation() == "no_final_flush"; // MUT: the last partial part is never uploaded
                        if !skip_tail && !mut_self.buffer.is_empty() && futures.len() < max_upload_parallelism() {
                            let data = Bytes::from(std::mem::take(&mut mut_self.buffer));
                            futures.spawn(Self::put_part(upload.as_mut(), data, *part_idx, None));
                            continue;
                        }
                        // MUT complete_early: do not wait for the part uploads
                        if futures.is_empty() || mutation() == "complete_early" {
                            self.state.in_progress_to_completing();
                        } else {
                            return Poll::Pending;
                        }
                    }
                }
            }
        }
    }
}

// ------------------------------------------------------------------------------------------
// the writer under test behind one interface

type LocalFut<T> = Pin<Box<dyn Future<Output = T>>>;

trait WriterLike: Sized + 'static {
    fn create(store: &LanceObjectStore, path: &Path) -> LocalFut<Self>;
    /// write_all; Ok(cursor after the call)
    fn wr(this: *mut Self, data: Bytes) -> LocalFut<Result<usize, String>>;
    /// shutdown; Ok(reported size)
    fn shut(this: *mut Self) -> LocalFut<Result<usize, String>>;
    fn abrt(this: *mut Self) -> LocalFut<()>;
}

impl WriterLike for ObjectWriter {
    fn create(store: &LanceObjectStore, path: &Path) -> LocalFut<Self> {
        let (s, p) = (store.clone(), path.clone());
        Box::pin(async move { ObjectWriter::new(&s, &p).await.unwrap() })
    }
    fn wr(this: *mut Self, data: Bytes) -> LocalFut<Result<usize, String>> {
        Box::pin(async move {
            // SAFETY: the driver keeps the writer alive while this future exists and never
            // touches it otherwise (see `Run`).
            let w = unsafe { &mut *this };
            w.write_all(&data).await.map_err(|e| e.to_string())?;
            use lance_io::traits::Writer;
            w.tell().await.map_err(|e| e.to_string())
        })
    }
    fn shut(this: *mut Self) -> LocalFut<Result<usize, String>> {
        Box::pin(async move {
            let w = unsafe { &mut *this };
            w.shutdown().await.map(|r| r.size).map_err(|e| e.to_string())
        })
    }
    fn abrt(this: *mut Self) -> LocalFut<()> {
        Box::pin(async move {
            let w = unsafe { &mut *this };
            w.abort().await
        })
    }
}

impl WriterLike for mutant::ObjectWriter {
    fn create(store: &LanceObjectStore, path: &Path) -> LocalFut<Self> {
        let (s, p) = (store.clone(), path.clone());
        Box::pin(async move { mutant::ObjectWriter::new(&s, &p).await.unwrap() })
    }
    fn wr(this: *mut Self, data: Bytes) -> LocalFut<Result<usize, String>> {
        Box::pin(async move {
            let w = unsafe { &mut *this };
            w.write_all(&data).await.map_err(|e| e.to_string())?;
            Ok(w.cursor)
        })
    }
    fn shut(this: *mut Self) -> LocalFut<Result<usize, String>> {
        Box::pin(async move {
            let w = unsafe { &mut *this };
            w.shutdown().await.map(|r| r.size).map_err(|e| e.to_string())
        })
    }
    fn abrt(this: *mut Self) -> LocalFut<()> {
        Box::pin(async move {
            let w = unsafe { &mut *this };
            w.abort().await
        })
    }
}

struct Flag(AtomicBool);
impl Wake for Flag {
    fn wake(self: Arc<Self>) {
        self.0.store(true, Ordering::SeqCst);
    }
}

fn classify(msg: &str) -> String {
    let m = msg.to_lowercase();
    let k = if m.contains("hit max retries") {
        "err_reset_max"
    } else if m.contains("mock put_multipart failure") {
        "err_mpu"
    } else if m.contains("mock put_part failure") || m.contains("connection reset by peer") {
        "err_part"
    } else if m.contains("mock complete failure") {
        "err_complete"
    } else if m.contains("missing part") {
        "err_missing"
    } else if m.contains("mock put failure") {
        "err_put"
    } else {
        return format!("err_other:{}", &msg[..msg.len().min(120)]);
    };
    k.to_string()
}

struct Run<W: WriterLike> {
    sh: Arc<Shared>,
    w: *mut W, // null once dropped
    api: Option<LocalFut<Result<usize, String>>>,
    flag: Arc<Flag>,
    waker: Waker,
}

impl<W: WriterLike> Run<W> {
    /// Let the writer react until nothing moves any more.  The API future is polled only when
    /// its waker has fired.
    async fn settle(&mut self) -> Option<Result<usize, String>> {
        let mut result = None;
        for _ in 0..200 {
            let mut progressed = false;
            if self.api.is_some() && self.flag.0.swap(false, Ordering::SeqCst) {
                progressed = true;
                let mut cx = Context::from_waker(&self.waker);
                if let Poll::Ready(r) = self.api.as_mut().unwrap().as_mut().poll(&mut cx) {
                    result = Some(r);
                    self.api = None;
                }
            }
            let before = self.sh.activity.load(Ordering::SeqCst);
            tokio::task::yield_now().await;
            let after = self.sh.activity.load(Ordering::SeqCst);
            let woken = self.api.is_some() && self.flag.0.load(Ordering::SeqCst);
            if !progressed && before == after && !woken {
                break;
            }
        }
        result
    }

    fn drop_writer(&mut self) {
        self.api = None; // cancel the pending call first
        if !self.w.is_null() {
            // SAFETY: no future referring to the writer exists any more
            unsafe { drop(Box::from_raw(self.w)) };
            self.w = std::ptr::null_mut();
        }
    }
}

async fn run_scenario<W: WriterLike>(sc: &Value, id: u64, pat: &'static [u8], part: usize, out: &mut Vec<Value>) {
    let plan: Vec<String> = sc["plan"].as_array().unwrap().iter().map(|v| v.as_str().unwrap().to_string()).collect();
    let mode = sc["mode"].as_str().unwrap().to_string();
    let sh = Arc::new(Shared {
        pat,
        strict: mode == "strict",
        plan: plan.clone(),
        calls: Mutex::new(Vec::new()),
        activity: AtomicU64::new(0),
        parts: Mutex::new(Vec::new()),
        gates: Mutex::new(HashMap::new()),
        dest: Mutex::new(None),
        mpu: Mutex::new("none"),
        hint: AtomicU64::new(0),
    });
    out.push(json!({"k": "reset", "sc": id, "part": part, "maxpar": sc["maxpar"], "maxresets": sc["maxresets"],
                    "mode": mode, "plan": plan}));
    let store = LanceObjectStore::new(
        Arc::new(MockStore(sh.clone())),
        url::Url::parse("memory:///").unwrap(),
        None,
        None,
        false,
        true,
        8,
        3,
        None,
    );
    let w = W::create(&store, &Path::from("dest/object.bin")).await;
    let flag = Arc::new(Flag(AtomicBool::new(false)));
    let mut run = Run::<W> {
        sh: sh.clone(),
        w: Box::into_raw(Box::new(w)),
        api: None,
        flag: flag.clone(),
        waker: Waker::from(flag.clone()),
    };
    let mut offset = 0usize; // stream offset of the next byte handed to write_all
    let whole = Bytes::from_static(pat);
    for (i, step) in sc["steps"].as_array().unwrap().iter().enumerate() {
        let op = step[0].as_str().unwrap();
        let a = step[1].as_u64().unwrap() as usize;
        let o = step[2].as_str().unwrap();
        let mut api_res: Option<Result<usize, String>> = None;
        let mut resolved = Value::Null;
        let mut note = Value::Null;
        match op {
            "write" | "shutdown" if run.w.is_null() || run.api.is_some() => {
                note = json!("driver: API call while another one is pending or writer gone");
            }
            "write" => {
                let data = whole.slice(offset..offset + a);
                offset += a;
                run.api = Some(W::wr(run.w, data));
                run.flag.0.store(true, Ordering::SeqCst);
                api_res = run.settle().await;
            }
            "shutdown" => {
                run.api = Some(W::shut(run.w));
                run.flag.0.store(true, Ordering::SeqCst);
                api_res = run.settle().await;
            }
            "done" => {
                let tx = sh.gates.lock().unwrap().remove(&a);
                let outcome = match o {
                    "ok" => PartRes::Ok,
                    "reset" => PartRes::Reset,
                    _ => PartRes::Fail,
                };
                match tx {
                    Some(tx) => {
                        let _ = tx.send(outcome);
                        api_res = run.settle().await;
                        // a retried part sleeps (2-8 s in the real code) before its upload is awaited
                        let t0 = std::time::Instant::now();
                        loop {
                            let r = sh.parts.lock().unwrap()[a - 1].resolved;
                            if r || t0.elapsed().as_secs() >= 12 {
                                resolved = json!(r);
                                break;
                            }
                            tokio::time::sleep(std::time::Duration::from_millis(20)).await;
                            if let Some(r) = run.settle().await {
                                api_res = Some(r);
                            }
                        }
                        if api_res.is_none() {
                            api_res = run.settle().await;
                        }
                    }
                    None => note = json!("driver: no such pending put_part call"),
                }
            }
            "abort" => {
                run.api = None; // cancel the pending call
                if !run.w.is_null() {
                    W::abrt(run.w).await;
                }
                run.settle().await;
            }
            "drop" => {
                run.drop_writer();
                run.settle().await;
            }
            _ => note = json!("driver: unknown step"),
        }
        let api = match (&api_res, op) {
            (Some(Ok(n)), _) => json!(["ok", n]),
            (Some(Err(m)), _) => json!(["err", classify(m)]),
            (None, "abort") | (None, "drop") => json!(["none"]),
            (None, _) if run.api.is_some() => json!(["pending"]),
            (None, _) => json!(["none"]),
        };
        let calls: Vec<Value> = std::mem::take(&mut *sh.calls.lock().unwrap());
        let dest = sh.dest.lock().unwrap().clone();
        let mut ev = json!({"k": "step", "sc": id, "i": i + 1, "step": step, "calls": calls, "api": api,
                            "vis": dest.is_some(), "dest": dest.unwrap_or_default(),
                            "mpu": *sh.mpu.lock().unwrap()});
        if !resolved.is_null() {
            ev["resolved"] = resolved;
        }
        if let Some(Err(m)) = &api_res {
            ev["msg"] = json!(m[..m.len().min(200)]);
        }
        if !note.is_null() {
            ev["note"] = note;
        }
        out.push(ev);
    }
    run.drop_writer();
    run.settle().await;
}

fn run_one(sc: &Value, id: u64, pat: &'static [u8], part: usize, mutate: &str) -> Vec<Value> {
    let mut out = Vec::new();
    let res = std::panic::catch_unwind(std::panic::AssertUnwindSafe(|| {
        let rt = tokio::runtime::Builder::new_current_thread().enable_time().build().unwrap();
        let mut evs = Vec::new();
        rt.block_on(async {
            if mutate == "real" {
                run_scenario::<ObjectWriter>(sc, id, pat, part, &mut evs).await;
            } else {
                run_scenario::<mutant::ObjectWriter>(sc, id, pat, part, &mut evs).await;
            }
        });
        evs
    }));
    match res {
        Ok(evs) => out.extend(evs),
        Err(e) => {
            let msg = e
                .downcast_ref::<&str>()
                .map(|s| s.to_string())
                .or_else(|| e.downcast_ref::<String>().cloned())
                .unwrap_or_else(|| "panic".into());
            out.push(json!({"k": "reset", "sc": id, "part": part, "maxpar": sc["maxpar"], "maxresets": sc["maxresets"],
                            "mode": sc["mode"], "plan": sc["plan"]}));
            out.push(json!({"k": "panic", "sc": id, "msg": msg}));
        }
    }
    out
}

fn main() {
    let args = Args::from_env();
    let scen = args.get("scenarios").expect("--scenarios");
    let outp = args.get("out").expect("--out");
    let threads = args.num("threads", 4) as usize;
    let mutate: &'static str = Box::leak(args.get_or("mutate", "real").into_boxed_str());
    *MUTATION.lock().unwrap() = mutate;
    let envnum = |k: &str, d: u64| std::env::var(k).ok().and_then(|s| s.parse::<u64>().ok()).unwrap_or(d);
    let maxpar = envnum("LANCE_UPLOAD_CONCURRENCY", 10);
    let maxresets = envnum("LANCE_CONN_RESET_RETRIES", 20);
    let part = envnum("LANCE_INITIAL_UPLOAD_SIZE", DEFAULT_PART as u64) as usize;
    let text = std::fs::read_to_string(&scen).expect("scenario file");
    let scs: Vec<Value> = text.lines().filter(|l| !l.trim().is_empty()).map(|l| serde_json::from_str(l).unwrap()).collect();
    for sc in &scs {
        // the limits are process-wide (OnceLock in lance): the scenario must have been generated for them
        if sc["maxpar"].as_u64() != Some(maxpar) || sc["maxresets"].as_u64() != Some(maxresets) {
            eprintln!("scenario generated for maxpar/maxresets {}/{} but the process runs with {}/{}",
                      sc["maxpar"], sc["maxresets"], maxpar, maxresets);
            std::process::exit(3);
        }
    }
    let pat: &'static [u8] = Box::leak(make_pattern().into_boxed_slice());
    let n = scs.len();
    let scs = Arc::new(scs);
    let next = Arc::new(AtomicU64::new(0));
    let results: Arc<Mutex<Vec<Option<Vec<Value>>>>> = Arc::new(Mutex::new(vec![None; n]));
    std::panic::set_hook(Box::new(|_| {}));
    let mut hs = Vec::new();
    for _ in 0..threads.max(1) {
        let (scs, next, results) = (scs.clone(), next.clone(), results.clone());
        hs.push(std::thread::spawn(move || loop {
            let i = next.fetch_add(1, Ordering::SeqCst) as usize;
            if i >= scs.len() {
                break;
            }
            let id = scs[i]["id"].as_u64().unwrap_or(i as u64);
            let evs = run_one(&scs[i], id, pat, part, mutate);
            results.lock().unwrap()[i] = Some(evs);
        }));
    }
    for h in hs {
        h.join().unwrap();
    }
    let mut tw = TraceWriter::create(&outp);
    for r in results.lock().unwrap().iter_mut() {
        for ev in r.take().unwrap_or_default() {
            tw.emit(ev);
        }
    }
    let c = tw.finish();
    println!("{{\"scenarios\": {n}, \"events\": {c}}}");
}
