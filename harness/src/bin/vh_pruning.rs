//! Driver for spec/Pruning.tla (properties C20 and C29).
//!
//! Builds real datasets whose column `val` carries the model's small values through an
//! order-preserving *embedding* chosen by the column kind, trains the real inexact scalar
//! indices (zone map, bloom filter, n-gram) through `Dataset::create_index`, writes legacy-format
//! tables with small row groups (page statistics), and records for every predicate:
//!   * the scan result for each execution variant (use_scalar_index / use_stats on and off),
//!     together with the plan nodes that show whether the index / the statistics push-down was used,
//!   * the row set returned by `ScalarIndex::search` called directly on the opened index.
//! It never compares anything itself: spec/Trace_Pruning.tla is the judge.
//!
//! Scenario (one JSON object per line):
//!   {"id": n, "kind": "int32|int64|float32|float64|utf8|utf8long|text", "storage": "legacy|2.0|2.1",
//!    "offset": k, "steps": [
//!      {"op":"write","mode":"create|append","rows":[[id,val],...],"group":g},
//!      {"op":"delete","ids":[..]}, {"op":"update","ids":[..],"to":v},
//!      {"op":"index","type":"zonemap|bloomfilter|ngram|btree|bitmap","params":{..}},
//!      {"op":"optimize"}, {"op":"compact"},
//!      {"op":"queries","preds":[p,..],"variants":[{"name":..,"use_scalar_index":b,"use_stats":b},..],
//!       "search":true,"zone":r}]}
//! Model values are naturals, NULL = -1; for kind "text" a value is a list of model characters
//! (["NULL"] = NULL) and predicates are ["contains","val",[chars]].
use std::collections::HashMap;
use std::ops::Bound;
use std::path::PathBuf;
use std::sync::Arc;

use arrow_array::cast::AsArray;
use arrow_array::types::{Float32Type, Float64Type, Int32Type, Int64Type, UInt64Type};
use arrow_array::{
    Array, ArrayRef, Float32Array, Float64Array, Int32Array, Int64Array, RecordBatch, StringArray,
};
use arrow_schema::{DataType, Field, Schema as ArrowSchema};
use datafusion::common::ScalarValue;
use datafusion::logical_expr::Expr;
use datafusion::prelude::{col, lit};
use futures::{FutureExt, TryStreamExt};
use lance::dataset::optimize::{compact_files, CompactionOptions};
use lance::dataset::{Dataset, InsertBuilder, UpdateBuilder, WriteMode, WriteParams};
use lance::index::DatasetIndexInternalExt;
use lance_index::metrics::NoOpMetricsCollector;
use lance_index::scalar::{
    BloomFilterQuery, BuiltinIndexType, SargableQuery, ScalarIndexParams, SearchResult, TextQuery,
};
use lance_index::{DatasetIndexExt, IndexType};
use lance_verif_harness::tablekit::{classify, err_text};
use lance_verif_harness::trace::{Args, TraceWriter};
use serde_json::{json, Value};

const NULL: i64 = -1;

#[derive(Clone, Copy, PartialEq, Debug)]
enum Kind {
    Int32,
    Int64,
    Float32,
    Float64,
    Utf8,
    Utf8Long,
    Text,
}

impl Kind {
    fn parse(s: &str) -> Kind {
        match s {
            "int32" => Kind::Int32,
            "int64" => Kind::Int64,
            "float32" => Kind::Float32,
            "float64" => Kind::Float64,
            "utf8" => Kind::Utf8,
            "utf8long" => Kind::Utf8Long,
            "text" => Kind::Text,
            o => panic!("unknown kind {o}"),
        }
    }
    fn arrow(&self) -> DataType {
        match self {
            Kind::Int32 => DataType::Int32,
            Kind::Int64 => DataType::Int64,
            Kind::Float32 => DataType::Float32,
            Kind::Float64 => DataType::Float64,
            _ => DataType::Utf8,
        }
    }
}

/// Float tokens: model value i stands for FTOK[i].  The ordering -inf < -1.5 < -0 < +0 < 1.5 < +inf < NaN
/// is the IEEE total order arrow's comparison kernels use (calibrated by the `base` variant, see spec).
const FTOK: [f64; 7] = [f64::NEG_INFINITY, -1.5, -0.0, 0.0, 1.5, f64::INFINITY, f64::NAN];
/// Short strings in bytewise ascending order.
const STOK: [&str; 7] = ["", "a", "ab", "b", "ba", "c", "d"];

fn long_tok(i: usize) -> String {
    // values around the 64-byte statistics prefix: long strings sharing a prefix with short ones
    let a70 = "a".repeat(70);
    let b70 = "b".repeat(70);
    let c70 = "c".repeat(70);
    match i {
        0 => format!("{a70}a"),
        1 => format!("{a70}b"),
        2 => "b".to_string(),
        3 => b70,
        4 => "c".to_string(),
        5 => format!("{c70}a"),
        _ => "d".to_string(),
    }
}

/// model character -> real text
fn real_char(c: &str) -> &str {
    match c {
        "U" => "\u{65e5}", // multibyte (3 bytes), not ASCII-foldable, not alphanumeric ASCII
        "F" => "\u{e9}",   // multibyte (2 bytes), folds to 'e'
        o => o,
    }
}
fn model_char(c: char) -> String {
    match c {
        '\u{65e5}' => "U".into(),
        '\u{e9}' => "F".into(),
        o => o.to_string(),
    }
}
fn real_text(v: &Value) -> Option<String> {
    let a = v.as_array().expect("text value is a list of characters");
    if a.len() == 1 && a[0].as_str() == Some("NULL") {
        return None;
    }
    Some(a.iter().map(|c| real_char(c.as_str().unwrap())).collect::<String>())
}

struct Ctx {
    kind: Kind,
    offset: i64,
    storage: Option<String>,
    uri: String,
    ds: Option<Dataset>,
    mutate: Option<String>,
}

impl Ctx {
    fn f64_of(&self, v: i64) -> f64 {
        FTOK[v as usize]
    }
    fn str_of(&self, v: i64) -> String {
        match self.kind {
            Kind::Utf8 => STOK[v as usize].to_string(),
            _ => long_tok(v as usize),
        }
    }
    fn val_array(&self, vals: &[Value]) -> ArrayRef {
        let ints = || vals.iter().map(|v| v.as_i64().unwrap());
        match self.kind {
            Kind::Int32 => Arc::new(Int32Array::from(
                ints().map(|v| if v == NULL { None } else { Some((v + self.offset) as i32) }).collect::<Vec<_>>(),
            )),
            Kind::Int64 => Arc::new(Int64Array::from(
                ints().map(|v| if v == NULL { None } else { Some(v + self.offset) }).collect::<Vec<_>>(),
            )),
            Kind::Float32 => Arc::new(Float32Array::from(
                ints().map(|v| if v == NULL { None } else { Some(self.f64_of(v) as f32) }).collect::<Vec<_>>(),
            )),
            Kind::Float64 => Arc::new(Float64Array::from(
                ints().map(|v| if v == NULL { None } else { Some(self.f64_of(v)) }).collect::<Vec<_>>(),
            )),
            Kind::Utf8 | Kind::Utf8Long => Arc::new(StringArray::from(
                ints().map(|v| if v == NULL { None } else { Some(self.str_of(v)) }).collect::<Vec<_>>(),
            )),
            Kind::Text => Arc::new(StringArray::from(vals.iter().map(real_text).collect::<Vec<_>>())),
        }
    }
    fn batch(&self, rows: &[Value]) -> RecordBatch {
        let schema = Arc::new(ArrowSchema::new(vec![
            Field::new("id", DataType::Int32, false),
            Field::new("val", self.kind.arrow(), true),
        ]));
        let ids: Vec<i32> = rows.iter().map(|r| r[0].as_i64().unwrap() as i32).collect();
        let vals: Vec<Value> = rows.iter().map(|r| r[1].clone()).collect();
        RecordBatch::try_new(schema, vec![Arc::new(Int32Array::from(ids)), self.val_array(&vals)]).unwrap()
    }
    /// real cell -> model value (inverse embedding); -2 = not a value of the embedding
    fn model_of(&self, arr: &ArrayRef, i: usize) -> Value {
        if arr.is_null(i) {
            return if self.kind == Kind::Text { json!(["NULL"]) } else { json!(NULL) };
        }
        match self.kind {
            Kind::Int32 => json!(arr.as_primitive::<Int32Type>().value(i) as i64 - self.offset),
            Kind::Int64 => json!(arr.as_primitive::<Int64Type>().value(i) - self.offset),
            Kind::Float32 => {
                let x = arr.as_primitive::<Float32Type>().value(i);
                json!(FTOK.iter().position(|t| (*t as f32).to_bits() == x.to_bits()).map(|p| p as i64).unwrap_or(-2))
            }
            Kind::Float64 => {
                let x = arr.as_primitive::<Float64Type>().value(i);
                json!(FTOK.iter().position(|t| t.to_bits() == x.to_bits()).map(|p| p as i64).unwrap_or(-2))
            }
            Kind::Utf8 | Kind::Utf8Long => {
                let s = arr.as_string::<i32>().value(i);
                json!((0..7).position(|p| self.str_of(p as i64) == s).map(|p| p as i64).unwrap_or(-2))
            }
            Kind::Text => {
                let s = arr.as_string::<i32>().value(i);
                json!(s.chars().map(model_char).collect::<Vec<_>>())
            }
        }
    }
    fn scalar(&self, v: i64) -> ScalarValue {
        if v == NULL {
            return match self.kind {
                Kind::Int32 => ScalarValue::Int32(None),
                Kind::Int64 => ScalarValue::Int64(None),
                Kind::Float32 => ScalarValue::Float32(None),
                Kind::Float64 => ScalarValue::Float64(None),
                _ => ScalarValue::Utf8(None),
            };
        }
        match self.kind {
            Kind::Int32 => ScalarValue::Int32(Some((v + self.offset) as i32)),
            Kind::Int64 => ScalarValue::Int64(Some(v + self.offset)),
            Kind::Float32 => ScalarValue::Float32(Some(self.f64_of(v) as f32)),
            Kind::Float64 => ScalarValue::Float64(Some(self.f64_of(v))),
            _ => ScalarValue::Utf8(Some(self.str_of(v))),
        }
    }
    fn sql_lit(&self, v: i64) -> String {
        if v == NULL {
            return "NULL".into();
        }
        match self.kind {
            Kind::Int32 | Kind::Int64 => (v + self.offset).to_string(),
            Kind::Utf8 | Kind::Utf8Long => format!("'{}'", self.str_of(v)),
            _ => panic!("no SQL literal for this kind"),
        }
    }
    /// SQL text of a predicate (int and string kinds)
    fn sql(&self, p: &Value) -> String {
        let a = p.as_array().unwrap();
        let c = |i: usize| a[i].as_str().unwrap().to_string();
        let n = |i: usize| a[i].as_i64().unwrap();
        match a[0].as_str().unwrap() {
            "true" => "true".into(),
            "false" => "false".into(),
            "cmp" => format!("{} {} {}", c(1), c(2), self.sql_lit(n(3))),
            "in" => format!(
                "{} IN ({})",
                c(1),
                a[2].as_array().unwrap().iter().map(|x| self.sql_lit(x.as_i64().unwrap())).collect::<Vec<_>>().join(", ")
            ),
            "between" => format!("{} BETWEEN {} AND {}", c(1), self.sql_lit(n(2)), self.sql_lit(n(3))),
            "isnull" => format!("{} IS NULL", c(1)),
            "notnull" => format!("{} IS NOT NULL", c(1)),
            "and" => format!("({}) AND ({})", self.sql(&a[1]), self.sql(&a[2])),
            "or" => format!("({}) OR ({})", self.sql(&a[1]), self.sql(&a[2])),
            "not" => format!("NOT ({})", self.sql(&a[1])),
            "contains" => format!("contains({}, '{}')", c(1), real_text(&a[2]).unwrap()),
            o => panic!("unknown predicate {o}"),
        }
    }
    /// datafusion expression of a predicate with literals of exactly the column type (float kinds:
    /// NaN / infinities / signed zeros have no SQL spelling)
    fn expr(&self, p: &Value) -> Expr {
        let a = p.as_array().unwrap();
        let c = |i: usize| col(a[i].as_str().unwrap());
        let n = |i: usize| lit(self.scalar(a[i].as_i64().unwrap()));
        match a[0].as_str().unwrap() {
            "true" => lit(true),
            "false" => lit(false),
            "cmp" => match a[2].as_str().unwrap() {
                "=" => c(1).eq(n(3)),
                "<>" => c(1).not_eq(n(3)),
                "<" => c(1).lt(n(3)),
                "<=" => c(1).lt_eq(n(3)),
                ">" => c(1).gt(n(3)),
                ">=" => c(1).gt_eq(n(3)),
                o => panic!("op {o}"),
            },
            "in" => c(1).in_list(
                a[2].as_array().unwrap().iter().map(|x| lit(self.scalar(x.as_i64().unwrap()))).collect(),
                false,
            ),
            "between" => c(1).between(n(2), n(3)),
            "isnull" => c(1).is_null(),
            "notnull" => c(1).is_not_null(),
            "and" => self.expr(&a[1]).and(self.expr(&a[2])),
            "or" => self.expr(&a[1]).or(self.expr(&a[2])),
            "not" => Expr::Not(Box::new(self.expr(&a[1]))),
            o => panic!("unknown predicate {o}"),
        }
    }
    fn wparams(&self, mode: WriteMode, step: &Value) -> WriteParams {
        WriteParams {
            mode,
            max_rows_per_file: step.get("max_rows_per_file").and_then(|v| v.as_u64()).unwrap_or(1 << 20) as usize,
            max_rows_per_group: step.get("group").and_then(|v| v.as_u64()).unwrap_or(1024) as usize,
            data_storage_version: self
                .storage
                .as_ref()
                .map(|v| v.parse::<lance_file::version::LanceFileVersion>().expect("storage version")),
            ..Default::default()
        }
    }
}

fn res_of<T>(r: &lance::Result<T>) -> (String, String) {
    match r {
        Ok(_) => ("ok".into(), String::new()),
        Err(e) => (classify(e), err_text(e)),
    }
}

fn id_list(v: &Value) -> String {
    v.as_array().unwrap().iter().map(|x| x.as_i64().unwrap().to_string()).collect::<Vec<_>>().join(", ")
}

/// rows of the latest version: [id, model value, fragment, offset], read without index / statistics
async fn table_rows(ctx: &Ctx, d: &Dataset) -> lance::Result<Vec<(i64, Value, u64, u64)>> {
    let mut sc = d.scan();
    sc.project(&["id", "val"])?;
    sc.with_row_address();
    sc.use_stats(false);
    sc.use_scalar_index(false);
    sc.scan_in_order(true);
    let batches: Vec<RecordBatch> = sc.try_into_stream().await?.try_collect().await?;
    let mut out = vec![];
    for b in &batches {
        let id = b.column_by_name("id").unwrap().as_primitive::<Int32Type>().clone();
        let val = b.column_by_name("val").unwrap().clone();
        let addr = b.column_by_name("_rowaddr").unwrap().as_primitive::<UInt64Type>().clone();
        for i in 0..b.num_rows() {
            let a = addr.value(i);
            out.push((id.value(i) as i64, ctx.model_of(&val, i), a >> 32, a & 0xffff_ffff));
        }
    }
    Ok(out)
}

/// the index query an atom translates to, as the query parsers of the index types build it
enum IdxQuery {
    Sargable(SargableQuery),
    Bloom(BloomFilterQuery),
    Text(TextQuery),
}

fn atom_query(ctx: &Ctx, ity: &str, p: &Value) -> Option<IdxQuery> {
    let a = p.as_array().unwrap();
    let n = |i: usize| a[i].as_i64().unwrap();
    let head = a[0].as_str().unwrap();
    match ity {
        "zonemap" | "btree" | "bitmap" => {
            let q = match head {
                "cmp" => {
                    if n(3) == NULL {
                        return None;
                    }
                    let v = ctx.scalar(n(3));
                    match a[2].as_str().unwrap() {
                        "=" => SargableQuery::Equals(v),
                        "<" => SargableQuery::Range(Bound::Unbounded, Bound::Excluded(v)),
                        "<=" => SargableQuery::Range(Bound::Unbounded, Bound::Included(v)),
                        ">" => SargableQuery::Range(Bound::Excluded(v), Bound::Unbounded),
                        ">=" => SargableQuery::Range(Bound::Included(v), Bound::Unbounded),
                        _ => return None,
                    }
                }
                "in" => {
                    let vs: Vec<i64> = a[2].as_array().unwrap().iter().map(|x| x.as_i64().unwrap()).collect();
                    if vs.contains(&NULL) {
                        return None;
                    }
                    SargableQuery::IsIn(vs.into_iter().map(|v| ctx.scalar(v)).collect())
                }
                "between" => {
                    if n(2) == NULL || n(3) == NULL {
                        return None;
                    }
                    SargableQuery::Range(Bound::Included(ctx.scalar(n(2))), Bound::Included(ctx.scalar(n(3))))
                }
                "isnull" => SargableQuery::IsNull(),
                _ => return None,
            };
            Some(IdxQuery::Sargable(q))
        }
        "bloomfilter" => {
            let q = match head {
                "cmp" if a[2].as_str() == Some("=") => BloomFilterQuery::Equals(ctx.scalar(n(3))),
                "in" => BloomFilterQuery::IsIn(
                    a[2].as_array().unwrap().iter().map(|x| ctx.scalar(x.as_i64().unwrap())).collect(),
                ),
                "isnull" => BloomFilterQuery::IsNull(),
                _ => return None,
            };
            Some(IdxQuery::Bloom(q))
        }
        "ngram" => match head {
            "contains" => Some(IdxQuery::Text(TextQuery::StringContains(real_text(&a[2])?))),
            _ => None,
        },
        _ => None,
    }
}

async fn run_queries(ctx: &Ctx, step: &Value, w: &mut TraceWriter, scn: &Value, stepno: usize) -> lance::Result<()> {
    let d = Dataset::open(&ctx.uri).await?;
    let rows = table_rows(ctx, &d).await?;
    let indices = d.load_indices().await?;
    let idx_meta = indices.iter().find(|i| i.name == "val_idx").cloned();
    let ity = step.get("itype").and_then(|v| v.as_str()).unwrap_or("none").to_string();
    let zone = step.get("zone").and_then(|v| v.as_i64()).unwrap_or(0);
    let frags: Vec<u64> = d.get_fragments().iter().map(|f| f.id() as u64).collect();
    w.emit(json!({"ev": "table", "scn": scn, "i": stepno, "kind": format!("{:?}", ctx.kind).to_lowercase(),
        "rows": rows.iter().map(|(id, v, f, o)| json!([id, v, f, o])).collect::<Vec<_>>(),
        "zone": zone, "zoned": step.get("zoned").and_then(|v| v.as_bool()).unwrap_or(false),
        "itype": ity, "hist": step.get("hist").cloned().unwrap_or(json!("")),
        "frags": frags,
        "covered": idx_meta.as_ref().and_then(|m| m.fragment_bitmap.as_ref()).map(|b| b.iter().collect::<Vec<u32>>()).unwrap_or_default(),
        "legacy": matches!(ctx.storage.as_deref(), Some("legacy") | Some("0.1"))}));
    let index = match (&idx_meta, step.get("search").and_then(|v| v.as_bool()).unwrap_or(false)) {
        (Some(m), true) => Some(d.open_scalar_index("val", &m.uuid.to_string(), &NoOpMetricsCollector).await?),
        _ => None,
    };
    let default_variants = vec![json!({"name": "base", "use_scalar_index": false, "use_stats": false}), json!({"name": "idx"})];
    let variants = step["variants"].as_array().cloned().unwrap_or(default_variants);
    let use_expr = matches!(ctx.kind, Kind::Float32 | Kind::Float64) || step.get("via").and_then(|v| v.as_str()) == Some("expr");
    for (qi, p) in step["preds"].as_array().unwrap().iter().enumerate() {
        let mut results = vec![];
        for var in &variants {
            let r = async {
                let mut sc = d.scan();
                sc.project(&["id", "val"])?;
                if use_expr {
                    sc.filter_expr(ctx.expr(p));
                } else {
                    sc.filter(&ctx.sql(p))?;
                }
                if let Some(b) = var.get("use_stats").and_then(|v| v.as_bool()) {
                    sc.use_stats(b);
                }
                if let Some(b) = var.get("use_scalar_index").and_then(|v| v.as_bool()) {
                    sc.use_scalar_index(b);
                }
                if let Some(b) = var.get("batch_size").and_then(|v| v.as_u64()) {
                    sc.batch_size(b as usize);
                }
                if let Some(b) = var.get("prefilter").and_then(|v| v.as_bool()) {
                    sc.prefilter(b);
                }
                let plan = sc.explain_plan(false).await?;
                let mut nodes = vec![];
                for kw in ["ScalarIndexQuery", "MaterializeIndex", "LancePushdownScan", "LanceRead", "LanceScan", "FilterExec"] {
                    if plan.contains(kw) {
                        nodes.push(kw.to_string());
                    }
                }
                let batches: Vec<RecordBatch> = sc.try_into_stream().await?.try_collect().await?;
                let mut ids = vec![];
                let mut vals = vec![];
                for b in &batches {
                    let a = b.column_by_name("id").unwrap().as_primitive::<Int32Type>();
                    let v = b.column_by_name("val").unwrap();
                    for i in 0..b.num_rows() {
                        ids.push(a.value(i) as i64);
                        vals.push(ctx.model_of(v, i));
                    }
                }
                Ok::<(Vec<i64>, Vec<Value>, Vec<String>), lance::Error>((ids, vals, nodes))
            };
            // a panic inside lance is data: record it for this variant and go on with the next one
            let r = match std::panic::AssertUnwindSafe(r).catch_unwind().await {
                Ok(r) => r,
                Err(p) => {
                    let msg = p.downcast_ref::<String>().cloned().or_else(|| p.downcast_ref::<&str>().map(|s| s.to_string())).unwrap_or_default();
                    results.push(json!({"name": var["name"], "res": "panic", "text": msg.chars().take(300).collect::<String>(), "ids": [], "vals": [], "nodes": []}));
                    continue;
                }
            };
            match r {
                Ok((ids, vals, nodes)) => results.push(json!({"name": var["name"], "res": "ok", "ids": ids, "vals": vals, "nodes": nodes})),
                Err(e) => results.push(json!({"name": var["name"], "res": classify(&e), "text": err_text(&e), "ids": [], "vals": [], "nodes": []})),
            }
        }
        // direct search on the opened index
        let mut search = json!({"kind": "none", "ids": []});
        if let Some(index) = &index {
            if let Some(q) = atom_query(ctx, &ity, p) {
                let r = match &q {
                    IdxQuery::Sargable(q) => index.search(q, &NoOpMetricsCollector).await,
                    IdxQuery::Bloom(q) => index.search(q, &NoOpMetricsCollector).await,
                    IdxQuery::Text(q) => index.search(q, &NoOpMetricsCollector).await,
                };
                search = match r {
                    Ok(sr) => {
                        let (kind, map) = match &sr {
                            SearchResult::Exact(m) => ("exact", m),
                            SearchResult::AtMost(m) => ("atmost", m),
                            SearchResult::AtLeast(m) => ("atleast", m),
                        };
                        let ids: Vec<i64> = rows.iter().filter(|(_, _, f, o)| map.contains((f << 32) | o)).map(|r| r.0).collect();
                        json!({"kind": kind, "ids": ids})
                    }
                    Err(e) => json!({"kind": "error", "res": classify(&e), "text": err_text(&e), "ids": []}),
                };
            }
        }
        let mut ev = json!({"ev": "q", "scn": scn, "i": stepno, "qi": qi + 1, "pred": p, "results": results, "search": search,
            "sql": if use_expr { format!("{}", ctx.expr(p)) } else { ctx.sql(p) }});
        if let Some(m) = &ctx.mutate {
            mutate(ctx, m, &rows, zone, p, &mut ev);
        }
        w.emit(ev);
    }
    Ok(())
}

/// Emulated defects (the driver post-processes what the real code returned as a mutated lance would
/// have): used only to demonstrate that the judge notices.  /repo is never modified.
fn mutate(_ctx: &Ctx, name: &str, rows: &[(i64, Value, u64, u64)], zone: i64, p: &Value, ev: &mut Value) {
    let a = p.as_array().unwrap();
    let head = a[0].as_str().unwrap();
    let zone = zone.max(1) as u64;
    // zone statistics as the writer computes them (non-null min / max per (fragment, offset / zone))
    let mut zmin: HashMap<(u64, u64), i64> = HashMap::new();
    let mut zmax: HashMap<(u64, u64), i64> = HashMap::new();
    for (_, v, f, o) in rows {
        if let Some(v) = v.as_i64() {
            if v >= 0 {
                let k = (*f, *o / zone);
                zmin.entry(k).and_modify(|m| *m = (*m).min(v)).or_insert(v);
                zmax.entry(k).and_modify(|m| *m = (*m).max(v)).or_insert(v);
            }
        }
    }
    let drop: Vec<i64> = match name {
        // zone map: `target > zone.min` instead of `target >= zone.min` for equality
        "zonemap-eq-min-exclusive" if head == "cmp" && a[2].as_str() == Some("=") => {
            let t = a[3].as_i64().unwrap();
            rows.iter().filter(|(_, _, f, o)| zmin.get(&(*f, *o / zone)) == Some(&t)).map(|r| r.0).collect()
        }
        // statistics: `max > v` instead of `max >= v` for `col >= v`
        "stats-ge-max-exclusive" if head == "cmp" && a[2].as_str() == Some(">=") => {
            let t = a[3].as_i64().unwrap();
            rows.iter().filter(|(_, _, f, o)| zmax.get(&(*f, *o / zone)) == Some(&t)).map(|r| r.0).collect()
        }
        // bloom filter: a value is hashed with the wrong width in every second zone
        "bloom-false-negative" if head == "cmp" && a[2].as_str() == Some("=") => {
            rows.iter().filter(|(_, _, _, o)| (*o / zone) % 2 == 1).map(|r| r.0).collect()
        }
        // n-gram: the query is padded, so matches ending at the end of the string are lost
        "ngram-suffix-dropped" if head == "contains" => {
            let q = a[2].as_array().unwrap();
            rows.iter()
                .filter(|(_, v, _, _)| {
                    let s = v.as_array().unwrap();
                    q.len() >= 3 && s.len() >= q.len() && s[s.len() - q.len()..] == q[..]
                })
                .map(|r| r.0)
                .collect()
        }
        _ => vec![],
    };
    if drop.is_empty() {
        return;
    }
    let strip = |v: &mut Value| {
        let keep: Vec<bool> = v["ids"].as_array().map(|a| a.iter().map(|x| !drop.contains(&x.as_i64().unwrap())).collect()).unwrap_or_default();
        for key in ["ids", "vals"] {
            if let Some(xs) = v.get_mut(key).and_then(|x| x.as_array_mut()) {
                let mut i = 0;
                xs.retain(|_| {
                    i += 1;
                    keep[i - 1]
                });
            }
        }
    };
    for r in ev["results"].as_array_mut().unwrap() {
        if r["name"] != "base" {
            strip(r);
        }
    }
    strip(&mut ev["search"]);
}

async fn exec_step(ctx: &mut Ctx, step: &Value) -> (String, String) {
    let op = step["op"].as_str().unwrap();
    match op {
        "write" => {
            let rows = step["rows"].as_array().unwrap();
            let create = step.get("mode").and_then(|v| v.as_str()).unwrap_or("create") == "create";
            let b = ctx.batch(rows);
            let r = if create {
                let p = ctx.wparams(WriteMode::Create, step);
                InsertBuilder::new(ctx.uri.as_str()).with_params(&p).execute(vec![b]).await
            } else {
                let p = ctx.wparams(WriteMode::Append, step);
                InsertBuilder::new(Arc::new(ctx.ds.clone().unwrap())).with_params(&p).execute(vec![b]).await
            };
            let out = res_of(&r);
            if let Ok(d) = r {
                ctx.ds = Some(d);
            }
            out
        }
        "delete" => {
            let mut d = ctx.ds.clone().unwrap();
            let r = d.delete(&format!("id IN ({})", id_list(&step["ids"]))).await;
            let out = res_of(&r);
            ctx.ds = Some(d);
            out
        }
        "update" => {
            let d = Arc::new(ctx.ds.clone().unwrap());
            let r = async {
                UpdateBuilder::new(d)
                    .update_where(&format!("id IN ({})", id_list(&step["ids"])))?
                    .set("val", &ctx.sql_lit(step["to"].as_i64().unwrap()))?
                    .build()?
                    .execute()
                    .await
            }
            .await;
            let out = res_of(&r);
            if let Ok(u) = r {
                ctx.ds = Some((*u.new_dataset).clone());
            }
            out
        }
        "index" => {
            let mut d = ctx.ds.clone().unwrap();
            let (ity, bty) = match step["type"].as_str().unwrap() {
                "zonemap" => (IndexType::ZoneMap, BuiltinIndexType::ZoneMap),
                "bloomfilter" => (IndexType::BloomFilter, BuiltinIndexType::BloomFilter),
                "ngram" => (IndexType::NGram, BuiltinIndexType::NGram),
                "bitmap" => (IndexType::Bitmap, BuiltinIndexType::Bitmap),
                _ => (IndexType::BTree, BuiltinIndexType::BTree),
            };
            let mut params = ScalarIndexParams::for_builtin(bty);
            if let Some(p) = step.get("params") {
                params = params.with_params(p);
            }
            let r = d.create_index(&["val"], ity, Some("val_idx".into()), &params, true).await;
            let out = res_of(&r);
            ctx.ds = Some(d);
            out
        }
        "optimize" => {
            let mut d = ctx.ds.clone().unwrap();
            let r = d.optimize_indices(&Default::default()).await;
            let out = res_of(&r);
            ctx.ds = Some(d);
            out
        }
        "compact" => {
            let mut d = ctx.ds.clone().unwrap();
            let o = CompactionOptions {
                target_rows_per_fragment: step.get("target").and_then(|v| v.as_u64()).unwrap_or(1 << 20) as usize,
                num_threads: Some(1),
                ..Default::default()
            };
            let r = compact_files(&mut d, o, None).await;
            let out = res_of(&r);
            ctx.ds = Some(d);
            out
        }
        other => (format!("unknown-op:{other}"), String::new()),
    }
}

fn main() {
    let args = Args::from_env();
    let scn_file = args.get("scenarios").expect("--scenarios");
    let out = args.get("out").expect("--out");
    let scratch = PathBuf::from(args.get_or("scratch", "/verif/work/pruning-scratch"));
    let shard = args.num("shard", 0);
    let nshards = args.num("shards", 1);
    let mutate = args.get("mutate");
    std::fs::create_dir_all(&scratch).unwrap();
    let rt = tokio::runtime::Builder::new_multi_thread().worker_threads(2).enable_all().build().unwrap();
    let mut w = TraceWriter::create(&out);
    let text = std::fs::read_to_string(&scn_file).unwrap();
    let mut n = 0u64;
    for (li, line) in text.lines().enumerate() {
        if line.trim().is_empty() || (li as u64) % nshards != shard {
            continue;
        }
        let scn: Value = serde_json::from_str(line).unwrap();
        let id = scn["id"].clone();
        let dir = scratch.join(format!("s{}_{}", std::process::id(), li));
        let _ = std::fs::remove_dir_all(&dir);
        let mut ctx = Ctx {
            kind: Kind::parse(scn["kind"].as_str().unwrap_or("int32")),
            offset: scn.get("offset").and_then(|v| v.as_i64()).unwrap_or(0),
            storage: scn.get("storage").and_then(|v| v.as_str()).map(|s| s.to_string()),
            uri: dir.to_str().unwrap().to_string(),
            ds: None,
            mutate: mutate.clone(),
        };
        w.emit(json!({"ev": "reset", "scn": id, "kind": scn["kind"], "storage": scn.get("storage").cloned().unwrap_or(json!("default")),
                      "hist": scn.get("hist").cloned().unwrap_or(json!(""))}));
        for (i, step) in scn["steps"].as_array().unwrap().iter().enumerate() {
            if step["op"] == "queries" {
                let fut = std::panic::AssertUnwindSafe(run_queries(&ctx, step, &mut w, &id, i + 1)).catch_unwind();
                let (res, text) = match rt.block_on(fut) {
                    Ok(r) => res_of(&r),
                    Err(p) => (
                        "panic".to_string(),
                        p.downcast_ref::<String>().cloned().or_else(|| p.downcast_ref::<&str>().map(|s| s.to_string())).unwrap_or_default(),
                    ),
                };
                w.emit(json!({"ev": "qend", "scn": id, "i": i + 1, "res": res, "text": text.chars().take(300).collect::<String>(),
                              "npreds": step["preds"].as_array().map(|a| a.len()).unwrap_or(0)}));
                continue;
            }
            let fut = std::panic::AssertUnwindSafe(exec_step(&mut ctx, step)).catch_unwind();
            let (res, text) = match rt.block_on(fut) {
                Ok(x) => x,
                Err(p) => (
                    "panic".to_string(),
                    p.downcast_ref::<String>().cloned().or_else(|| p.downcast_ref::<&str>().map(|s| s.to_string())).unwrap_or_default(),
                ),
            };
            let mut st = step.clone();
            if let Some(o) = st.as_object_mut() {
                // the rows are re-read from the table before the queries; keep the event small
                if let Some(r) = o.get("rows").and_then(|r| r.as_array()).map(|r| r.len()) {
                    o.insert("rows".into(), json!(r));
                }
            }
            // fragments after the step: [id, physical rows, deleted rows]
            let fr: Vec<Value> = ctx
                .ds
                .as_ref()
                .map(|d| {
                    d.get_fragments()
                        .iter()
                        .map(|f| {
                            let m = f.metadata();
                            json!([m.id, m.physical_rows.map(|x| x as i64).unwrap_or(-1),
                                   m.deletion_file.as_ref().map(|x| x.num_deleted_rows.map(|n| n as i64).unwrap_or(1)).unwrap_or(0)])
                        })
                        .collect()
                })
                .unwrap_or_default();
            w.emit(json!({"ev": "step", "scn": id, "i": i + 1, "step": st, "res": res, "text": text.chars().take(300).collect::<String>(), "frags": fr}));
        }
        let _ = std::fs::remove_dir_all(&dir);
        n += 1;
    }
    let events = w.finish();
    println!("{{\"scenarios\":{n},\"events\":{events}}}");
}
