//! Driver for spec/LanceRefs.tla + spec/LanceRefsOps.tla (property C09).
//!
//! Two modes, both *record only* (Trace_LanceRefs.tla is the judge):
//!
//! `--mode names`: enumerates every token sequence up to `--maxlen` over `--alphabet` (a JSON list of
//!   tokens taken from the spec constants), concatenates the tokens and calls the real
//!   `check_valid_branch` / `check_valid_tag`.  One event per name:
//!       ["nm", idx, [tokens...], branch_result, tag_result]        result = "ok" | error class
//!
//! `--mode hist`: replays TLC-generated histories of branch / tag / shallow-clone operations on a
//!   real dataset in a scratch directory.  After every step it re-reads, through a fresh handle on the
//!   main table, every (location, version) it has ever seen and every tag, and lists the object tree.
//!   Locations are JSON arrays of tokens: ["main"], ["#c1"] (a shallow clone at <scratch>/c1) or the
//!   characters of a branch name (["a","/","b"]).
use std::collections::{BTreeMap, BTreeSet};
use std::path::{Path as FsPath, PathBuf};
use std::sync::Arc;

use futures::FutureExt;
use lance::dataset::cleanup::CleanupPolicy;
use lance::dataset::refs::{check_valid_branch, check_valid_tag, Ref};
use lance::dataset::{Dataset, DeleteBuilder, InsertBuilder, WriteMode, WriteParams};
use lance_verif_harness::tablekit::{batch, classify, err_text, project};
use lance_verif_harness::trace::{catch, Args, TraceWriter};
use serde_json::{json, Value};

// ------------------------------------------------------------------------------------------------
// names mode

fn names_mode(args: &Args) {
    let alphabet: Vec<String> = serde_json::from_str(&args.get("alphabet").expect("--alphabet")).unwrap();
    let maxlen = args.num("maxlen", 5) as usize;
    let shard = args.num("shard", 0);
    let shards = args.num("shards", 1);
    let mutate = args.get_or("mutate", "");
    let mut w = TraceWriter::create(&args.get("out").expect("--out"));
    let k = alphabet.len();
    w.emit(json!(["univ", alphabet, maxlen, shard, shards]));
    let mut idx: u64 = 0;
    for len in 0..=maxlen {
        let mut digits = vec![0usize; len];
        loop {
            if idx % shards == shard {
                let toks: Vec<&str> = digits.iter().map(|d| alphabet[*d].as_str()).collect();
                let name: String = toks.concat();
                let n1 = name.clone();
                let mut b = match catch(move || check_valid_branch(&n1)) {
                    Ok(Ok(())) => "ok".to_string(),
                    Ok(Err(e)) => classify(&e),
                    Err(_) => "panic".to_string(),
                };
                let n2 = name.clone();
                let mut t = match catch(move || check_valid_tag(&n2)) {
                    Ok(Ok(())) => "ok".to_string(),
                    Ok(Err(e)) => classify(&e),
                    Err(_) => "panic".to_string(),
                };
                // emulated mutations of the function under test (binding demonstration only)
                match mutate.as_str() {
                    "branch-accepts-dotlock" if name.ends_with(".lock") && !name.contains('/') && !name.contains("..") && !name.contains('@') && !name.contains('\\') => b = "ok".into(),
                    "tag-accepts-trailing-dot" if name.ends_with('.') && name.len() > 1 && !name.starts_with('.') && !name.contains("..") && !name.contains('/') && !name.contains('@') && !name.contains('\\') => t = "ok".into(),
                    "branch-rejects-nested" if name.matches('/').count() >= 2 => b = "invalidref".into(),
                    _ => {}
                }
                w.emit(json!(["nm", idx, toks, b, t]));
            }
            idx += 1;
            // next digit vector
            let mut p = len;
            loop {
                if p == 0 {
                    break;
                }
                p -= 1;
                digits[p] += 1;
                if digits[p] < k {
                    p = usize::MAX;
                    break;
                }
                digits[p] = 0;
            }
            if p != usize::MAX {
                break;
            }
        }
    }
    let n = w.finish();
    println!("{{\"events\":{n},\"universe\":{idx}}}");
}

// ------------------------------------------------------------------------------------------------
// hist mode

struct Ctx {
    dir: PathBuf,
    root: String,
    cols: Vec<String>,
    /// every (location, version) ever seen
    seen: BTreeSet<(Vec<String>, u64)>,
    clones: BTreeSet<String>,
    mutate: String,
}

fn toks(v: &Value) -> Vec<String> {
    v.as_array().map(|a| a.iter().map(|x| x.as_str().unwrap().to_string()).collect()).unwrap_or_default()
}
fn is_main(l: &[String]) -> bool {
    l.len() == 1 && l[0] == "main"
}
fn is_clone(l: &[String]) -> bool {
    l.len() == 1 && l[0].starts_with('#')
}
fn name_of(l: &[String]) -> String {
    l.concat()
}
fn chars_of(s: &str) -> Vec<String> {
    s.chars().map(|c| c.to_string()).collect()
}

impl Ctx {
    fn clone_uri(&self, l: &[String]) -> String {
        self.dir.join(&l[0][1..]).to_str().unwrap().to_string()
    }
    /// a handle positioned on the latest version of a location
    async fn handle(&self, l: &[String]) -> lance::Result<Dataset> {
        if is_clone(l) {
            Dataset::open(&self.clone_uri(l)).await
        } else {
            let m = Dataset::open(&self.root).await?;
            if is_main(l) {
                Ok(m)
            } else {
                m.checkout_branch(&name_of(l)).await
            }
        }
    }
    fn make_ref(&self, step: &Value) -> Ref {
        if let Some(t) = step.get("tag_ref").and_then(|v| v.as_str()) {
            return Ref::Tag(t.to_string());
        }
        let src = toks(&step["src"]);
        let v = step.get("v").and_then(|v| v.as_u64());
        if is_main(&src) {
            Ref::Version(None, v)
        } else {
            Ref::Version(Some(name_of(&src)), v)
        }
    }
}

fn rows_of_projection(p: &Value) -> Vec<Value> {
    let mut out = vec![];
    for f in p["frags"].as_array().unwrap() {
        for r in f["rows"].as_array().unwrap() {
            out.push(json!([r["c"]["id"], r["c"]["val"]]));
        }
    }
    out
}

async fn read_at(main: &lance::Result<Dataset>, ctx: &Ctx, l: &[String], v: u64) -> Value {
    let r: lance::Result<Value> = async {
        let d = if is_clone(l) {
            Dataset::open(&ctx.clone_uri(l)).await?.checkout_version(v).await?
        } else {
            let m = match main {
                Ok(m) => m,
                Err(_) => return Err(lance::Error::invalid_input("main table cannot be opened", snafu::location!())),
            };
            if is_main(l) {
                m.checkout_version(v).await?
            } else {
                m.checkout_version((name_of(l).as_str(), v)).await?
            }
        };
        let p = project(&d).await?;
        let br = d.manifest().branch.clone().map(|b| chars_of(&b)).unwrap_or_else(|| vec!["main".into()]);
        Ok(json!({"loc": l, "v": v, "res": "ok", "rows": rows_of_projection(&p), "mv": p["v"], "mbranch": br}))
    }
    .await;
    match r {
        Ok(v) => v,
        Err(e) => json!({"loc": l, "v": v, "res": classify(&e), "rows": [[-1, -1]], "mv": -1, "mbranch": ["?"], "text": err_text(&e)}),
    }
}

fn walk(base: &FsPath, rel: &mut Vec<String>, out: &mut BTreeMap<(Vec<String>, String), Vec<String>>) {
    let Ok(rd) = std::fs::read_dir(base) else { return };
    for e in rd.flatten() {
        let name = e.file_name().to_string_lossy().to_string();
        let p = e.path();
        if p.is_dir() {
            rel.push(name);
            walk(&p, rel, out);
            rel.pop();
        } else {
            let ext = name.rsplit_once('.').map(|x| x.1.to_string()).unwrap_or_default();
            out.entry((rel.clone(), ext)).or_default().push(name);
        }
    }
}

/// Object tree of the dataset root and of every clone: one entry per (directory, extension) with the
/// number of files; uuid-named directories (indices) and uuid file names are abstracted to the count;
/// manifests and ref files keep their (decoded) names.
fn tree_listing(ctx: &Ctx) -> Vec<Value> {
    let mut all = vec![];
    let mut roots: Vec<(Vec<String>, PathBuf)> = vec![(vec![], PathBuf::from(&ctx.root))];
    for c in &ctx.clones {
        roots.push((vec![format!("#{c}")], ctx.dir.join(c)));
    }
    for (prefix, path) in roots {
        let mut m = BTreeMap::new();
        walk(&path, &mut vec![], &mut m);
        for ((dir, ext), mut files) in m {
            files.sort();
            let mut d = prefix.clone();
            d.extend(dir.iter().cloned());
            let last = dir.last().map(|s| s.as_str()).unwrap_or("");
            let mut names: Vec<Value> = vec![];
            if last == "_versions" && ext == "manifest" {
                let mut vs: Vec<u64> = files
                    .iter()
                    .filter_map(|f| f.strip_suffix(".manifest").and_then(|s| s.parse::<u64>().ok()))
                    .map(|n| if n > (1u64 << 62) { u64::MAX - n } else { n })
                    .collect();
                vs.sort();
                names = vs.into_iter().map(|v| json!(v.to_string())).collect();
            } else if dir.len() >= 2 && dir[dir.len() - 2] == "_refs" {
                names = files
                    .iter()
                    .map(|f| json!(f.strip_suffix(".json").unwrap_or(f).replace("%2F", "/")))
                    .collect();
            }
            all.push(json!({"dir": d, "ext": ext, "n": files.len(), "names": names}));
        }
    }
    all
}

fn res_of<T>(r: &lance::Result<T>) -> (String, String) {
    match r {
        Ok(_) => ("ok".into(), String::new()),
        Err(e) => (classify(e), err_text(e)),
    }
}

async fn exec_step(ctx: &mut Ctx, step: &Value) -> (String, String) {
    let op = step["op"].as_str().unwrap();
    let via = if step.get("via").is_some() { toks(&step["via"]) } else { vec!["main".to_string()] };
    match op {
        "init" => {
            // the main table: one fragment with rows 1..=3, then (optionally) further single-row versions
            let rows: Vec<Vec<i64>> = (1..=3).map(|i| vec![i, i + 100]).collect();
            let p = WriteParams { mode: WriteMode::Create, ..Default::default() };
            let r = InsertBuilder::new(ctx.root.as_str()).with_params(&p).execute(vec![batch(&ctx.cols, &rows)]).await;
            res_of(&r)
        }
        "append" => {
            let on = toks(&step["on"]);
            let row = step["row"].as_i64().unwrap();
            let r: lance::Result<()> = async {
                let d = Arc::new(ctx.handle(&on).await?);
                let p = WriteParams { mode: WriteMode::Append, ..Default::default() };
                InsertBuilder::new(d).with_params(&p).execute(vec![batch(&ctx.cols, &[vec![row, row + 100]])]).await?;
                if ctx.mutate == "branch-append-leaks-to-main" && !is_main(&on) && !is_clone(&on) {
                    // emulates a branch write that commits to the root location as well
                    let m = Arc::new(Dataset::open(&ctx.root).await?);
                    InsertBuilder::new(m).with_params(&p).execute(vec![batch(&ctx.cols, &[vec![row, row + 100]])]).await?;
                }
                Ok(())
            }
            .await;
            res_of(&r)
        }
        "delete" => {
            let on = toks(&step["on"]);
            let row = step["row"].as_i64().unwrap();
            let r: lance::Result<()> = async {
                let d = Arc::new(ctx.handle(&on).await?);
                DeleteBuilder::new(d, format!("id = {row}")).execute().await?;
                Ok(())
            }
            .await;
            res_of(&r)
        }
        "cleanup" => {
            let on = toks(&step["on"]);
            let r: lance::Result<()> = async {
                let d = ctx.handle(&on).await?;
                let latest = d.version().version;
                let policy = CleanupPolicy {
                    before_timestamp: None,
                    before_version: Some(latest),
                    delete_unverified: false,
                    error_if_tagged_old_versions: false,
                };
                d.cleanup_with_policy(policy).await?;
                Ok(())
            }
            .await;
            res_of(&r)
        }
        "create_branch" => {
            let name = name_of(&toks(&step["name"]));
            let r: lance::Result<()> = async {
                let mut d = ctx.handle(&via).await?;
                let rf = ctx.make_ref(step);
                d.create_branch(&name, rf, None).await?;
                Ok(())
            }
            .await;
            res_of(&r)
        }
        "delete_branch" => {
            let name = name_of(&toks(&step["name"]));
            let force = step.get("force").and_then(|v| v.as_bool()).unwrap_or(false);
            let r: lance::Result<()> = async {
                let mut d = ctx.handle(&via).await?;
                let r = if force {
                    d.force_delete_branch(&name).await
                } else {
                    d.delete_branch(&name).await
                };
                if ctx.mutate == "delete-removes-first-segment" {
                    // emulates a get_cleanup_path that always returns tree/<first segment>
                    let first = name.split('/').next().unwrap();
                    let _ = std::fs::remove_dir_all(FsPath::new(&ctx.root).join("tree").join(first));
                }
                r
            }
            .await;
            res_of(&r)
        }
        "create_tag" | "update_tag" => {
            let tag = step["tag"].as_str().unwrap();
            let src = toks(&step["src"]);
            let v = step["v"].as_u64().unwrap();
            let r: lance::Result<()> = async {
                let d = ctx.handle(&via).await?;
                let b = if is_main(&src) { None } else { Some(name_of(&src)) };
                if op == "create_tag" {
                    d.tags().create_on_branch(tag, v, b.as_deref()).await?;
                } else {
                    d.tags().update_on_branch(tag, v, b.as_deref()).await?;
                }
                if ctx.mutate == "tag-off-by-one" && v > 1 {
                    d.tags().update_on_branch(tag, v - 1, b.as_deref()).await?;
                }
                Ok(())
            }
            .await;
            res_of(&r)
        }
        "delete_tag" => {
            let tag = step["tag"].as_str().unwrap();
            let r: lance::Result<()> = async {
                let d = ctx.handle(&via).await?;
                d.tags().delete(tag).await
            }
            .await;
            res_of(&r)
        }
        "clone" => {
            let c = toks(&step["clone"]);
            let r: lance::Result<()> = async {
                let mut d = ctx.handle(&via).await?;
                let rf = ctx.make_ref(step);
                let target = ctx.clone_uri(&c);
                d.shallow_clone(&target, rf, None).await?;
                Ok(())
            }
            .await;
            if r.is_ok() {
                ctx.clones.insert(c[0][1..].to_string());
            }
            res_of(&r)
        }
        other => (format!("unknown-op:{other}"), String::new()),
    }
}

async fn observe(ctx: &mut Ctx) -> Value {
    let main = Dataset::open(&ctx.root).await;
    // universe of locations: main, listed branches, clones, plus everything seen before
    let mut locs: BTreeSet<Vec<String>> = ctx.seen.iter().map(|x| x.0.clone()).collect();
    locs.insert(vec!["main".into()]);
    let mut branches = vec![];
    let mut blist_res = "ok".to_string();
    if let Ok(m) = &main {
        match m.list_branches().await {
            Ok(bs) => {
                let mut names: Vec<&String> = bs.keys().collect();
                names.sort();
                for n in names {
                    let c = &bs[n];
                    locs.insert(chars_of(n));
                    branches.push(json!({"name": chars_of(n),
                        "parent": c.parent_branch.as_ref().map(|b| chars_of(b)).unwrap_or_else(|| vec!["main".into()]),
                        "pv": c.parent_version}));
                }
            }
            Err(e) => blist_res = classify(&e),
        }
    }
    for c in &ctx.clones {
        locs.insert(vec![format!("#{c}")]);
    }
    // versions of every location
    let mut latest = vec![];
    for l in &locs {
        let h = ctx.handle(l).await;
        match h {
            Ok(d) => {
                let lv = d.version().version;
                match d.versions().await {
                    Ok(vs) => {
                        for v in vs {
                            ctx.seen.insert((l.clone(), v.version));
                        }
                        latest.push(json!({"loc": l, "res": "ok", "v": lv}));
                    }
                    Err(e) => latest.push(json!({"loc": l, "res": classify(&e), "v": -1})),
                }
            }
            Err(e) => latest.push(json!({"loc": l, "res": classify(&e), "v": -1})),
        }
    }
    let mut reads = vec![];
    let seen: Vec<(Vec<String>, u64)> = ctx.seen.iter().cloned().collect();
    for (l, v) in seen {
        reads.push(read_at(&main, ctx, &l, v).await);
    }
    // tags: metadata and what a checkout by tag name reads
    let mut tags = vec![];
    let mut tlist_res = "ok".to_string();
    if let Ok(m) = &main {
        match m.tags().list().await {
            Ok(ts) => {
                let mut names: Vec<&String> = ts.keys().collect();
                names.sort();
                for n in names {
                    let c = &ts[n];
                    let tl = c.branch.as_ref().map(|b| chars_of(b)).unwrap_or_else(|| vec!["main".into()]);
                    let r: lance::Result<Value> = async {
                        let d = m.checkout_version(n.as_str()).await?;
                        let p = project(&d).await?;
                        let br = d.manifest().branch.clone().map(|b| chars_of(&b)).unwrap_or_else(|| vec!["main".into()]);
                        Ok(json!({"res": "ok", "rows": rows_of_projection(&p), "mv": p["v"], "mbranch": br}))
                    }
                    .await;
                    let rd = match r {
                        Ok(v) => v,
                        Err(e) => json!({"res": classify(&e), "rows": [[-1, -1]], "mv": -1, "mbranch": ["?"], "text": err_text(&e)}),
                    };
                    tags.push(json!({"tag": n, "loc": tl, "v": c.version, "read": rd}));
                }
            }
            Err(e) => tlist_res = classify(&e),
        }
    }
    json!({"main_res": res_of(&main).0, "branches": branches, "blist_res": blist_res, "latest": latest,
           "reads": reads, "tags": tags, "tlist_res": tlist_res, "tree": tree_listing(ctx)})
}

fn hist_mode(args: &Args) {
    let scn_file = args.get("scenarios").expect("--scenarios");
    let out = args.get("out").expect("--out");
    let scratch = PathBuf::from(args.get_or("scratch", "/verif/work/refs-scratch"));
    let shard = args.num("shard", 0);
    let nshards = args.num("shards", 1);
    std::fs::create_dir_all(&scratch).unwrap();
    let rt = tokio::runtime::Builder::new_multi_thread().worker_threads(2).enable_all().build().unwrap();
    let mut w = TraceWriter::create(&out);
    let text = std::fs::read_to_string(&scn_file).unwrap();
    let mut n = 0u64;
    for (li, line) in text.lines().enumerate() {
        if line.trim().is_empty() || (li as u64) % nshards != shard {
            continue;
        }
        let scn: Value = serde_json::from_str(line).unwrap();
        let id = scn["id"].clone();
        let dir = scratch.join(format!("s{}_{}", std::process::id(), li));
        let _ = std::fs::remove_dir_all(&dir);
        std::fs::create_dir_all(&dir).unwrap();
        let mut ctx = Ctx {
            root: dir.join("root").to_str().unwrap().to_string(),
            dir: dir.clone(),
            cols: vec!["id".into(), "val".into()],
            seen: BTreeSet::new(),
            clones: BTreeSet::new(),
            mutate: args.get_or("mutate", ""),
        };
        w.emit(json!({"ev": "reset", "scn": id}));
        for (i, step) in scn["steps"].as_array().unwrap().iter().enumerate() {
            let fut = std::panic::AssertUnwindSafe(exec_step(&mut ctx, step)).catch_unwind();
            let (res, text) = match rt.block_on(fut) {
                Ok(x) => x,
                Err(p) => {
                    let msg = p
                        .downcast_ref::<String>()
                        .cloned()
                        .or_else(|| p.downcast_ref::<&str>().map(|s| s.to_string()))
                        .unwrap_or_default();
                    ("panic".to_string(), msg.chars().take(300).collect())
                }
            };
            let obs = rt.block_on(observe(&mut ctx));
            w.emit(json!({"ev": "step", "scn": id, "i": i + 1, "step": step, "res": res, "text": text, "obs": obs}));
        }
        if !args.flag("keep") {
            let _ = std::fs::remove_dir_all(&dir);
        }
        n += 1;
    }
    let events = w.finish();
    println!("{{\"scenarios\":{n},\"events\":{events}}}");
}

fn main() {
    let args = Args::from_env();
    match args.get_or("mode", "hist").as_str() {
        "names" => names_mode(&args),
        _ => hist_mode(&args),
    }
}
