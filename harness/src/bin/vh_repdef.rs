//! Driver for spec/RepDef.tla (property C27).
//!
//! Reads scenarios printed by TLC (`<<"SCN", json>>` of RepDef.tla: one or two batches of a nested
//! column given layer by layer as validity bits and list lengths), builds the corresponding Arrow
//! buffers, calls the real `RepDefBuilder ... serialize`, the control-word iterator / parser, the
//! `RepDefSlicer`, and `RepDefUnraveler` / `CompositeRepDefUnraveler`, and records what they return.
//! In `--mode file` it writes the column as a one-column Lance 2.1 file (in-memory store) and reads
//! row ranges / row index lists back through the structural decoder (repetition index, map_range).
//! It never compares anything itself: Trace_RepDef.tla is the judge.
use std::sync::Arc;

use arrow_array::cast::AsArray;
use arrow_array::types::Int32Type;
use arrow_array::{
    Array, ArrayRef, Int32Array, LargeListArray, ListArray, RecordBatch, StructArray, UInt32Array,
};
use arrow_buffer::{BooleanBuffer, NullBuffer, OffsetBuffer, ScalarBuffer};
use arrow_schema::{DataType, Field, Fields, Schema as ArrowSchema};
use futures::{FutureExt, TryStreamExt};
use lance_core::cache::LanceCache;
use lance_encoding::constants::{
    STRUCTURAL_ENCODING_FULLZIP, STRUCTURAL_ENCODING_META_KEY, STRUCTURAL_ENCODING_MINIBLOCK,
};
use lance_encoding::decoder::{DecoderPlugins, FilterExpression};
use lance_encoding::version::LanceFileVersion;
use lance_file::reader::{FileReader, FileReaderOptions};
use lance_file::writer::{FileWriter, FileWriterOptions};
use lance_io::object_store::ObjectStore;
use lance_io::scheduler::{ScanScheduler, SchedulerConfig};
use lance_io::utils::CachedFileSize;
use lance_io::ReadBatchParams;
use object_store::path::Path;
use lance_encoding::repdef::{
    build_control_word_iterator, CompositeRepDefUnraveler, ControlWordParser,
    DefinitionInterpretation, RepDefBuilder, RepDefUnraveler, SerializedRepDefs,
};
use lance_verif_harness::trace::{catch, Args, TraceWriter};
use serde_json::{json, Value};

#[derive(Clone, Debug)]
struct Col {
    kinds: Vec<String>,
    hasv: Vec<bool>,
    v: Vec<Vec<bool>>,
    lens: Vec<Vec<i64>>,
}

impl Col {
    fn parse(v: &Value) -> Col {
        let arr = |x: &Value| x.as_array().cloned().unwrap_or_default();
        Col {
            kinds: arr(&v["kinds"])
                .iter()
                .map(|k| k.as_str().unwrap().to_string())
                .collect(),
            hasv: arr(&v["hasv"]).iter().map(|b| b.as_bool().unwrap()).collect(),
            v: arr(&v["v"])
                .iter()
                .map(|l| arr(l).iter().map(|b| b.as_i64().unwrap() == 1).collect())
                .collect(),
            lens: arr(&v["lens"])
                .iter()
                .map(|l| arr(l).iter().map(|b| b.as_i64().unwrap()).collect())
                .collect(),
        }
    }
    fn nl(&self) -> usize {
        self.kinds.len()
    }
    fn leaf_slots(&self) -> usize {
        self.v[self.nl() - 1].len()
    }
}

fn nulls(bits: &[bool]) -> NullBuffer {
    NullBuffer::new(BooleanBuffer::from(bits.to_vec()))
}

fn meaning_name(m: &DefinitionInterpretation) -> &'static str {
    match m {
        DefinitionInterpretation::AllValidItem => "AVI",
        DefinitionInterpretation::AllValidList => "AVL",
        DefinitionInterpretation::NullableItem => "NI",
        DefinitionInterpretation::NullableList => "NL",
        DefinitionInterpretation::EmptyableList => "EL",
        DefinitionInterpretation::NullableAndEmptyableList => "NEL",
    }
}

/// Options that do not change the logical value (chosen per scenario from the seed)
#[derive(Clone, Copy)]
struct Variant {
    large: bool,   // i64 offsets (LargeList) instead of i32
    base: i64,     // first offset (sliced list arrays do not start at 0)
    mutate: Mutation,
}

#[derive(Clone, Copy, PartialEq)]
enum Mutation {
    None,
    /// emulate a builder that confuses the null-list and empty-list levels
    SwapNullEmpty,
    /// emulate an unraveler that reports the list validity inverted for the last list
    DropLastOffset,
    /// emulate losing the innermost validity
    ItemAllValid,
}

/// Feed one batch into a fresh RepDefBuilder the way the structural encoders do.
/// Returns the builder and, per list layer, the `has_garbage_values` answer of add_offsets.
fn feed(col: &Col, dim: usize, var: Variant) -> (RepDefBuilder, Vec<bool>) {
    let mut b = RepDefBuilder::default();
    let mut garbage = vec![];
    for k in 0..col.nl() {
        let n = col.v[k].len();
        let validity = if col.hasv[k] {
            Some(nulls(&col.v[k]))
        } else {
            None
        };
        match col.kinds[k].as_str() {
            "L" => {
                let mut offs = Vec::with_capacity(n + 1);
                let mut cur = var.base;
                offs.push(cur);
                for l in &col.lens[k] {
                    cur += *l;
                    offs.push(cur);
                }
                let g = if var.large {
                    b.add_offsets(OffsetBuffer::<i64>::new(ScalarBuffer::from(offs)), validity)
                } else {
                    let offs: Vec<i32> = offs.iter().map(|o| *o as i32).collect();
                    b.add_offsets(OffsetBuffer::<i32>::new(ScalarBuffer::from(offs)), validity)
                };
                garbage.push(g);
            }
            "F" => b.add_fsl(validity, dim, n),
            _ => match validity {
                Some(v) => b.add_validity_bitmap(v),
                None => b.add_no_null(n),
            },
        }
    }
    (b, garbage)
}

fn u16s(v: &Option<Arc<[u16]>>) -> Value {
    match v {
        Some(l) => json!(l.iter().map(|x| *x as u64).collect::<Vec<_>>()),
        None => json!([]),
    }
}

struct Page {
    ser: SerializedRepDefs,
    leaf_slots: usize,
}

fn bool01(b: bool) -> u8 {
    if b {
        1
    } else {
        0
    }
}

/// serialize one page (1..n batches) and record everything observable about the result
fn serialize_page(batches: &[&Col], dim: usize, var: Variant) -> (Value, Option<Page>) {
    let cols: Vec<Col> = batches.iter().map(|c| (*c).clone()).collect();
    let r = catch(move || {
        let mut builders = vec![];
        let mut garbage = vec![];
        for c in &cols {
            let (b, g) = feed(c, dim, var);
            builders.push(b);
            garbage.push(g);
        }
        (RepDefBuilder::serialize(builders), garbage)
    });
    match r {
        Err(p) => (
            json!({"panic": p, "hasrep": false, "rep": [], "hasdef": false, "def": [], "mean": [], "mvl": -1, "garbage": []}),
            None,
        ),
        Ok((mut ser, garbage)) => {
            if var.mutate == Mutation::SwapNullEmpty {
                if let Some(def) = ser.definition_levels.as_ref() {
                    // swap the two levels of the first NullableAndEmptyableList layer
                    let mut lvl = 0u16;
                    let mut target = None;
                    for m in &ser.def_meaning {
                        if *m == DefinitionInterpretation::NullableAndEmptyableList {
                            target = Some((lvl + 1, lvl + 2));
                            break;
                        }
                        lvl += m.num_def_levels();
                    }
                    if let Some((a, b)) = target {
                        let swapped: Vec<u16> = def
                            .iter()
                            .map(|d| if *d == a { b } else if *d == b { a } else { *d })
                            .collect();
                        ser.definition_levels = Some(Arc::from(swapped));
                    }
                }
            }
            let leaf_slots: usize = batches.iter().map(|c| c.leaf_slots()).sum();
            let v = json!({
                "panic": "",
                "hasrep": ser.repetition_levels.is_some(),
                "rep": u16s(&ser.repetition_levels),
                "hasdef": ser.definition_levels.is_some(),
                "def": u16s(&ser.definition_levels),
                "mean": ser.def_meaning.iter().map(meaning_name).collect::<Vec<_>>(),
                "mvl": ser.max_visible_level.map(|x| x as i64).unwrap_or(-1),
                "garbage": garbage.iter().map(|g| g.iter().map(|b| bool01(*b)).collect::<Vec<_>>()).collect::<Vec<_>>(),
            });
            (v, Some(Page { ser, leaf_slots }))
        }
    }
}

/// control words (full-zip layout): descriptors, bytes -> parser round trip
fn control_words(p: &Page) -> Value {
    let rep = p.ser.repetition_levels.clone();
    let def = p.ser.definition_levels.clone();
    let meaning = p.ser.def_meaning.clone();
    let mvl = p.ser.max_visible_level;
    let leaf = p.leaf_slots;
    let r = catch(move || {
        let max_rep = meaning.iter().filter(|m| m.is_list()).count() as u16;
        let max_def = meaning.iter().map(|m| m.num_def_levels()).sum::<u16>();
        let max_visible = mvl.unwrap_or(u16::MAX);
        let n = rep.as_ref().map(|r| r.len()).unwrap_or(leaf);
        let mut it = build_control_word_iterator(
            rep.as_deref(),
            max_rep,
            def.as_deref(),
            max_def,
            max_visible,
            n,
        );
        let bpw = it.bytes_per_word();
        let (bits_rep, bits_def) = (it.bits_rep(), it.bits_def());
        let mut buf = vec![];
        let (mut new_row, mut visible, mut valid) = (vec![], vec![], vec![]);
        let mut words = 0usize;
        while let Some(d) = it.append_next(&mut buf) {
            new_row.push(bool01(d.is_new_row));
            visible.push(bool01(d.is_visible));
            valid.push(bool01(d.is_valid_item));
            words += 1;
            if words > n + 4 {
                break;
            }
        }
        let parser = ControlWordParser::new(bits_rep, bits_def);
        let (mut prep, mut pdef) = (vec![], vec![]);
        let (mut pnew, mut pvis) = (vec![], vec![]);
        if bpw > 0 {
            for w in buf.chunks_exact(bpw) {
                parser.parse(w, &mut prep, &mut pdef);
                let d = parser.parse_desc(w, max_rep, max_visible);
                pnew.push(bool01(d.is_new_row));
                pvis.push(bool01(d.is_visible));
            }
        }
        json!({"panic": "", "n": n, "words": words, "bpw": bpw, "new_row": new_row, "visible": visible, "valid": valid,
               "prep": prep, "pdef": pdef, "pnew": pnew, "pvis": pvis, "has_rep": bool01(parser.has_rep())})
    });
    r.unwrap_or_else(|p| json!({"panic": p, "n": 0, "words": 0, "bpw": 0, "new_row": [], "visible": [], "valid": [],
                                 "prep": [], "pdef": [], "pnew": [], "pvis": [], "has_rep": 0}))
}

/// RepDefSlicer (mini-block chunking): cut the levels into pieces of `step` items each
fn slices(p: &Page, step: usize) -> Value {
    let ser = SerializedRepDefs::new(
        p.ser.repetition_levels.as_ref().map(|l| l.to_vec()),
        p.ser.definition_levels.as_ref().map(|l| l.to_vec()),
        p.ser.def_meaning.clone(),
    );
    let leaf = p.leaf_slots;
    let r = catch(move || {
        let mut out = vec![];
        for which in 0..2 {
            let slicer = if which == 0 {
                ser.rep_slicer()
            } else {
                ser.def_slicer()
            };
            let Some(mut s) = slicer else {
                out.push(json!([]));
                continue;
            };
            let mut cuts = vec![];
            let mut left = leaf;
            while left > step {
                cuts.push((s.slice_next(step).len() / 2) as u64);
                left -= step;
            }
            cuts.push((s.slice_rest().len() / 2) as u64);
            out.push(json!(cuts));
        }
        json!({"panic": "", "step": step, "rep": out[0], "def": out[1]})
    });
    r.unwrap_or_else(|p| json!({"panic": p, "step": step, "rep": [], "def": []}))
}

/// Unravel pages together the way the decoders do (inner-most layer first)
fn unravel(pages: &[Page], shape: &Col, counts: &[usize], dim: usize, var: Variant) -> Value {
    let kinds = shape.kinds.clone();
    let counts = counts.to_vec();
    let parts: Vec<_> = pages
        .iter()
        .map(|p| {
            (
                p.ser.repetition_levels.as_ref().map(|l| l.to_vec()),
                p.ser.definition_levels.as_ref().map(|l| l.to_vec()),
                p.ser.def_meaning.clone(),
                p.leaf_slots as u64,
            )
        })
        .collect();
    let n = kinds.len();
    let progress = std::sync::Arc::new(std::sync::Mutex::new(vec![Value::Null; n]));
    let prog2 = progress.clone();
    let r = catch(move || {
        let unravelers = parts
            .into_iter()
            .map(|(rep, def, meaning, items)| RepDefUnraveler::new(rep, def, meaning.into(), items))
            .collect::<Vec<_>>();
        let mut comp = CompositeRepDefUnraveler::new(unravelers);
        for k in (0..n).rev() {
            let layer = match kinds[k].as_str() {
                "L" => {
                    let (mut off, val): (Vec<i64>, Option<NullBuffer>) = if var.large {
                        let (o, v) = comp.unravel_offsets::<i64>().unwrap();
                        (o.iter().copied().collect(), v)
                    } else {
                        let (o, v) = comp.unravel_offsets::<i32>().unwrap();
                        (o.iter().map(|x| *x as i64).collect(), v)
                    };
                    if var.mutate == Mutation::DropLastOffset && off.len() > 2 {
                        let l = off.len();
                        off[l - 2] = off[l - 1];
                    }
                    json!({"hasv": val.is_some(),
                           "v": val.map(|v| v.iter().map(bool01).collect::<Vec<_>>()).unwrap_or_default(),
                           "off": off})
                }
                kind => {
                    let mut val = if kind == "F" {
                        comp.unravel_fsl_validity(counts[k], dim)
                    } else {
                        comp.unravel_validity(counts[k])
                    };
                    if var.mutate == Mutation::ItemAllValid && k == n - 1 {
                        val = None;
                    }
                    json!({"hasv": val.is_some(),
                           "v": val.map(|v| v.iter().map(bool01).collect::<Vec<_>>()).unwrap_or_default(),
                           "off": []})
                }
            };
            prog2.lock().unwrap()[k] = layer;
        }
    });
    let layers = progress.lock().unwrap().clone();
    let done: Vec<Value> = layers
        .into_iter()
        .map(|l| if l.is_null() { json!({"hasv": false, "v": [], "off": [], "missing": true}) } else { l })
        .collect();
    json!({"panic": r.err().unwrap_or_default(), "layers": done})
}

fn run_api(scn: &Value, id: u64, dim: usize, var: Variant) -> Value {
    let how = scn["how"].as_str().unwrap().to_string();
    let parts: Vec<Col> = scn["parts"].as_array().unwrap().iter().map(Col::parse).collect();
    // pages: "one" -> [part], "concat" -> [part1 + part2 serialised together], "pages" -> [part1], [part2]
    let groups: Vec<Vec<&Col>> = match how.as_str() {
        "concat" => vec![parts.iter().collect()],
        _ => parts.iter().map(|p| vec![p]).collect(),
    };
    let mut sers = vec![];
    let mut pages = vec![];
    let mut cws = vec![];
    let mut sl = vec![];
    let mut ok = true;
    for g in &groups {
        let (v, p) = serialize_page(g, dim, var);
        sers.push(v);
        match p {
            Some(p) => {
                cws.push(control_words(&p));
                sl.push(json!([slices(&p, 1), slices(&p, 2)]));
                pages.push(p);
            }
            None => ok = false,
        }
    }
    let n = parts[0].nl();
    let counts: Vec<usize> = (0..n).map(|k| parts.iter().map(|p| p.v[k].len()).sum()).collect();
    let unr = if ok {
        unravel(&pages, &parts[0], &counts, dim, var)
    } else {
        json!({"panic": "not-run", "layers": []})
    };
    json!({"ev": "api", "id": id, "how": how, "parts": scn["parts"], "large": var.large, "base": var.base,
           "ser": sers, "cw": cws, "slice": sl, "unr": unr})
}

// ------------------------------------------------------------------------------------------------
// file mode: write the column as a one-column Lance 2.1 file, read row ranges / row lists back
// ------------------------------------------------------------------------------------------------

/// Arrow data type of layers k.. of the column
fn data_type(col: &Col, k: usize, var: Variant, leaf_meta: &std::collections::HashMap<String, String>) -> DataType {
    match col.kinds[k].as_str() {
        "I" => DataType::Int32,
        "S" => DataType::Struct(Fields::from(vec![child_field(col, k + 1, var, leaf_meta, "c")])),
        "L" => {
            let f = Arc::new(child_field(col, k + 1, var, leaf_meta, "item"));
            if var.large {
                DataType::LargeList(f)
            } else {
                DataType::List(f)
            }
        }
        k => panic!("kind {k} not supported in file mode"),
    }
}

fn child_field(col: &Col, k: usize, var: Variant, leaf_meta: &std::collections::HashMap<String, String>, name: &str) -> Field {
    let f = Field::new(name, data_type(col, k, var, leaf_meta), true);
    if col.kinds[k] == "I" {
        f.with_metadata(leaf_meta.clone())
    } else {
        f
    }
}

/// The Arrow array of layer k for the given slots (Some(j): slot j of the scenario, None: a
/// garbage slot hidden behind a null list).
fn build_array(col: &Col, k: usize, slots: &[Option<usize>], var: Variant, leaf_meta: &std::collections::HashMap<String, String>, id_base: i32) -> ArrayRef {
    let bits: Vec<bool> = slots
        .iter()
        .map(|s| match s {
            Some(j) => col.v[k][*j],
            None => true,
        })
        .collect();
    let validity = if col.hasv[k] { Some(nulls(&bits)) } else { None };
    match col.kinds[k].as_str() {
        "I" => {
            let vals: Vec<i32> = slots
                .iter()
                .map(|s| match s {
                    Some(j) => id_base + *j as i32,
                    None => -7,
                })
                .collect();
            Arc::new(Int32Array::new(ScalarBuffer::from(vals), validity))
        }
        "S" => {
            let child = build_array(col, k + 1, slots, var, leaf_meta, id_base);
            let fields = Fields::from(vec![child_field(col, k + 1, var, leaf_meta, "c")]);
            Arc::new(StructArray::new(fields, vec![child], validity))
        }
        "L" => {
            // child slot numbers: children of valid lists are numbered consecutively
            let mut first_child = vec![0usize; col.v[k].len() + 1];
            for j in 0..col.v[k].len() {
                first_child[j + 1] = first_child[j] + if col.v[k][j] { col.lens[k][j] as usize } else { 0 };
            }
            let mut child_slots: Vec<Option<usize>> = vec![];
            let mut offs: Vec<i64> = vec![0];
            for s in slots {
                match s {
                    Some(j) => {
                        for i in 0..col.lens[k][*j] as usize {
                            child_slots.push(if col.v[k][*j] { Some(first_child[*j] + i) } else { None });
                        }
                    }
                    None => child_slots.push(None),
                }
                offs.push(child_slots.len() as i64);
            }
            let child = build_array(col, k + 1, &child_slots, var, leaf_meta, id_base);
            let field = Arc::new(child_field(col, k + 1, var, leaf_meta, "item"));
            if var.large {
                Arc::new(LargeListArray::new(field, OffsetBuffer::new(ScalarBuffer::from(offs)), child, validity))
            } else {
                let offs: Vec<i32> = offs.iter().map(|o| *o as i32).collect();
                Arc::new(ListArray::new(field, OffsetBuffer::new(ScalarBuffer::from(offs)), child, validity))
            }
        }
        k => panic!("kind {k} not supported in file mode"),
    }
}

/// Logical value of element i (cut below nulls), in the format of Trace_RepDef!NodeId
fn node(arr: &ArrayRef, i: usize) -> Value {
    if arr.is_null(i) {
        return json!({"t": "n", "id": -1, "c": []});
    }
    match arr.data_type() {
        DataType::Int32 => json!({"t": "i", "id": arr.as_primitive::<Int32Type>().value(i), "c": []}),
        DataType::Struct(_) => json!({"t": "s", "id": -1, "c": [node(arr.as_struct().column(0), i)]}),
        DataType::List(_) => {
            let v = arr.as_list::<i32>().value(i);
            json!({"t": "l", "id": -1, "c": (0..v.len()).map(|x| node(&v, x)).collect::<Vec<_>>()})
        }
        DataType::LargeList(_) => {
            let v = arr.as_list::<i64>().value(i);
            json!({"t": "l", "id": -1, "c": (0..v.len()).map(|x| node(&v, x)).collect::<Vec<_>>()})
        }
        t => json!({"t": format!("unexpected type {t}"), "id": -1, "c": []}),
    }
}

struct FileOpts {
    reps: usize,
    fullzip: bool,
    two_batches: bool,
    tiny_pages: bool,
    /// directed tiled case: systematic reads (whole scan echoed, long range, strided takes, short
    /// ranges spread over the file) instead of a random sample
    sweep: bool,
    /// leaf values differ from copy to copy
    unique: bool,
}

async fn run_file_inner(col: &Col, var: Variant, fo: &FileOpts, seed: u64, id: u64) -> Result<Vec<Value>, String> {
    let mut leaf_meta = std::collections::HashMap::new();
    leaf_meta.insert(
        STRUCTURAL_ENCODING_META_KEY.to_string(),
        if fo.fullzip { STRUCTURAL_ENCODING_FULLZIP } else { STRUCTURAL_ENCODING_MINIBLOCK }.to_string(),
    );
    let rows = col.v[0].len();
    let slots: Vec<Option<usize>> = (0..rows).map(Some).collect();
    // leaf values: the slot number inside one copy, or (unique) copy * slots-per-copy + slot so that the
    // column is not dictionary encoded
    let per_copy = col.leaf_slots() as i32;
    let built: Vec<ArrayRef> = if fo.unique {
        (0..fo.reps).map(|c| build_array(col, 0, &slots, var, &leaf_meta, c as i32 * per_copy)).collect()
    } else {
        vec![build_array(col, 0, &slots, var, &leaf_meta, 0)]
    };
    let copies: Vec<&dyn Array> = (0..fo.reps).map(|c| built[if fo.unique { c } else { 0 }].as_ref()).collect();
    let all = arrow_select::concat::concat(&copies).map_err(|e| format!("concat: {e}"))?;
    let total = all.len();
    let field = child_field(col, 0, var, &leaf_meta, "c");
    let schema = Arc::new(ArrowSchema::new(vec![field]));
    let store = Arc::new(ObjectStore::memory());
    let path = Path::from(format!("c27/{id}.lance"));
    let lance_schema = lance_core::datatypes::Schema::try_from(schema.as_ref()).map_err(|e| format!("schema: {e}"))?;
    let writer = store.create(&path).await.map_err(|e| format!("create: {e}"))?;
    let mut opts = FileWriterOptions {
        format_version: Some(LanceFileVersion::V2_1),
        ..Default::default()
    };
    if fo.tiny_pages {
        // every batch becomes its own page
        opts.data_cache_bytes = Some(1);
    }
    let mut fw = FileWriter::try_new(writer, lance_schema, opts).map_err(|e| format!("writer: {e}"))?;
    let cuts: Vec<(usize, usize)> = if fo.two_batches && total >= 2 {
        let mid = total / 2;
        vec![(0, mid), (mid, total - mid)]
    } else {
        vec![(0, total)]
    };
    for (o, l) in cuts {
        let batch = RecordBatch::try_new(schema.clone(), vec![all.slice(o, l)]).map_err(|e| format!("batch: {e}"))?;
        fw.write_batch(&batch).await.map_err(|e| format!("write: {e}"))?;
    }
    fw.finish().await.map_err(|e| format!("finish: {e}"))?;

    let sched = ScanScheduler::new(store.clone(), SchedulerConfig::max_bandwidth(&store));
    let fs = sched
        .open_file(&path, &CachedFileSize::unknown())
        .await
        .map_err(|e| format!("open: {e}"))?;
    let reader = FileReader::try_open(
        fs,
        None,
        Arc::<DecoderPlugins>::default(),
        &LanceCache::no_cache(),
        FileReaderOptions::default(),
    )
    .await
    .map_err(|e| format!("open reader: {e}"))?;
    if reader.num_rows() as usize != total {
        return Err(format!("num_rows {} != {}", reader.num_rows(), total));
    }

    // what to read: (kind, rows)
    let mut reads: Vec<(&str, Vec<usize>)> = vec![("full", (0..total).collect())];
    if total <= 6 {
        for a in 0..total {
            for b in (a + 1)..=total {
                if !(a == 0 && b == total) {
                    reads.push(("range", (a..b).collect()));
                }
            }
        }
        // scattered rows
        for mask in 1u32..(1 << total) {
            let rows: Vec<usize> = (0..total).filter(|r| (mask >> r) & 1 == 1).collect();
            let contiguous = rows.windows(2).all(|w| w[1] == w[0] + 1);
            if !contiguous {
                reads.push(("take", rows));
            }
        }
    } else if fo.sweep {
        // a long range that crosses several chunk boundaries
        reads.push(("range", (total / 30..(2 * total) / 3).collect()));
        // strided takes: every chunk gets many rows, at and after its boundary
        let stride = std::cmp::max(1, total / 400);
        for phase in 0..2 {
            reads.push(("take", (0..total).filter(|r| r % stride == (phase * (stride / 2 + 1)) % stride).collect()));
        }
        // short ranges spread over the file (seed moves them)
        let shift = (seed as usize * 7) % 13;
        for k in 1..60 {
            let a = std::cmp::min(total - 1, k * total / 61 + shift);
            let b = std::cmp::min(total, a + 1 + k % 4);
            reads.push(("range", (a..b).collect()));
        }
    } else {
        let mut h = id.wrapping_mul(0x9E37_79B9_7F4A_7C15) ^ seed.wrapping_mul(0xD1B5_4A32_D192_ED03);
        let mut next = |m: usize| {
            h ^= h << 13;
            h ^= h >> 7;
            h ^= h << 17;
            (h % m as u64) as usize
        };
        for _ in 0..10 {
            let a = next(total);
            let len = 1 + next(std::cmp::min(2 * rows + 3, total - a));
            reads.push(("range", (a..a + len).collect()));
        }
        reads.push(("range", ((total - 1)..total).collect()));
        reads.push(("range", (0..1).collect()));
        for _ in 0..6 {
            let n = 1 + next(5);
            let mut rows: Vec<usize> = (0..n).map(|_| next(total)).collect();
            rows.sort();
            rows.dedup();
            reads.push(("take", rows));
        }
    }
    let mut out = vec![];
    for (kind, rows) in reads {
        // full reads of tiled files are not echoed row by row (too big): sample them
        let params = match kind {
            "full" => ReadBatchParams::RangeFull,
            "range" => ReadBatchParams::Range(rows[0]..rows[rows.len() - 1] + 1),
            _ => ReadBatchParams::Indices(UInt32Array::from(rows.iter().map(|r| *r as u32).collect::<Vec<_>>())),
        };
        let batch_size = if kind == "full" && total > 6 { 1024 } else { 3 };
        let fut = async {
            let stream = reader.read_stream(params, batch_size, 2, FilterExpression::no_filter())?;
            stream.try_collect::<Vec<RecordBatch>>().await
        };
        let res = std::panic::AssertUnwindSafe(tokio::time::timeout(std::time::Duration::from_secs(30), fut))
            .catch_unwind()
            .await;
        let (error, got): (String, Vec<Value>) = match res {
            Err(_) => ("panic".to_string(), vec![]),
            Ok(Err(_)) => ("timeout".to_string(), vec![]),
            Ok(Ok(Err(e))) => (format!("error: {}", e.to_string().chars().take(160).collect::<String>()), vec![]),
            Ok(Ok(Ok(batches))) => {
                let mut got = vec![];
                for b in &batches {
                    let c = b.column(0);
                    for i in 0..c.len() {
                        got.push(node(c, i));
                    }
                }
                (String::new(), got)
            }
        };
        // keep tiled full scans small in the trace: only the rows of a few copies
        let (rows, got) = if kind == "full" && total > 6 && !fo.sweep && error.is_empty() && got.len() == total {
            let per = rows_per(rows.len(), fo.reps);
            let stride = total / 24 + 1;
            let keep: Vec<usize> = (0..total)
                .filter(|r| *r < 2 * per || *r >= total - 2 * per || (r % stride) < per)
                .collect();
            (keep.clone(), keep.iter().map(|r| got[*r].clone()).collect())
        } else {
            (rows, got)
        };
        out.push(json!({"kind": kind, "rows": rows, "error": error, "got": got}));
    }
    Ok(out)
}

fn rows_per(total: usize, reps: usize) -> usize {
    std::cmp::max(1, total / std::cmp::max(1, reps))
}

fn run_file(rt: &tokio::runtime::Runtime, scn: &Value, id: u64, var: Variant, seed: u64, tiled: bool, sweep: bool, unique: bool, force: &[Option<bool>; 3]) -> Option<Value> {
    let parts: Vec<Col> = scn["parts"].as_array().unwrap().iter().map(Col::parse).collect();
    let col = parts[0].clone();
    if col.kinds.iter().any(|k| k == "F") {
        return None;
    }
    let h = id.wrapping_mul(0xA24B_AED4_963E_E407).wrapping_add(seed.wrapping_mul(0x9FB2_1C65_1E98_DF25));
    let leaf = std::cmp::max(1, col.leaf_slots());
    let fo = FileOpts {
        reps: if sweep { 24000 / leaf + 1 } else if tiled { std::cmp::max(2, 9000 / leaf + 1) } else { 1 },
        fullzip: force[0].unwrap_or((h >> 11) & 1 == 1),
        two_batches: force[1].unwrap_or((h >> 19) & 1 == 1),
        tiny_pages: force[2].unwrap_or((h >> 29) & 1 == 1),
        sweep,
        unique,
    };
    let res = {
        let col2 = col.clone();
        let fo2 = &fo;
        catch(std::panic::AssertUnwindSafe(move || rt.block_on(run_file_inner(&col2, var, fo2, seed, id))))
    };
    let (error, reads) = match res {
        Err(p) => (format!("panic: {}", p.chars().take(160).collect::<String>()), vec![]),
        Ok(Err(e)) => (e.chars().take(200).collect::<String>(), vec![]),
        Ok(Ok(r)) => (String::new(), r),
    };
    Some(json!({"ev": "file", "id": id, "parts": [scn["parts"][0]], "large": var.large, "reps": fo.reps,
                "fullzip": fo.fullzip, "two_batches": fo.two_batches, "tiny_pages": fo.tiny_pages, "unique": fo.unique,
                "error": error, "reads": reads}))
}

fn main() {
    let args = Args::from_env();
    let input = args.get("in").expect("--in scenarios.ndjson");
    let out = args.get("out").expect("--out trace.ndjson");
    let dim = args.num("dim", 2) as usize;
    let seed = args.num("seed", 0);
    let mode = args.get_or("mode", "api");
    let mutate = match args.get_or("mutate", "none").as_str() {
        "none" => Mutation::None,
        "swap-null-empty" => Mutation::SwapNullEmpty,
        "drop-last-offset" => Mutation::DropLastOffset,
        "item-all-valid" => Mutation::ItemAllValid,
        m => panic!("unknown mutation {m}"),
    };
    if std::env::var("VH_SHOW_PANICS").is_err() {
        std::panic::set_hook(Box::new(|_| {}));
    }
    let rt = tokio::runtime::Builder::new_multi_thread()
        .worker_threads(2)
        .enable_all()
        .build()
        .unwrap();
    let fb = |k: &str| args.get(k).map(|v| v == "1");
    let force = [fb("fullzip"), fb("two-batches"), fb("tiny-pages")];
    let sweep = args.get("sweep").map(|v| v == "1").unwrap_or(false);
    let unique = args.get("unique").map(|v| v == "1").unwrap_or(false);
    let text = std::fs::read_to_string(&input).unwrap();
    let mut tw = TraceWriter::create(&out);
    for (i, line) in text.lines().enumerate() {
        if line.trim().is_empty() {
            continue;
        }
        let scn: Value = serde_json::from_str(line).unwrap();
        let id = scn["id"].as_u64().unwrap_or(i as u64);
        let h = id.wrapping_mul(0x9E37_79B9_7F4A_7C15).wrapping_add(seed.wrapping_mul(0xD1B5_4A32_D192_ED03));
        let var = Variant {
            large: (h >> 17) & 1 == 1,
            base: if (h >> 23) & 1 == 1 { 3 } else { 0 },
            mutate,
        };
        match mode.as_str() {
            "api" => tw.emit(run_api(&scn, id, dim, var)),
            "file" | "tiled" => {
                if scn["how"].as_str() != Some("one") {
                    continue;
                }
                if let Some(ev) = run_file(&rt, &scn, id, var, seed, mode == "tiled", sweep, unique, &force) {
                    tw.emit(ev);
                }
            }
            m => panic!("unknown mode {m}"),
        };
    }
    let n = tw.finish();
    eprintln!("vh_repdef: {n} events");
}
