//! Driver for spec/RowIdSeq.tla (property C34) and spec/OffsetMapOps.tla (part (a) of C15).
//!
//! Enumerates the finite universes described by its arguments (abstract ids 0..K-1, stretched into
//! u64 by an order-preserving *run embedding*: abstract id i stands for the `widths[i]` consecutive
//! ids starting at `starts[i]`), calls the real `RowIdSequence`, `U64Segment`, `rechunk_sequences`,
//! `RowIdIndex` and `OffsetMapper`, and records one event per call with the result mapped back to
//! abstract ids.  It never compares anything itself: Trace_RowIdSeq.tla is the judge.
use std::collections::HashSet;
use std::panic::AssertUnwindSafe;
use std::sync::Arc;

use lance_core::utils::deletion::{DeletionVector, OffsetMapper};
use lance_table::format::pb;
use lance_table::rowids::segment::U64Segment;
use lance_table::rowids::{
    read_row_ids, rechunk_sequences, write_row_ids, FragmentRowIdIndex, RowIdIndex, RowIdSequence,
};
use lance_verif_harness::trace::{catch, Args, TraceWriter};
use prost::Message;
use roaring::RoaringBitmap;
use serde_json::{json, Value};

const OK: i64 = 1;
const ERR: i64 = 0;
const PANIC: i64 = -9;

struct Emb {
    starts: Vec<u64>,
    widths: Vec<u64>,
    force_hb: bool,
}
impl Emb {
    fn conc(&self, xs: &[usize]) -> Vec<u64> {
        xs.iter()
            .flat_map(|&x| (0..self.widths[x]).map(move |j| (x, j)))
            .map(|(x, j)| self.starts[x] + j)
            .collect()
    }
    /// concrete id -> abstract id if it is the first id of a run, else -2
    fn decode_id(&self, y: u64) -> i64 {
        self.starts.iter().position(|s| *s == y).map(|p| p as i64).unwrap_or(-2)
    }
    /// greedy parse of a concrete list into whole runs; anything else becomes -2
    fn decode(&self, ys: &[u64]) -> Vec<i64> {
        let mut out = vec![];
        let mut i = 0;
        while i < ys.len() {
            let a = self.decode_id(ys[i]);
            if a >= 0 {
                let w = self.widths[a as usize] as usize;
                let whole = i + w <= ys.len() && (0..w).all(|j| ys[i + j] == ys[i] + j as u64);
                if whole {
                    out.push(a);
                    i += w;
                    continue;
                }
            }
            out.push(-2);
            i += 1;
        }
        out
    }
    /// concrete start position of every element of the abstract list `cur`, plus the total
    fn prefix(&self, cur: &[i64]) -> Vec<u64> {
        let mut p = vec![0u64];
        for &c in cur {
            let w = if c >= 0 { self.widths[c as usize] } else { 1 };
            p.push(p.last().unwrap() + w);
        }
        p
    }
    /// abstract position (may be past the end) -> concrete position of the run start
    fn cpos(&self, cur: &[i64], i: usize) -> u64 {
        let p = self.prefix(cur);
        if i < p.len() {
            p[i]
        } else {
            p[p.len() - 1] + (i - (p.len() - 1)) as u64
        }
    }
    fn contiguous(&self, xs: &[usize]) -> bool {
        xs.windows(2).all(|w| self.starts[w[0]] + self.widths[w[0]] == self.starts[w[1]])
    }
}

fn ascending(xs: &[usize]) -> bool {
    xs.windows(2).all(|w| w[0] < w[1])
}

fn panic_tag(msg: &str) -> String {
    let cut = msg.find(|c: char| c.is_ascii_digit()).unwrap_or(msg.len());
    msg[..cut].trim().chars().take(60).collect()
}

/// Result of a call into lance: status, value, panic tag.
fn call<T>(f: impl FnOnce() -> Result<T, String>) -> (i64, Option<T>, String) {
    match catch(AssertUnwindSafe(f)) {
        Ok(Ok(v)) => (OK, Some(v), "-".into()),
        Ok(Err(_)) => (ERR, None, "-".into()),
        Err(m) => (PANIC, None, panic_tag(&m)),
    }
}

// kind codes: 0 = from_slice's own choice, 1 R, 2 H, 3 B, 4 S, 5 A
fn build_segment(kind: u8, ys: &[u64]) -> U64Segment {
    match kind {
        0 => U64Segment::from_slice(ys),
        1 => {
            if ys.is_empty() {
                U64Segment::Range(0..0)
            } else {
                U64Segment::Range(ys[0]..ys[ys.len() - 1] + 1)
            }
        }
        2 => {
            let (lo, hi) = (ys[0], ys[ys.len() - 1]);
            let set: HashSet<u64> = ys.iter().copied().collect();
            let holes: Vec<u64> = (lo..=hi).filter(|v| !set.contains(v)).collect();
            U64Segment::RangeWithHoles { range: lo..hi + 1, holes: holes.into() }
        }
        3 => {
            let (lo, hi) = (ys[0], ys[ys.len() - 1]);
            let set: HashSet<u64> = ys.iter().copied().collect();
            let bits: Vec<bool> = (lo..=hi).map(|v| set.contains(&v)).collect();
            U64Segment::RangeWithBitmap { range: lo..hi + 1, bitmap: bits.as_slice().into() }
        }
        4 => U64Segment::SortedArray(ys.to_vec().into()),
        _ => U64Segment::Array(ys.to_vec().into()),
    }
}
fn seq_of_segment(seg: U64Segment) -> RowIdSequence {
    let p = pb::RowIdSequence { segments: vec![pb::U64Segment::from(seg)] };
    read_row_ids(&p.encode_to_vec()).unwrap()
}
fn build_part(kind: u8, ys: &[u64]) -> RowIdSequence {
    if kind == 0 {
        RowIdSequence::from(ys)
    } else {
        seq_of_segment(build_segment(kind, ys))
    }
}
fn build_state(emb: &Emb, parts: &[Vec<usize>], kinds: &[u8]) -> RowIdSequence {
    let mut s = RowIdSequence::new();
    for (p, k) in parts.iter().zip(kinds) {
        s.extend(build_part(*k, &emb.conc(p)));
    }
    s
}
fn kind_code(s: &U64Segment) -> i64 {
    match s {
        U64Segment::Range(_) => 1,
        U64Segment::RangeWithHoles { .. } => 2,
        U64Segment::RangeWithBitmap { .. } => 3,
        U64Segment::SortedArray(_) => 4,
        U64Segment::Array(_) => 5,
    }
}
/// the segment structure of a sequence, observed through its serialised form: [[kind, len], ..]
fn shape(s: &RowIdSequence) -> Value {
    let r = catch(AssertUnwindSafe(|| {
        let p = pb::RowIdSequence::decode(&write_row_ids(s)[..]).unwrap();
        p.segments
            .into_iter()
            .map(|g| {
                let u = U64Segment::try_from(g).unwrap();
                json!([kind_code(&u), u.len().min(1 << 20)])
            })
            .collect::<Vec<_>>()
    }));
    match r {
        Ok(v) => json!(v),
        Err(_) => json!([[-9, 0]]),
    }
}

struct Ctx {
    emb: Emb,
    w: TraceWriter,
    mutate: String,
    sel_max: usize,
    rc_max: usize,
    shard: usize,
    shards: usize,
    full: bool,
    only_full3: bool,
}

impl Ctx {
    fn obs(&self, s: &RowIdSequence) -> (i64, Vec<i64>, String) {
        let (st, v, tag) = call(|| Ok(s.iter().collect::<Vec<u64>>()));
        (st, v.map(|v| self.emb.decode(&v)).unwrap_or_default(), tag)
    }
    /// ["new", parts, kinds, st, obs, shape, tag]; returns the state and its observed content
    fn new_state(&mut self, parts: &[Vec<usize>], kinds: &[u8]) -> Option<(RowIdSequence, Vec<i64>)> {
        let (st, s, tag) = call(|| Ok(build_state(&self.emb, parts, kinds)));
        match s {
            Some(s) => {
                let (st2, o, tag2) = self.obs(&s);
                let sh = shape(&s);
                self.w.emit(json!(["new", parts, kinds, st2, o, sh, tag2]));
                if st2 == OK { Some((s, o)) } else { None }
            }
            None => {
                self.w.emit(json!(["new", parts, kinds, st, [], [], tag]));
                None
            }
        }
    }
    fn q_len(&mut self, s: &RowIdSequence, cur: &[i64]) {
        let (st, v, tag) = call(|| Ok(s.len()));
        // concrete length -> abstract length through the run widths of the observed content
        let p = self.emb.prefix(cur);
        let a = v.map(|l| if l == p[p.len() - 1] { cur.len() as i64 } else { -2 }).unwrap_or(-1);
        self.w.emit(json!(["len", st, a, tag]));
    }
    fn q_get(&mut self, s: &RowIdSequence, cur: &[i64], i: usize) {
        let mut c = self.emb.cpos(cur, i) as usize;
        if self.mutate == "get-next" {
            c += 1;
        }
        let (st, v, tag) = call(|| Ok(s.get(c)));
        let a = match v {
            Some(Some(y)) => self.emb.decode_id(y),
            _ => -1,
        };
        self.w.emit(json!(["get", i, st, a, tag]));
    }
    fn q_slice(&mut self, s: &RowIdSequence, cur: &[i64], off: usize, len: usize) {
        let p = self.emb.prefix(cur);
        let (co, mut cl) = (p[off] as usize, (p[off + len] - p[off]) as usize);
        if self.mutate == "slice-short" && cl > 1 {
            cl -= 1;
        }
        let (st, v, tag) = call(|| Ok(s.slice(co, cl).iter().collect::<Vec<u64>>()));
        let o = v.map(|v| self.emb.decode(&v)).unwrap_or_default();
        self.w.emit(json!(["slice", off, len, st, o, tag]));
    }
    fn q_select(&mut self, s: &RowIdSequence, cur: &[i64], sel: &[usize]) {
        // a repeated offset of a run wider than one id has no sorted concrete counterpart:
        // with such embeddings in-range repeats are dropped (the event records what was asked)
        let mut sel: Vec<usize> = sel.to_vec();
        if self.emb.widths.iter().any(|w| *w > 1) {
            let mut seen = vec![];
            sel.retain(|i| {
                let dup = *i < cur.len() && seen.contains(i);
                seen.push(*i);
                !dup
            });
        }
        let sel = &sel[..];
        let p = self.emb.prefix(cur);
        let mut csel: Vec<usize> = vec![];
        for &i in sel {
            if i < cur.len() {
                csel.extend((p[i]..p[i + 1]).map(|x| x as usize));
            } else {
                csel.push(self.emb.cpos(cur, i) as usize);
            }
        }
        let (st, v, tag) = call(|| Ok(s.select(csel.into_iter()).collect::<Vec<u64>>()));
        let o = v.map(|v| self.emb.decode(&v)).unwrap_or_default();
        self.w.emit(json!(["select", sel, st, o, tag]));
    }
    fn q_serde(&mut self, s: &RowIdSequence) {
        let (st, v, tag) = call(|| {
            let b = write_row_ids(s);
            let back = read_row_ids(&b).map_err(|e| e.to_string())?;
            Ok((back.iter().collect::<Vec<u64>>(), back == *s))
        });
        let (o, same) = v.map(|(v, e)| (self.emb.decode(&v), e)).unwrap_or_default();
        self.w.emit(json!(["serde", st, o, same, tag]));
    }
    /// sizes are abstract element counts taken from the front of `cur`
    fn q_rechunk(&mut self, seqs: Vec<RowIdSequence>, cur: &[i64], sizes: &[usize], allow: bool, sep: bool, sh: &Value) {
        let p = self.emb.prefix(cur);
        let total = p[p.len() - 1];
        let mut csizes = vec![];
        let mut at = 0usize;
        for &z in sizes {
            let hi = at + z;
            // past the end every missing element counts as one concrete id
            let c = |i: usize| if i < p.len() { p[i] } else { total + (i - (p.len() - 1)) as u64 };
            csizes.push(c(hi) - c(at));
            at = hi;
        }
        let allow_eff = if self.mutate == "rechunk-always-incomplete" { true } else { allow };
        let (st, v, tag) = call(|| {
            rechunk_sequences(seqs, csizes, allow_eff)
                .map(|cs| cs.iter().map(|c| c.iter().collect::<Vec<u64>>()).collect::<Vec<_>>())
                .map_err(|e| e.to_string())
        });
        let chunks: Vec<Vec<i64>> = v.map(|cs| cs.iter().map(|c| self.emb.decode(c)).collect()).unwrap_or_default();
        self.w.emit(json!(["rechunk", sizes, allow as u8, sep as u8, st, chunks, sh, tag]));
    }
    /// delete(ids); returns the mutated sequence and its observed content
    fn m_delete(&mut self, s: &RowIdSequence, ids: &[usize], adv: u8) -> Option<(RowIdSequence, Vec<i64>)> {
        let mut t = s.clone();
        let cids: Vec<u64> = ids.iter().flat_map(|&x| self.emb.conc(&[x])).collect();
        let (st, _, tag) = call(|| {
            t.delete(cids);
            Ok(())
        });
        self.after_mut("delete", json!(ids), st, tag, t, adv)
    }
    fn m_mask(&mut self, s: &RowIdSequence, cur: &[i64], ps: &[usize], adv: u8) -> Option<(RowIdSequence, Vec<i64>)> {
        let mut t = s.clone();
        let p = self.emb.prefix(cur);
        let mut cps: Vec<u32> = ps.iter().flat_map(|&i| (p[i]..p[i + 1]).map(|x| x as u32)).collect();
        if self.mutate == "mask-drop-last" && cps.len() > 1 {
            cps.pop();
        }
        let (st, _, tag) = call(|| t.mask(cps).map_err(|e| e.to_string()));
        self.after_mut("mask", json!(ps), st, tag, t, adv)
    }
    fn m_extend(&mut self, s: &RowIdSequence, xs: &[usize], kind: u8, adv: u8) -> Option<(RowIdSequence, Vec<i64>)> {
        let mut t = s.clone();
        let (st, _, tag) = call(|| {
            t.extend(build_part(kind, &self.emb.conc(xs)));
            Ok(())
        });
        self.after_mut("extend", json!([xs, kind]), st, tag, t, adv)
    }
    fn after_mut(&mut self, op: &str, arg: Value, st: i64, tag: String, t: RowIdSequence, adv: u8) -> Option<(RowIdSequence, Vec<i64>)> {
        if st != OK {
            self.w.emit(json!([op, arg, adv, st, [], [], tag]));
            return None;
        }
        let (st2, o, tag2) = self.obs(&t);
        self.w.emit(json!([op, arg, adv, st2, o, shape(&t), tag2]));
        if st2 == OK { Some((t, o)) } else { None }
    }
}

// ---------------------------------------------------------------------------------------------
// enumerations (mirrored by lib/checks/c34.py for the completeness counts)
fn inj_lists(k: usize, l: usize) -> Vec<Vec<usize>> {
    fn rec(k: usize, l: usize, cur: &mut Vec<usize>, out: &mut Vec<Vec<usize>>) {
        out.push(cur.clone());
        if cur.len() == l {
            return;
        }
        for x in 0..k {
            if !cur.contains(&x) {
                cur.push(x);
                rec(k, l, cur, out);
                cur.pop();
            }
        }
    }
    let mut out = vec![];
    rec(k, l, &mut vec![], &mut out);
    out
}
fn lists(vals: usize, l: usize) -> Vec<Vec<usize>> {
    let mut out = vec![vec![]];
    let mut last = vec![vec![]];
    for _ in 0..l {
        let mut next = vec![];
        for p in &last {
            for x in 0..vals {
                let mut q: Vec<usize> = p.clone();
                q.push(x);
                next.push(q);
            }
        }
        out.extend(next.iter().cloned());
        last = next;
    }
    out
}
fn nondec_lists(vals: usize, l: usize) -> Vec<Vec<usize>> {
    lists(vals, l).into_iter().filter(|s| s.windows(2).all(|w| w[0] <= w[1])).collect()
}
fn subsets(n: usize) -> Vec<Vec<usize>> {
    (0..(1usize << n)).map(|m| (0..n).filter(|i| (m >> i) & 1 == 1).collect()).collect()
}
fn splits(xs: &[usize]) -> Vec<Vec<Vec<usize>>> {
    let n = xs.len();
    let mut out = vec![vec![xs.to_vec()]];
    for c in 0..=n {
        out.push(vec![xs[..c].to_vec(), xs[c..].to_vec()]);
    }
    for c1 in 0..=n {
        for c2 in c1..=n {
            out.push(vec![xs[..c1].to_vec(), xs[c1..c2].to_vec(), xs[c2..].to_vec()]);
        }
    }
    out
}
/// id lists handed to delete(): every subset ascending, every pair descending, and lists with a
/// repeated id ([a,a], [a,a,b])
fn del_lists(k: usize) -> Vec<Vec<usize>> {
    let mut out = subsets(k);
    for a in 0..k {
        for b in 0..a {
            out.push(vec![a, b]);
        }
    }
    for a in 0..k {
        out.push(vec![a, a]);
        for b in 0..k {
            if a != b {
                out.push(vec![a, a, b]);
            }
        }
    }
    out
}

fn queries(c: &mut Ctx, s: &RowIdSequence, cur: &[i64], parts: Option<(&[Vec<usize>], &[u8])>, rc_sum_cap: bool) {
    let n = cur.len();
    c.q_len(s, cur);
    for i in 0..n + 2 {
        c.q_get(s, cur, i);
    }
    c.q_serde(s);
    for off in 0..=n {
        for len in 0..=(n - off) {
            c.q_slice(s, cur, off, len);
        }
    }
    for sel in nondec_lists(n + 2, c.sel_max) {
        c.q_select(s, cur, &sel);
    }
    let sh = shape(s);
    for sizes in lists(n + 2, c.rc_max) {
        // multi-segment states: chunk lists of <= 2 sizes whose sum is within one of the length, and
        // lists of 3 sizes that sum exactly
        let sum = sizes.iter().sum::<usize>();
        if rc_sum_cap && (sum > n + 1 || sum + 1 < n || (sizes.len() == 3 && sum != n)) {
            continue;
        }
        for allow in [false, true] {
            if rc_sum_cap && sizes.len() == 3 && allow {
                continue;
            }
            c.q_rechunk(vec![s.clone()], cur, &sizes, allow, false, &sh);
            if let Some((parts, kinds)) = parts {
                if parts.len() >= 2 && !allow {
                    let seqs = parts.iter().zip(kinds).map(|(p, k)| build_part(*k, &c.emb.conc(p))).collect();
                    c.q_rechunk(seqs, cur, &sizes, allow, true, &sh);
                }
            }
        }
    }
}

fn section_single(c: &mut Ctx, k: usize, l: usize) {
    for (si, xs) in inj_lists(k, l).into_iter().enumerate() {
        if si % c.shards != c.shard {
            continue;
        }
        let mut variants: Vec<u8> = vec![0];
        if !xs.is_empty() && ascending(&xs) {
            if c.emb.contiguous(&xs) {
                variants.push(1);
            }
            if c.emb.force_hb {
                variants.extend([2, 3]);
            }
            variants.extend([4, 5]);
        }
        for kind in variants {
            let parts = vec![xs.clone()];
            let Some((s, cur)) = c.new_state(&parts, &[kind]) else { continue };
            queries(c, &s, &cur, None, false);
            for ids in if c.full { del_lists(k) } else { subsets(k) } {
                c.m_delete(&s, &ids, 0);
            }
            for ps in inj_lists(cur.len(), cur.len()) {
                c.m_mask(&s, &cur, &ps, 0);
            }
        }
    }
}

fn section_multi(c: &mut Ctx, k: usize, l: usize) {
    let mut states: Vec<Vec<Vec<usize>>> = vec![vec![]];
    for xs in inj_lists(k, l) {
        states.extend(splits(&xs));
    }
    for (si, parts) in states.into_iter().enumerate() {
        if si % c.shards != c.shard {
            continue;
        }
        if c.only_full3 && !(parts.len() == 3 && parts.iter().all(|p| !p.is_empty())) {
            continue;
        }
        let mut variants: Vec<Vec<u8>> = vec![vec![0; parts.len()]];
        if parts.iter().any(|p| !p.is_empty() && ascending(p)) {
            let alt = if c.emb.force_hb { 2 } else { 4 };
            variants.push(parts.iter().map(|p| if !p.is_empty() && ascending(p) { alt } else { 0 }).collect());
        }
        if parts.iter().any(|p| !p.is_empty()) {
            variants.push(parts.iter().map(|p| if !p.is_empty() { 5 } else { 0 }).collect());
        }
        for kinds in variants {
            let Some((s, cur)) = c.new_state(&parts, &kinds) else { continue };
            queries(c, &s, &cur, Some((&parts, &kinds)), true);
            for ids in subsets(k) {
                // adv = 2: applied to the value of the last "new" and kept for the next query
                if let Some((t, cur2)) = c.m_delete(&s, &ids, 2) {
                    // the mutated value must still re-chunk like a plain list
                    let sh = shape(&t);
                    c.q_rechunk(vec![t.clone()], &cur2, &[cur2.len()], false, false, &sh);
                }
            }
            let n = cur.len();
            let mut pls = subsets(n);
            for a in 0..n {
                for b in 0..a {
                    pls.push(vec![a, b]);
                }
            }
            for ps in pls {
                if let Some((t, cur2)) = c.m_mask(&s, &cur, &ps, 2) {
                    let sh = shape(&t);
                    c.q_rechunk(vec![t.clone()], &cur2, &[cur2.len()], false, false, &sh);
                }
            }
        }
    }
}

struct Rng(u64);
impl Rng {
    fn next(&mut self) -> u64 {
        self.0 ^= self.0 << 13;
        self.0 ^= self.0 >> 7;
        self.0 ^= self.0 << 17;
        self.0
    }
    fn below(&mut self, n: usize) -> usize {
        if n == 0 { 0 } else { (self.next() % n as u64) as usize }
    }
    fn shuffle<T>(&mut self, v: &mut [T]) {
        for i in (1..v.len()).rev() {
            let j = self.below(i + 1);
            v.swap(i, j);
        }
    }
}
fn random_kind(c: &Ctx, r: &mut Rng, xs: &[usize]) -> u8 {
    let mut ks: Vec<u8> = vec![0];
    if !xs.is_empty() {
        ks.push(5);
        if ascending(xs) {
            ks.push(4);
            if c.emb.force_hb {
                ks.extend([2, 3]);
            }
            if c.emb.contiguous(xs) {
                ks.push(1);
            }
        }
    }
    ks[r.below(ks.len())]
}
fn random_part(r: &mut Rng, free: &mut Vec<usize>, max: usize) -> Vec<usize> {
    let n = r.below(max.min(free.len()) + 1);
    r.shuffle(free);
    let mut xs: Vec<usize> = free.drain(..n).collect();
    if r.below(3) > 0 {
        xs.sort(); // sorted parts are the common case
    }
    xs
}

fn section_chain(c: &mut Ctx, k: usize, l: usize, n_chains: usize, seed: u64) {
    let mut r = Rng(0x9E3779B97F4A7C15 ^ (seed.wrapping_mul(0xD1342543DE82EF95)).wrapping_add(77));
    for _ in 0..n_chains {
        let mut free: Vec<usize> = (0..k).collect();
        let np = 1 + r.below(3);
        let mut parts = vec![];
        for _ in 0..np {
            parts.push(random_part(&mut r, &mut free, l.min(3)));
        }
        let kinds: Vec<u8> = parts.iter().map(|p| random_kind(c, &mut r, p)).collect();
        let Some((mut s, mut cur)) = c.new_state(&parts, &kinds) else { continue };
        for _ in 0..4 {
            let n = cur.len();
            let step = match r.below(3) {
                0 => {
                    let xs = random_part(&mut r, &mut free, 2);
                    let kind = random_kind(c, &mut r, &xs);
                    c.m_extend(&s, &xs, kind, 1)
                }
                1 => {
                    let mut ids: Vec<usize> = (0..k).filter(|_| r.below(3) == 0).collect();
                    r.shuffle(&mut ids);
                    if r.below(10) == 0 && !ids.is_empty() {
                        ids.push(ids[0]);
                    }
                    c.m_delete(&s, &ids, 1)
                }
                _ => {
                    let mut ps: Vec<usize> = (0..n).filter(|_| r.below(3) == 0).collect();
                    if r.below(10) < 3 {
                        r.shuffle(&mut ps);
                    }
                    c.m_mask(&s, &cur, &ps, 1)
                }
            };
            let Some((t, cur2)) = step else { break };
            s = t;
            cur = cur2;
            let n = cur.len();
            c.q_len(&s, &cur);
            c.q_get(&s, &cur, r.below(n + 2));
            let off = r.below(n + 1);
            let len = r.below(n - off + 1);
            c.q_slice(&s, &cur, off, len);
            let mut sel: Vec<usize> = (0..r.below(4)).map(|_| r.below(n + 2)).collect();
            sel.sort();
            c.q_select(&s, &cur, &sel);
            // chunk sizes: mostly an exact composition of n, sometimes anything
            let mut sizes = vec![];
            if r.below(10) < 7 {
                let mut left = n;
                for _ in 0..r.below(3) {
                    let z = r.below(left + 1);
                    sizes.push(z);
                    left -= z;
                }
                sizes.push(left);
            } else {
                sizes = (0..r.below(4)).map(|_| r.below(n + 2)).collect();
            }
            let sh = shape(&s);
            c.q_rechunk(vec![s.clone()], &cur, &sizes, r.below(2) == 0, false, &sh);
        }
    }
}

// ---------------------------------------------------------------------------------------------
fn dv_of(repr: u8, dels: &[usize]) -> DeletionVector {
    match repr {
        0 => DeletionVector::NoDeletions,
        1 => DeletionVector::Set(dels.iter().map(|d| *d as u32).collect()),
        _ => DeletionVector::Bitmap(RoaringBitmap::from_iter(dels.iter().map(|d| *d as u32))),
    }
}

/// layouts: <= 3 fragments, each an injective id list of length <= p with a deletion vector over its
/// positions; total length <= l; at most one live occurrence of an id
fn layouts(k: usize, p: usize, l: usize) -> Vec<Vec<(Vec<usize>, Vec<usize>)>> {
    let mut frag_opts: Vec<(Vec<usize>, Vec<usize>)> = vec![];
    for xs in inj_lists(k, p) {
        for d in subsets(xs.len()) {
            frag_opts.push((xs.clone(), d));
        }
    }
    fn live(f: &(Vec<usize>, Vec<usize>)) -> Vec<usize> {
        f.0.iter().enumerate().filter(|(i, _)| !f.1.contains(i)).map(|(_, x)| *x).collect()
    }
    fn rec(
        opts: &[(Vec<usize>, Vec<usize>)],
        l: usize,
        cur: &mut Vec<(Vec<usize>, Vec<usize>)>,
        out: &mut Vec<Vec<(Vec<usize>, Vec<usize>)>>,
    ) {
        out.push(cur.clone());
        if cur.len() == 3 {
            return;
        }
        let used: usize = cur.iter().map(|f| f.0.len()).sum();
        let lives: Vec<usize> = cur.iter().flat_map(live).collect();
        for o in opts {
            if used + o.0.len() > l || live(o).iter().any(|x| lives.contains(x)) {
                continue;
            }
            cur.push(o.clone());
            rec(opts, l, cur, out);
            cur.pop();
        }
    }
    let mut out = vec![];
    rec(&frag_opts, l, &mut vec![], &mut out);
    out
}

fn section_index(c: &mut Ctx, k: usize, p: usize, l: usize, fids: &[u32]) {
    for lay in layouts(k, p, l) {
        let has_split = lay.iter().any(|f| f.0.len() >= 2);
        for variant in 0..(1 + has_split as u8) {
            let frags: Vec<FragmentRowIdIndex> = lay
                .iter()
                .enumerate()
                .map(|(fi, (xs, d))| {
                    let seq = if variant == 1 && xs.len() >= 2 {
                        build_state(&c.emb, &[xs[..1].to_vec(), xs[1..].to_vec()], &[0, 0])
                    } else {
                        build_state(&c.emb, &[xs.clone()], &[0])
                    };
                    let dels: Vec<usize> = if c.mutate == "index-ignore-dv" { vec![] } else { d.clone() };
                    let repr = if dels.is_empty() && variant == 0 { 0 } else { 1 + variant };
                    FragmentRowIdIndex {
                        fragment_id: fids[fi],
                        row_id_sequence: Arc::new(seq),
                        deletion_vector: Arc::new(dv_of(repr, &dels)),
                    }
                })
                .collect();
            let (st, v, tag) = call(|| {
                let idx = RowIdIndex::new(&frags).map_err(|e| e.to_string())?;
                let table: Vec<Option<u64>> = (0..k).map(|i| idx.get(c.emb.starts[i]).map(u64::from)).collect();
                // ids between / around the embedded ids must not resolve
                let mut stray = 0;
                for i in 0..k {
                    for y in [c.emb.starts[i].wrapping_add(1), c.emb.starts[i].wrapping_sub(1)] {
                        if c.emb.decode_id(y) < 0 && idx.get(y).is_some() {
                            stray += 1;
                        }
                    }
                }
                Ok((table, stray))
            });
            let (table, stray) = v.unwrap_or_default();
            let t: Vec<[i64; 2]> = table
                .iter()
                .map(|a| match a {
                    None => [-1, -1],
                    Some(a) => {
                        let f = fids.iter().position(|x| *x == (a >> 32) as u32).map(|p| p as i64 + 1).unwrap_or(-2);
                        [f, (*a as u32) as i64]
                    }
                })
                .collect();
            let lj: Vec<Value> = lay.iter().map(|(xs, d)| json!([xs, d])).collect();
            c.w.emit(json!(["index", lj, variant, st, t, stray, tag]));
        }
    }
}

fn section_offmap(c: &mut Ctx, np: usize) {
    for dv in subsets(np) {
        let live = np - dv.len();
        for offs in subsets(live) {
            let mut cases: Vec<(Vec<usize>, u8)> = vec![];
            let reprs: &[u8] = if dv.is_empty() { &[0, 1, 2] } else { &[1, 2] };
            for r in reprs {
                cases.push((offs.clone(), *r));
            }
            for j in 0..offs.len() {
                let mut d = offs.clone();
                d.insert(j, offs[j]);
                cases.push((d, 1 + (j % 2) as u8));
            }
            for (offs, repr) in cases {
                let (st, v, tag) = call(|| {
                    let mut m = OffsetMapper::new(Arc::new(dv_of(repr, &dv)));
                    Ok(offs
                        .iter()
                        .map(|o| {
                            let r = m.map_offset(*o as u32) as i64;
                            if c.mutate == "map-plus-one" && !dv.is_empty() && *o > 0 { r + 1 } else { r }
                        })
                        .collect::<Vec<i64>>())
                });
                c.w.emit(json!(["map_offset", dv, repr, offs, st, v.unwrap_or_default(), tag]));
            }
        }
    }
}

fn parse_u64s(s: &str) -> Vec<u64> {
    s.split(',').filter(|x| !x.is_empty()).map(|x| x.parse().unwrap()).collect()
}

fn main() {
    std::panic::set_hook(Box::new(|_| {}));
    let args = Args::from_env();
    let section = args.get_or("section", "single");
    let k = args.num("k", 6) as usize;
    let l = args.num("maxlen", 4) as usize;
    let starts = parse_u64s(&args.get_or("starts", "0,1,2,3,4,5,6,7"));
    let widths = parse_u64s(&args.get_or("widths", "1,1,1,1,1,1,1,1"));
    assert!(starts.len() >= k && widths.len() >= k);
    let emb = Emb { starts, widths, force_hb: args.num("force-hb", 1) == 1 };
    let out = args.get("out").expect("--out");
    let mut c = Ctx {
        emb,
        w: TraceWriter::create(&out),
        mutate: args.get_or("mutate", ""),
        sel_max: args.num("sel-max", 3) as usize,
        rc_max: args.num("rc-max", 2) as usize,
        shard: args.num("shard", 0) as usize,
        shards: args.num("shards", 1) as usize,
        full: args.num("full", 1) == 1,
        only_full3: args.num("only-full3", 0) == 1,
    };
    let st: Vec<String> = c.emb.starts.iter().map(|x| x.to_string()).collect();
    c.w.emit(json!(["univ", section, k, l, args.get_or("emb", "dense"), args.get_or("class", "plain"), st, c.emb.widths.clone()]));
    match section.as_str() {
        "single" => section_single(&mut c, k, l),
        "multi" => section_multi(&mut c, k, l),
        "chain" => section_chain(&mut c, k, l, args.num("chains", 1000) as usize, args.num("seed", 0)),
        "index" => {
            let fids: Vec<u32> = parse_u64s(&args.get_or("fids", "0,1,2")).iter().map(|x| *x as u32).collect();
            section_index(&mut c, k, args.num("maxpart", 2) as usize, l, &fids)
        }
        "offmap" => section_offmap(&mut c, args.num("np", 8) as usize),
        _ => panic!("unknown section"),
    }
    let total = c.w.finish();
    println!("{{\"events\":{total}}}");
}
