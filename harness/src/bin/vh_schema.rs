//! Driver for spec/SchemaAlgebra*.tla (property C43).  Records, never judges.
//!
//! Input: `--trees <ndjson>`: one field tree per line as printed by TLC, a JSON array of nodes in pre-order
//! `{"p": parent index (0 = top), "n": name index, "k": "leaf"|"struct"|"list"}`; node index k = 1.. is the abstract
//! field id.  Every node gets: name NAMES[n], nullable = (k odd), metadata {"k": k}, leaf type int32 (k even) or
//! utf8 (k odd).  The lance Schema is built through Arrow (`Schema::try_from(&ArrowSchema)`), then the field ids are
//! re-assigned by the chosen embedding ("pre": k-1, the natural pre-order; "scr": 3*(n-k)+2, parents above children).
//!
//! Events (JSON arrays, first element = kind), see spec/Trace_SchemaAlgebra.tla.  A schema is recorded as the list
//! of its fields in pre-order: [k (from metadata), id, parent_id attribute, k of the structural parent, name,
//! logical type, nullable]; ids are reported as abstract node indices (0 = none / top level, -1 = unassigned,
//! -7 = not an id of the tree).
use std::collections::{HashMap, HashSet};
use std::sync::Arc;

use arrow_schema::{DataType, Field as ArrowField, Schema as ArrowSchema};
use lance_core::datatypes::{format_field_path, parse_field_path, Field, OnMissing, Projection, Schema};
use lance_file::datatypes::FieldsWithMeta;
use lance_verif_harness::trace::{catch, Args, TraceWriter};
use serde_json::{json, Value};

const NAMES: [&str; 5] = ["a", "b", "a.b", "a`b", "item"];

#[derive(Clone)]
struct Node {
    p: usize,
    n: usize,
    k: String,
}

struct Tree {
    nodes: Vec<Node>, // index 0 = node 1
}

impl Tree {
    fn children(&self, i: usize) -> Vec<usize> {
        (1..=self.nodes.len()).filter(|j| self.nodes[j - 1].p == i).collect()
    }
    fn anc(&self, i: usize) -> Vec<usize> {
        let mut v = vec![];
        let mut c = self.nodes[i - 1].p;
        while c != 0 {
            v.push(c);
            c = self.nodes[c - 1].p;
        }
        v
    }
    fn leaves(&self) -> Vec<usize> {
        (1..=self.nodes.len()).filter(|j| self.nodes[j - 1].k == "leaf").collect()
    }
    fn up(&self, s: &[usize]) -> Vec<usize> {
        let mut h: HashSet<usize> = s.iter().cloned().collect();
        for i in s {
            h.extend(self.anc(*i));
        }
        let mut v: Vec<usize> = h.into_iter().collect();
        v.sort();
        v
    }
    fn arrow_field(&self, i: usize) -> ArrowField {
        let nd = &self.nodes[i - 1];
        let dt = match nd.k.as_str() {
            "leaf" => {
                if i % 2 == 0 {
                    DataType::Int32
                } else {
                    DataType::Utf8
                }
            }
            "struct" => DataType::Struct(self.children(i).into_iter().map(|c| self.arrow_field(c)).collect()),
            _ => DataType::List(Arc::new(self.arrow_field(self.children(i)[0]))),
        };
        ArrowField::new(NAMES[nd.n - 1], dt, i % 2 == 1).with_metadata(HashMap::from([("k".to_string(), i.to_string())]))
    }
    fn arrow_schema(&self) -> ArrowSchema {
        let tops: Vec<ArrowField> = self.children(0).into_iter().map(|c| self.arrow_field(c)).collect();
        ArrowSchema::new_with_metadata(tops, HashMap::from([("sm".to_string(), "1".to_string())]))
    }
}

fn k_of(f: &Field) -> i64 {
    f.metadata.get("k").and_then(|s| s.parse::<i64>().ok()).unwrap_or(-7)
}

struct Emb {
    to_real: HashMap<usize, i32>,
    to_abs: HashMap<i32, i64>,
}

impl Emb {
    fn new(name: &str, n: usize) -> Self {
        let mut to_real = HashMap::new();
        let mut to_abs = HashMap::new();
        for k in 1..=n {
            let real = match name {
                "pre" => k as i32 - 1,
                _ => 3 * (n - k) as i32 + 2,
            };
            to_real.insert(k, real);
            to_abs.insert(real, k as i64);
        }
        Self { to_real, to_abs }
    }
    fn abs(&self, real: i32) -> i64 {
        if real == -1 {
            -1
        } else {
            *self.to_abs.get(&real).unwrap_or(&-7)
        }
    }
    fn abs_parent(&self, real: i32) -> i64 {
        if real == -1 {
            0
        } else {
            *self.to_abs.get(&real).unwrap_or(&-7)
        }
    }
}

fn assign_ids(f: &mut Field, parent_real: i32, emb: &Emb) {
    let k = k_of(f) as usize;
    f.id = emb.to_real[&k];
    f.parent_id = parent_real;
    let id = f.id;
    for c in f.children.iter_mut() {
        assign_ids(c, id, emb);
    }
}

fn dump_field(f: &Field, pk: i64, emb: &Emb, raw: bool, out: &mut Vec<Value>) {
    let (id, pid) = if raw { (f.id as i64, f.parent_id as i64) } else { (emb.abs(f.id), emb.abs_parent(f.parent_id)) };
    out.push(json!([k_of(f), id, pid, pk, f.name, f.logical_type.to_string(), f.nullable]));
    for c in &f.children {
        dump_field(c, k_of(f), emb, raw, out);
    }
}

fn dump(s: &Schema, emb: &Emb) -> Value {
    let mut out = vec![];
    for f in &s.fields {
        dump_field(f, 0, emb, false, &mut out);
    }
    json!(out)
}

fn dump_raw(s: &Schema, emb: &Emb) -> Value {
    let mut out = vec![];
    for f in &s.fields {
        dump_field(f, 0, emb, true, &mut out);
    }
    json!(out)
}

fn res_schema(r: lance_core::Result<Schema>, emb: &Emb) -> Value {
    match r {
        Ok(s) => json!(["ok", dump(&s, emb)]),
        Err(e) => json!(["err", format!("{e}").chars().take(120).collect::<String>()]),
    }
}

/// the sub-schema of `s` induced by the node set `keep` (the driver's own construction of operands)
fn restrict_field(f: &Field, keep: &HashSet<i64>) -> Option<Field> {
    if !keep.contains(&k_of(f)) {
        return None;
    }
    let mut g = f.clone();
    g.children = f.children.iter().filter_map(|c| restrict_field(c, keep)).collect();
    Some(g)
}
fn restrict(s: &Schema, keep: &[usize]) -> Schema {
    let h: HashSet<i64> = keep.iter().map(|x| *x as i64).collect();
    Schema { fields: s.fields.iter().filter_map(|f| restrict_field(f, &h)).collect(), metadata: s.metadata.clone() }
}

/// `s` with every field id moved out of the table's id range and the nullability flipped
fn foreign_field(f: &Field) -> Field {
    let mut g = f.clone();
    g.id = f.id + 1000;
    if f.parent_id >= 0 {
        g.parent_id = f.parent_id + 1000;
    }
    g.nullable = !f.nullable;
    g.children = f.children.iter().map(foreign_field).collect();
    g
}
fn foreign(s: &Schema) -> Schema {
    Schema { fields: s.fields.iter().map(foreign_field).collect(), metadata: s.metadata.clone() }
}

fn chain(v: Option<Vec<&Field>>) -> Vec<i64> {
    match v {
        Some(v) => v.iter().map(|f| k_of(f)).collect(),
        None => vec![-1],
    }
}

fn chars(s: &str) -> Vec<String> {
    s.chars().map(|c| c.to_string()).collect()
}

fn sorted_ids(p: &Projection, emb: &Emb) -> Vec<i64> {
    let mut v: Vec<i64> = p.field_ids.iter().map(|i| emb.abs(*i)).collect();
    v.sort();
    v
}

fn to_bare(p: &Projection, emb: &Emb) -> Value {
    let p2 = p.clone();
    match catch(std::panic::AssertUnwindSafe(move || p2.to_bare_schema())) {
        Ok(s) => json!(["ok", dump(&s, emb)]),
        Err(_) => json!(["panic", []]),
    }
}

/// Seeded mutants (binding demonstration, `--mutate`): copies of two lance functions with one realistic change each.
/// parse_field_path without the doubled-backtick escape:
fn mutant_parse_field_path(path: &str) -> Result<Vec<String>, ()> {
    if path.is_empty() {
        return Err(());
    }
    let mut result = Vec::new();
    let mut current = String::new();
    let mut in_quotes = false;
    let mut chars = path.chars().peekable();
    while let Some(ch) = chars.next() {
        match ch {
            '`' => {
                if in_quotes {
                    in_quotes = false; // MUTATION: no check for an escaped (doubled) backtick
                    if let Some(&next_ch) = chars.peek() {
                        if next_ch != '.' {
                            return Err(());
                        }
                    }
                } else if current.is_empty() {
                    in_quotes = true;
                } else {
                    return Err(());
                }
            }
            '.' if !in_quotes => {
                if current.is_empty() {
                    return Err(());
                }
                result.push(current);
                current = String::new();
            }
            _ => current.push(ch),
        }
    }
    if in_quotes {
        return Err(());
    }
    if !current.is_empty() {
        result.push(current);
    } else if !result.is_empty() {
        return Err(());
    }
    if result.is_empty() {
        return Err(());
    }
    Ok(result)
}
/// Field::project_by_ids with `children.is_empty() || include_all_children` turned into `&&`:
fn mutant_project_by_ids(f: &Field, ids: &[i32], include_all_children: bool) -> Option<Field> {
    let children = f.children.iter().filter_map(|c| mutant_project_by_ids(c, ids, include_all_children)).collect::<Vec<_>>();
    if ids.contains(&f.id) && (children.is_empty() && include_all_children) {
        Some(f.clone())
    } else if !children.is_empty() {
        let mut g = f.clone();
        g.children = children;
        Some(g)
    } else {
        None
    }
}

fn subsets(v: &[usize]) -> Vec<Vec<usize>> {
    (0..(1u32 << v.len())).map(|m| v.iter().enumerate().filter(|(i, _)| m >> i & 1 == 1).map(|(_, x)| *x).collect()).collect()
}

fn path_of(t: &Tree, i: usize, quoted: bool) -> String {
    let mut chain = t.anc(i);
    chain.reverse();
    chain.push(i);
    let names: Vec<&str> = chain.iter().map(|j| NAMES[t.nodes[j - 1].n - 1]).collect();
    if quoted {
        // the driver's own quoting (not lance's): quote every segment that contains '.' or '`'
        names
            .iter()
            .map(|n| if n.contains('.') || n.contains('`') { format!("`{}`", n.replace('`', "``")) } else { n.to_string() })
            .collect::<Vec<_>>()
            .join(".")
    } else {
        names.join(".")
    }
}

fn run_tree(w: &mut TraceWriter, tid: usize, t: &Tree, emb_name: &str, mutate: &str) {
    let n = t.nodes.len();
    let emb = Emb::new(emb_name, n);
    let arrow = t.arrow_schema();
    let mut schema = match Schema::try_from(&arrow) {
        Ok(s) => s,
        Err(e) => {
            w.emit(json!(["tree", tid, emb_name, [], "err", format!("{e}")]));
            return;
        }
    };
    let natural = dump_raw(&schema, &emb);
    for f in schema.fields.iter_mut() {
        assign_ids(f, -1, &emb);
    }
    let tree_json: Vec<Value> = t.nodes.iter().map(|nd| json!([nd.p, nd.n, nd.k])).collect();
    // the tree as built: nodes, the schema dump, the ids Schema::try_from assigned (raw), validate() after re-assignment
    let valid = schema.validate().is_ok();
    w.emit(json!(["tree", tid, emb_name, tree_json, "ok", dump(&schema, &emb), natural, valid]));
    let all: Vec<usize> = (1..=n).collect();

    // ---- paths -----------------------------------------------------------------------------------------
    for i in 1..=n {
        let real = emb.to_real[&i];
        let fp = schema.field_path(real).unwrap_or_else(|e| format!("ERR:{e}"));
        let res = chain(schema.resolve(&fp));
        let anc = chain(schema.field_ancestry_by_id(real));
        w.emit(json!(["field_path", tid, i, chars(&fp), res, anc]));
        // a naive caller joins the names with dots
        let naive = path_of(t, i, false);
        let res2 = chain(schema.resolve(&naive));
        w.emit(json!(["resolve", tid, chars(&naive), res2]));
    }
    for extra in ["a", "b", "`a`", "`a.b`", "a.b", "`a``b`", "a.item", "b.item", "a.`a.b`", "b.`a``b`", "a.a.b", "item", "a.b.a"] {
        let res = chain(schema.resolve(extra));
        w.emit(json!(["resolve", tid, chars(extra), res]));
    }
    // ---- projection by column names --------------------------------------------------------------
    let mut col_lists: Vec<Vec<usize>> = vec![];
    for i in 1..=n {
        col_lists.push(vec![i]);
        for j in 1..=n {
            if i != j {
                col_lists.push(vec![i, j]);
            }
        }
    }
    for cl in &col_lists {
        let cols: Vec<String> = cl.iter().map(|i| path_of(t, *i, true)).collect();
        let mut r = res_schema(schema.project(&cols), &emb);
        if mutate == "project-drops-last" {
            if let Some(a) = r[1].as_array_mut() {
                a.pop();
            }
        }
        let p = Projection::empty(Arc::new(schema.clone())).union_columns(&cols, OnMissing::Error);
        let pr = match p {
            Ok(p) => json!(["ok", sorted_ids(&p, &emb), to_bare(&p, &emb)]),
            Err(e) => json!(["err", format!("{e}").chars().take(120).collect::<String>(), []]),
        };
        w.emit(json!(["project", tid, cl, cols.iter().map(|c| chars(c)).collect::<Vec<_>>(), r, pr]));
    }
    w.emit(json!(["project_missing", tid, res_schema(schema.project(&["zz"]), &emb), res_schema(schema.project_or_drop(&["zz"]), &emb)]));
    // ---- projection by ids --------------------------------------------------------------------------
    for ids in subsets(&all) {
        let real: Vec<i32> = ids.iter().map(|k| emb.to_real[k]).collect();
        let by_ids = |all: bool| {
            if mutate == "by-ids-and" {
                Schema { fields: schema.fields.iter().filter_map(|f| mutant_project_by_ids(f, &real, all)).collect(), metadata: schema.metadata.clone() }
            } else {
                schema.project_by_ids(&real, all)
            }
        };
        let r0 = dump(&by_ids(false), &emb);
        let r1 = dump(&by_ids(true), &emb);
        // an arbitrary id set as a Projection
        let hs: HashSet<i32> = real.iter().cloned().collect();
        let p = Projection::empty(Arc::new(schema.clone())).union_predicate(|f| hs.contains(&f.id));
        let mut pids = sorted_ids(&p, &emb);
        if mutate == "projection-ids-lose-one" && pids.len() > 1 {
            pids.pop();
        }
        w.emit(json!(["by_ids", tid, ids, r0, r1, pids, to_bare(&p, &emb)]));
    }
    // ---- operand pairs --------------------------------------------------------------------------------
    let operands: Vec<Vec<usize>> = {
        let mut seen = HashSet::new();
        subsets(&t.leaves()).into_iter().map(|l| t.up(&l)).filter(|u| seen.insert(u.clone())).collect()
    };
    for a in &operands {
        let sa = restrict(&schema, a);
        for b in &operands {
            let sb = restrict(&schema, b);
            let inter = res_schema(sa.intersection(&sb), &emb);
            // the same operand as another table would present it: other field ids, other nullability.  The
            // intersection keeps the fields of `sa` (whose ids are assigned), so the answer must not change.
            let inter_foreign = res_schema(sa.intersection(&foreign(&sb)), &emb);
            let excl = res_schema(sa.exclude(&sb), &emb);
            let merged = res_schema(sa.merge(&sb), &emb);
            let base: Arc<Schema> = Arc::new(schema.clone());
            let pa = Projection::empty(base.clone()).union_schema(&sa);
            let pb = Projection::empty(base.clone()).union_schema(&sb);
            let pu = pa.clone().union_projection(&pb);
            let ps = pa.clone().subtract_projection(&pb);
            let pi = pa.clone().intersect(&pb);
            let pss = pa.clone().subtract_schema(&sb);
            w.emit(json!(["pair", tid, a, b, inter, excl, merged,
                          [sorted_ids(&pa, &emb), to_bare(&pa, &emb)],
                          [sorted_ids(&pu, &emb), to_bare(&pu, &emb)],
                          [sorted_ids(&ps, &emb), to_bare(&ps, &emb)],
                          [sorted_ids(&pi, &emb), to_bare(&pi, &emb)],
                          [sorted_ids(&pss, &emb), to_bare(&pss, &emb)],
                          inter_foreign]));
        }
    }
    // ---- round trips ----------------------------------------------------------------------------------
    for a in &operands {
        if a.is_empty() {
            continue;
        }
        let sa = restrict(&schema, a);
        let arrow2 = ArrowSchema::from(&sa);
        let back = Schema::try_from(&arrow2);
        let arrow_rt = match back {
            Ok(s) => json!(["ok", dump_raw(&s, &emb), s.metadata.get("sm").cloned().unwrap_or_default()]),
            Err(e) => json!(["err", format!("{e}"), ""]),
        };
        let fwm = FieldsWithMeta::from(&sa);
        let nfields = fwm.fields.0.len();
        let mut s2 = Schema::from(fwm);
        if mutate == "pb-loses-nullable" {
            if let Some(f) = s2.fields.first_mut() {
                f.nullable = !f.nullable;
            }
        }
        w.emit(json!(["roundtrip", tid, a, arrow_rt, ["ok", dump(&s2, &emb), s2.metadata.get("sm").cloned().unwrap_or_default()], nfields]));
    }
}

fn parse_section(w: &mut TraceWriter, maxlen: usize, mutate: &str) {
    let alphabet = ['a', 'b', '.', '`'];
    let mut strings: Vec<String> = vec![String::new()];
    let mut frontier = vec![String::new()];
    for _ in 0..maxlen {
        let mut next = vec![];
        for s in &frontier {
            for c in alphabet {
                let mut x = s.clone();
                x.push(c);
                next.push(x);
            }
        }
        strings.extend(next.iter().cloned());
        frontier = next;
    }
    for s in &strings {
        let r = if mutate == "parse-no-escape" { mutant_parse_field_path(s) } else { parse_field_path(s).map_err(|_| ()) };
        let (res, segs) = match r {
            Ok(v) => ("ok", v.iter().map(|x| chars(x)).collect::<Vec<_>>()),
            Err(_) => ("err", vec![]),
        };
        w.emit(json!(["parse", chars(s), res, segs]));
    }
    // format_field_path on name sequences: every name of length <= 2 over the alphabet, alone and after "a"
    let names: Vec<&String> = strings.iter().filter(|s| !s.is_empty() && s.len() <= 3).collect();
    for x in &names {
        let f1 = format_field_path(&[x.as_str()]);
        let f2 = format_field_path(&["a", x.as_str()]);
        let back1 = parse_field_path(&f1).map(|v| v.iter().map(|y| chars(y)).collect::<Vec<_>>()).unwrap_or_default();
        let back2 = parse_field_path(&f2).map(|v| v.iter().map(|y| chars(y)).collect::<Vec<_>>()).unwrap_or_default();
        w.emit(json!(["format", chars(x), chars(&f1), back1, chars(&f2), back2]));
    }
}

fn main() {
    let args = Args::from_env();
    let out = args.get("out").expect("--out");
    let mutate = args.get_or("mutate", "");
    let mut w = TraceWriter::create(&out);
    std::panic::set_hook(Box::new(|_| {})); // panics inside lance are recorded as data, not printed
    if args.get_or("section", "trees") == "parse" {
        parse_section(&mut w, args.num("maxlen", 5) as usize, &mutate);
    } else {
        let trees_file = args.get("trees").expect("--trees");
        let shard = args.num("shard", 0);
        let nshards = args.num("shards", 1);
        let seed = args.num("seed", 0);
        let embeds = args.get_or("embeds", "alt");
        let text = std::fs::read_to_string(&trees_file).unwrap();
        for (li, line) in text.lines().enumerate() {
            if line.trim().is_empty() || (li as u64) % nshards != shard {
                continue;
            }
            let v: Value = serde_json::from_str(line).unwrap();
            let nodes: Vec<Node> = v
                .as_array()
                .unwrap()
                .iter()
                .map(|x| Node { p: x["p"].as_u64().unwrap() as usize, n: x["n"].as_u64().unwrap() as usize, k: x["k"].as_str().unwrap().to_string() })
                .collect();
            let t = Tree { nodes };
            let embs: Vec<&str> = match embeds.as_str() {
                "alt" => vec![if (li as u64 + seed) % 2 == 0 { "pre" } else { "scr" }],
                "both" => vec!["pre", "scr"],
                other => vec![if other == "pre" { "pre" } else { "scr" }],
            };
            for e in embs {
                let r = catch(std::panic::AssertUnwindSafe(|| run_tree(&mut w, li, &t, e, &mutate)));
                if let Err(p) = r {
                    w.emit(json!(["panic", li, e, p]));
                }
            }
        }
    }
    let events = w.finish();
    println!("{{\"events\":{events}}}");
}
