//! Driver for spec/Spill.tla (property C41).
//!
//! `--scenarios f --out t --dir d`: replays TLC-generated schedules (write / finish / error /
//! open reader / reader next) on the real `lance_datafusion::spill` (spill files under `d`),
//! on a current-thread tokio runtime with ONE blocking thread.  Futures of the code under test
//! are polled by hand with a flag waker and only when they have been woken.  A "turn" is: poll,
//! then wait for a sentinel `spawn_blocking` (FIFO behind every blocking task the poll may have
//! queued), then yield.  A future that has not been woken after a turn cannot make progress any
//! more in this step and is recorded as "pending" -- no wall-clock time-outs anywhere.
//!
//! `--chunk --out t`: calls chunk_stream / chunk_concat_stream / StrictBatchSizeStream on every
//! input of the universe (batch sizes 0..=max-rows, at most max-batches batches, chunk sizes
//! 1..=max-chunk) and records the rows of every output batch.
//!
//! The driver records, Trace_Spill.tla judges.  `--mutate <name>` swaps in a scratch copy of the
//! code under test (module `mutant`) with one seeded mutation (binding demonstration).
use std::future::Future;
use std::path::PathBuf;
use std::pin::Pin;
use std::sync::atomic::{AtomicBool, Ordering};
use std::sync::{Arc, Mutex};
use std::task::{Context, Poll, Wake, Waker};

use arrow_array::{Int64Array, RecordBatch};
use arrow_schema::{DataType, Field, Schema};
use datafusion::error::DataFusionError;
use datafusion::execution::SendableRecordBatchStream;
use datafusion::physical_plan::stream::RecordBatchStreamAdapter;
use futures::{Stream, StreamExt};
use lance_arrow::memory::MemoryAccumulator;
use lance_datafusion::chunker::{chunk_concat_stream, chunk_stream, StrictBatchSizeStream};
use lance_datafusion::spill::{create_replay_spill, SpillReceiver, SpillSender};
use lance_verif_harness::trace::{Args, TraceWriter};
use serde_json::{json, Value};

static MUTATION: Mutex<&'static str> = Mutex::new("real");
fn mutation() -> &'static str {
    *MUTATION.lock().unwrap()
}

fn schema() -> Arc<Schema> {
    Arc::new(Schema::new(vec![Field::new("ctr", DataType::Int64, false)]))
}
fn batch_of(rows: Vec<i64>) -> RecordBatch {
    RecordBatch::try_new(schema(), vec![Arc::new(Int64Array::from(rows))]).unwrap()
}
fn rows_of(b: &RecordBatch) -> Vec<i64> {
    let a = b.column(0).as_any().downcast_ref::<Int64Array>().unwrap();
    a.iter().map(|v| v.unwrap_or(-1)).collect()
}

// ------------------------------------------------------------------------------------------
// scratch copies with seeded mutations

mod mutant {
    //! Transcribed from /repo/rust/lance-datafusion/src/spill.rs and chunker.rs
    //! (BatchReaderChunker).  Mutation points are marked `MUT`.
    use super::mutation;
    use std::{
        collections::VecDeque,
        io::{BufReader, BufWriter},
        path::PathBuf,
        sync::{Arc, Mutex},
    };

    use arrow::ipc::{reader::StreamReader, writer::StreamWriter};
    use arrow_array::RecordBatch;
    use arrow_schema::{ArrowError, Schema};
    use datafusion::error::DataFusionError;
    use datafusion::{execution::SendableRecordBatchStream, physical_plan::stream::RecordBatchStreamAdapter};
    use futures::StreamExt;
    use lance_arrow::memory::MemoryAccumulator;
    use lance_core::error::LanceOptionExt;

    pub fn create_replay_spill(path: std::path::PathBuf, schema: Arc<Schema>, memory_limit: usize) -> (SpillSender, SpillReceiver) {
        let initial_status = WriteStatus::default();
        let (status_sender, status_receiver) = tokio::sync::watch::channel(initial_status);
        let sender = SpillSender {
            memory_limit,
            path: path.clone(),
            schema: schema.clone(),
            state: SpillState::default(),
            status_sender,
        };
        let receiver = SpillReceiver { status_receiver, path, schema };
        (sender, receiver)
    }

    #[derive(Clone)]
    pub struct SpillReceiver {
        status_receiver: tokio::sync::watch::Receiver<WriteStatus>,
        path: PathBuf,
        schema: Arc<Schema>,
    }
    impl SpillReceiver {
        pub fn read(&self) -> SendableRecordBatchStream {
            let rx = self.status_receiver.clone();
            let reader = SpillReader::new(rx, self.path.clone());
            let stream = futures::stream::try_unfold(reader, move |mut reader| async move {
                match reader.read().await {
                    Ok(None) => Ok(None),
                    Ok(Some(batch)) => Ok(Some((batch, reader))),
                    Err(err) => Err(err),
                }
            });
            Box::pin(RecordBatchStreamAdapter::new(self.schema.clone(), stream))
        }
    }
    struct SpillReader {
        pub batches_read: usize,
        receiver: tokio::sync::watch::Receiver<WriteStatus>,
        state: SpillReaderState,
    }
    enum SpillReaderState {
        Buffered { spill_path: PathBuf },
        Reader { reader: AsyncStreamReader },
    }
    impl SpillReader {
        fn new(receiver: tokio::sync::watch::Receiver<WriteStatus>, spill_path: PathBuf) -> Self {
            Self { batches_read: 0, receiver, state: SpillReaderState::Buffered { spill_path } }
        }
        async fn wait_for_more_data(&mut self) -> Result<Option<Arc<[RecordBatch]>>, DataFusionError> {
            let status = self
                .receiver
                .wait_for(|status| status.error.is_some() || status.finished || status.batches_written() > self.batches_read)
                .await
                .map_err(|_| DataFusionError::Execution("Spill has been dropped before reader has finish.".into()))?;
            if let Some(error) = &status.error {
                let mut guard = error.lock().ok().expect_ok()?;
                return Err(DataFusionError::from(&mut (*guard)));
            }
            if let DataLocation::Buffered { batches } = &status.data_location {
                Ok(Some(batches.clone()))
            } else {
                Ok(None)
            }
        }
        async fn get_reader(&mut self) -> Result<&AsyncStreamReader, ArrowError> {
            if let SpillReaderState::Buffered { spill_path } = &self.state {
                let reader = AsyncStreamReader::open(spill_path.clone()).await?;
                if mutation() != "no_skip_on_switch" {
                    // MUT no_skip_on_switch: batches already delivered from memory are delivered again
                    for _ in 0..self.batches_read {
                        reader.read().await?;
                    }
                }
                self.state = SpillReaderState::Reader { reader };
            }
            if let SpillReaderState::Reader { reader } = &mut self.state {
                Ok(reader)
            } else {
                unreachable!()
            }
        }
        async fn read(&mut self) -> Result<Option<RecordBatch>, DataFusionError> {
            let maybe_data = self.wait_for_more_data().await?;
            if let Some(batches) = maybe_data {
                if self.batches_read < batches.len() {
                    let batch = batches[self.batches_read].clone();
                    self.batches_read += 1;
                    Ok(Some(batch))
                } else {
                    Ok(None)
                }
            } else {
                let reader = self.get_reader().await?;
                let batch = reader.read().await?;
                if batch.is_some() {
                    self.batches_read += 1;
                }
                Ok(batch)
            }
        }
    }
    pub struct SpillSender {
        memory_limit: usize,
        schema: Arc<Schema>,
        path: PathBuf,
        state: SpillState,
        status_sender: tokio::sync::watch::Sender<WriteStatus>,
    }
    enum SpillState {
        Buffering { batches: Vec<RecordBatch>, memory_accumulator: MemoryAccumulator },
        Spilling { writer: AsyncStreamWriter, batches_written: usize },
        Finished { batches: Option<Arc<[RecordBatch]>>, batches_written: usize },
        Errored { error: Arc<Mutex<SpillError>> },
    }
    impl Default for SpillState {
        fn default() -> Self {
            Self::Buffering { batches: Vec::new(), memory_accumulator: MemoryAccumulator::default() }
        }
    }
    #[derive(Clone, Debug, Default)]
    struct WriteStatus {
        error: Option<Arc<Mutex<SpillError>>>,
        finished: bool,
        data_location: DataLocation,
    }
    impl WriteStatus {
        fn batches_written(&self) -> usize {
            match &self.data_location {
                DataLocation::Buffered { batches } => batches.len(),
                DataLocation::Spilled { batches_written, .. } => *batches_written,
            }
        }
    }
    #[derive(Clone, Debug)]
    enum DataLocation {
        Buffered { batches: Arc<[RecordBatch]> },
        Spilled { batches_written: usize },
    }
    impl Default for DataLocation {
        fn default() -> Self {
            Self::Buffered { batches: Arc::new([]) }
        }
    }
    #[derive(Debug)]
    enum SpillError {
        Original(DataFusionError),
        Copy(DataFusionError),
    }
    impl From<DataFusionError> for SpillError {
        fn from(err: DataFusionError) -> Self {
            Self::Original(err)
        }
    }
    impl From<&mut SpillError> for DataFusionError {
        fn from(err: &mut SpillError) -> Self {
            match err {
                SpillError::Original(inner) => {
                    let copy = Self::Execution(inner.to_string());
                    let original = std::mem::replace(err, SpillError::Copy(copy));
                    if let SpillError::Original(inner) = original {
                        inner
                    } else {
                        unreachable!()
                    }
                }
                SpillError::Copy(Self::Execution(message)) => Self::Execution(message.clone()),
                _ => unreachable!(),
            }
        }
    }
    impl From<&SpillState> for WriteStatus {
        fn from(state: &SpillState) -> Self {
            match state {
                SpillState::Buffering { batches, .. } => Self {
                    finished: false,
                    data_location: DataLocation::Buffered { batches: batches.clone().into() },
                    error: None,
                },
                SpillState::Spilling { batches_written, .. } => Self {
                    finished: false,
                    data_location: DataLocation::Spilled { batches_written: *batches_written },
                    error: None,
                },
                SpillState::Finished { batches_written, batches } => {
                    let data_location = if let Some(batches) = batches {
                        DataLocation::Buffered { batches: batches.clone() }
                    } else {
                        DataLocation::Spilled { batches_written: *batches_written }
                    };
                    Self { finished: true, data_location, error: None }
                }
                SpillState::Errored { error } => Self {
                    finished: true,
                    data_location: DataLocation::default(),
                    error: Some(error.clone()),
                },
            }
        }
    }
    impl SpillSender {
        pub async fn write(&mut self, batch: RecordBatch) -> Result<(), DataFusionError> {
            if let SpillState::Finished { .. } = self.state {
                return Err(DataFusionError::Execution("Spill has already been finished".to_string()));
            }
            if let SpillState::Errored { .. } = &self.state {
                return Err(DataFusionError::Execution("Spill has sent an error".to_string()));
            }
            let (writer, batches_written) = match &mut self.state {
                SpillState::Buffering { batches, ref mut memory_accumulator } => {
                    memory_accumulator.record_batch(&batch);
                    // MUT limit_ge: spills one batch early
                    let over = if mutation() == "limit_ge" {
                        memory_accumulator.total() >= self.memory_limit
                    } else {
                        memory_accumulator.total() > self.memory_limit
                    };
                    if over {
                        let writer = AsyncStreamWriter::open(self.path.clone(), self.schema.clone()).await?;
                        let batches_written = batches.len();
                        for (k, batch) in batches.drain(..).enumerate() {
                            if mutation() == "spill_drops_first" && k == 0 {
                                continue; // MUT: the first buffered batch never reaches the file
                            }
                            writer.write(batch).await?;
                        }
                        self.state = SpillState::Spilling { writer, batches_written };
                        if let SpillState::Spilling { writer, batches_written } = &mut self.state {
                            (writer, batches_written)
                        } else {
                            unreachable!()
                        }
                    } else {
                        batches.push(batch);
                        self.status_sender.send_replace(WriteStatus::from(&self.state));
                        return Ok(());
                    }
                }
                SpillState::Spilling { writer, batches_written } => (writer, batches_written),
                _ => unreachable!(),
            };
            writer.write(batch).await?;
            *batches_written += 1;
            self.status_sender.send_replace(WriteStatus::from(&self.state));
            Ok(())
        }
        pub fn send_error(&mut self, err: DataFusionError) {
            let error = Arc::new(Mutex::new(err.into()));
            self.state = SpillState::Errored { error };
            self.status_sender.send_replace(WriteStatus::from(&self.state));
        }
        pub async fn finish(&mut self) -> Result<(), DataFusionError> {
            let tmp_state = SpillState::Finished { batches_written: 0, batches: None };
            match std::mem::replace(&mut self.state, tmp_state) {
                SpillState::Buffering { batches, .. } => {
                    let batches_written = batches.len();
                    self.state = SpillState::Finished { batches_written, batches: Some(batches.into()) };
                    if mutation() != "finish_no_notify" {
                        // MUT finish_no_notify: readers are never told that the spill is complete
                        self.status_sender.send_replace(WriteStatus::from(&self.state));
                    }
                }
                SpillState::Spilling { writer, batches_written } => {
                    writer.finish().await?;
                    self.state = SpillState::Finished { batches_written, batches: None };
                    if mutation() != "finish_no_notify" {
                        self.status_sender.send_replace(WriteStatus::from(&self.state));
                    }
                }
                SpillState::Finished { .. } => {
                    return Err(DataFusionError::Execution("Spill has already been finished".to_string()));
                }
                SpillState::Errored { .. } => {
                    return Err(DataFusionError::Execution("Spill has sent an error".to_string()));
                }
            };
            Ok(())
        }
    }
    struct AsyncStreamWriter {
        writer: Arc<Mutex<StreamWriter<BufWriter<std::fs::File>>>>,
    }
    impl AsyncStreamWriter {
        pub async fn open(path: PathBuf, schema: Arc<Schema>) -> Result<Self, ArrowError> {
            let writer = tokio::task::spawn_blocking(move || {
                let file = std::fs::File::create(&path).map_err(ArrowError::from)?;
                let writer = BufWriter::new(file);
                StreamWriter::try_new(writer, &schema)
            })
            .await
            .unwrap()?;
            Ok(Self { writer: Arc::new(Mutex::new(writer)) })
        }
        pub async fn write(&self, batch: RecordBatch) -> Result<(), ArrowError> {
            let writer = self.writer.clone();
            tokio::task::spawn_blocking(move || {
                let mut writer = writer.lock().unwrap();
                writer.write(&batch)?;
                writer.flush()
            })
            .await
            .unwrap()
        }
        pub async fn finish(self) -> Result<(), ArrowError> {
            let writer = self.writer.clone();
            tokio::task::spawn_blocking(move || {
                let mut writer = writer.lock().unwrap();
                writer.finish()
            })
            .await
            .unwrap()
        }
    }
    struct AsyncStreamReader {
        reader: Arc<Mutex<StreamReader<BufReader<std::fs::File>>>>,
    }
    impl AsyncStreamReader {
        pub async fn open(path: PathBuf) -> Result<Self, ArrowError> {
            let reader = tokio::task::spawn_blocking(move || {
                let file = std::fs::File::open(&path).map_err(ArrowError::from)?;
                let reader = BufReader::new(file);
                StreamReader::try_new(reader, None)
            })
            .await
            .unwrap()?;
            Ok(Self { reader: Arc::new(Mutex::new(reader)) })
        }
        pub async fn read(&self) -> Result<Option<RecordBatch>, ArrowError> {
            let reader = self.reader.clone();
            tokio::task::spawn_blocking(move || {
                let mut reader = reader.lock().unwrap();
                reader.next()
            })
            .await
            .unwrap()
            .transpose()
        }
    }

    // ---- chunker.rs: BatchReaderChunker / chunk_stream ----
    struct BatchReaderChunker {
        inner: SendableRecordBatchStream,
        buffered: VecDeque<RecordBatch>,
        output_size: usize,
        i: usize,
    }
    impl BatchReaderChunker {
        fn buffered_len(&self) -> usize {
            let buffer_total: usize = self.buffered.iter().map(|batch| batch.num_rows()).sum();
            buffer_total - self.i
        }
        async fn fill_buffer(&mut self) -> lance_core::Result<()> {
            while self.buffered_len() < self.output_size {
                match self.inner.next().await {
                    Some(Ok(batch)) => self.buffered.push_back(batch),
                    Some(Err(e)) => return Err(e.into()),
                    None => break,
                }
            }
            Ok(())
        }
        async fn next(&mut self) -> Option<lance_core::Result<Vec<RecordBatch>>> {
            match self.fill_buffer().await {
                Ok(_) => {}
                Err(e) => return Some(Err(e)),
            };
            let mut batches = Vec::new();
            let mut rows_collected = 0;
            while rows_collected < self.output_size {
                if let Some(batch) = self.buffered.pop_front() {
                    if batch.num_rows() == 0 {
                        continue;
                    }
                    let rows_remaining_in_batch = batch.num_rows() - self.i;
                    let rows_to_take = std::cmp::min(rows_remaining_in_batch, self.output_size - rows_collected);
                    if rows_to_take == rows_remaining_in_batch {
                        let batch = if self.i == 0 { batch } else { batch.slice(self.i, rows_to_take) };
                        batches.push(batch);
                        if mutation() != "chunk_keep_offset" {
                            self.i = 0; // MUT chunk_keep_offset: the offset leaks into the next batch
                        }
                    } else {
                        batches.push(batch.slice(self.i, rows_to_take));
                        self.i += rows_to_take;
                        self.buffered.push_front(batch);
                    }
                    rows_collected += rows_to_take;
                } else {
                    break;
                }
            }
            if batches.is_empty() {
                None
            } else {
                Some(Ok(batches))
            }
        }
    }
    pub fn chunk_stream(
        stream: SendableRecordBatchStream,
        chunk_size: usize,
    ) -> std::pin::Pin<Box<dyn futures::Stream<Item = lance_core::Result<Vec<RecordBatch>>> + Send>> {
        let chunker = BatchReaderChunker { inner: stream, buffered: VecDeque::new(), output_size: chunk_size, i: 0 };
        futures::stream::unfold(chunker, |mut chunker| async move {
            match chunker.next().await {
                Some(Ok(batches)) => Some((Ok(batches), chunker)),
                Some(Err(e)) => Some((Err(e), chunker)),
                None => None,
            }
        })
        .fuse()
        .boxed()
    }
}

// ------------------------------------------------------------------------------------------

enum Snd {
    Real(SpillSender),
    Mut(mutant::SpillSender),
}
enum Rcv {
    Real(SpillReceiver),
    Mut(mutant::SpillReceiver),
}
type LocalFut<'a, T> = Pin<Box<dyn Future<Output = T> + 'a>>;
impl Snd {
    fn write(&mut self, b: RecordBatch) -> LocalFut<'_, Result<(), DataFusionError>> {
        match self {
            Self::Real(s) => Box::pin(s.write(b)),
            Self::Mut(s) => Box::pin(s.write(b)),
        }
    }
    fn finish(&mut self) -> LocalFut<'_, Result<(), DataFusionError>> {
        match self {
            Self::Real(s) => Box::pin(s.finish()),
            Self::Mut(s) => Box::pin(s.finish()),
        }
    }
    fn send_error(&mut self, e: DataFusionError) {
        match self {
            Self::Real(s) => s.send_error(e),
            Self::Mut(s) => s.send_error(e),
        }
    }
}
impl Rcv {
    fn read(&self) -> SendableRecordBatchStream {
        match self {
            Self::Real(r) => r.read(),
            Self::Mut(r) => r.read(),
        }
    }
}

struct Flag(AtomicBool);
impl Wake for Flag {
    fn wake(self: Arc<Self>) {
        self.0.store(true, Ordering::SeqCst);
    }
}

/// Poll `fut` only when woken; after every Pending wait for the blocking pool to drain (sentinel)
/// and yield once.  Returns (result, polls).
async fn drive<T>(fut: &mut Pin<Box<dyn Future<Output = T> + '_>>, flag: &Arc<Flag>, max_turns: usize) -> (Option<T>, usize) {
    let waker = Waker::from(flag.clone());
    let mut polls = 0;
    for _ in 0..max_turns {
        if !flag.0.swap(false, Ordering::SeqCst) {
            return (None, polls); // not woken: nothing can change any more in this step
        }
        polls += 1;
        let mut cx = Context::from_waker(&waker);
        if let Poll::Ready(v) = fut.as_mut().poll(&mut cx) {
            return (Some(v), polls);
        }
        tokio::task::spawn_blocking(|| ()).await.unwrap();
        tokio::task::yield_now().await;
    }
    (None, polls)
}

struct Reader {
    stream: SendableRecordBatchStream,
    flag: Arc<Flag>,
    waiting: bool,
    dead: bool,
}

fn err_class(e: &DataFusionError) -> String {
    let m = e.to_string();
    if m.contains("already been finished") {
        "finished".into()
    } else if m.contains("has sent an error") {
        "errored".into()
    } else if m.contains("injected spill error") {
        "injected".into()
    } else {
        format!("other:{}", &m[..m.len().min(160)])
    }
}

async fn run_scenario(sc: &Value, id: u64, dir: &str, unit: usize, turns: usize, out: &mut Vec<Value>) {
    let limit2 = sc["limit2"].as_u64().unwrap() as usize;
    let limit_bytes = if limit2 >= 1_000_000 { usize::MAX / 4 } else { limit2 * unit / 2 };
    let path = PathBuf::from(format!("{dir}/spill-{id}.arrow"));
    let _ = std::fs::remove_file(&path);
    out.push(json!({"k": "reset", "sc": id, "limit2": limit2, "unit": unit,
                    "limit_bytes": if limit2 >= 1_000_000 { -1i64 } else { limit_bytes as i64 }}));
    let (mut snd, rcv) = if mutation() == "real" {
        let (s, r) = create_replay_spill(path.clone(), schema(), limit_bytes);
        (Snd::Real(s), Rcv::Real(r))
    } else {
        let (s, r) = mutant::create_replay_spill(path.clone(), schema(), limit_bytes);
        (Snd::Mut(s), Rcv::Mut(r))
    };
    let mut readers: Vec<Reader> = Vec::new();
    let mut next_batch: i64 = 0;
    let mut broken = false;
    for (i, step) in sc["steps"].as_array().unwrap().iter().enumerate() {
        let op = step[0].as_str().unwrap();
        let a = step[1].as_i64().unwrap();
        let mut extra = json!({});
        let res: Value = if broken {
            json!(["skipped"])
        } else {
            match op {
                "write" => {
                    // batch k carries the rows 3k, 3k+1, 3k+2; a write the model expects to be rejected
                    // (a = -1) carries the next rows too
                    let k = if a >= 0 { a } else { next_batch };
                    let b = batch_of(vec![3 * k, 3 * k + 1, 3 * k + 2]);
                    let flag = Arc::new(Flag(AtomicBool::new(true)));
                    let mut fut = snd.write(b);
                    let (r, polls) = drive(&mut fut, &flag, turns).await;
                    extra["polls"] = json!(polls);
                    match r {
                        Some(Ok(())) => {
                            next_batch += 1;
                            json!(["ok"])
                        }
                        Some(Err(e)) => json!(["err", err_class(&e)]),
                        None => {
                            broken = true;
                            json!(["pending"])
                        }
                    }
                }
                "finish" => {
                    let flag = Arc::new(Flag(AtomicBool::new(true)));
                    let mut fut = snd.finish();
                    let (r, polls) = drive(&mut fut, &flag, turns).await;
                    extra["polls"] = json!(polls);
                    match r {
                        Some(Ok(())) => json!(["ok"]),
                        Some(Err(e)) => json!(["err", err_class(&e)]),
                        None => {
                            broken = true;
                            json!(["pending"])
                        }
                    }
                }
                "error" => {
                    snd.send_error(DataFusionError::Execution("injected spill error".into()));
                    json!(["ok"])
                }
                "open" => {
                    readers.push(Reader {
                        stream: rcv.read(),
                        flag: Arc::new(Flag(AtomicBool::new(true))),
                        waiting: false,
                        dead: false,
                    });
                    json!(["ok", readers.len()])
                }
                "next" => {
                    let r = &mut readers[(a - 1) as usize];
                    if r.dead {
                        json!(["skipped"])
                    } else {
                        if !r.waiting {
                            r.flag.0.store(true, Ordering::SeqCst); // a fresh call may always poll
                        }
                        extra["woken"] = json!(r.flag.0.load(Ordering::SeqCst));
                        let flag = r.flag.clone();
                        let mut fut: Pin<Box<dyn Future<Output = _>>> = Box::pin(r.stream.next());
                        let (v, polls) = drive(&mut fut, &flag, turns).await;
                        drop(fut);
                        extra["polls"] = json!(polls);
                        match v {
                            Some(Some(Ok(b))) => {
                                r.waiting = false;
                                json!(["batch", rows_of(&b)])
                            }
                            Some(Some(Err(e))) => {
                                r.dead = true;
                                json!(["error", err_class(&e)])
                            }
                            Some(None) => {
                                r.dead = true;
                                json!(["end"])
                            }
                            None => {
                                r.waiting = true;
                                json!(["pending"])
                            }
                        }
                    }
                }
                _ => json!(["unknown-step"]),
            }
        };
        let mut ev = json!({"k": "step", "sc": id, "i": i + 1, "step": step, "res": res, "file": path.exists()});
        for (k, v) in extra.as_object().unwrap() {
            ev[k] = v.clone();
        }
        out.push(ev);
    }
    drop(readers);
    drop(snd);
    let _ = std::fs::remove_file(&path);
}

fn panic_msg(e: Box<dyn std::any::Any + Send>) -> String {
    e.downcast_ref::<&str>()
        .map(|s| s.to_string())
        .or_else(|| e.downcast_ref::<String>().cloned())
        .unwrap_or_else(|| "panic".into())
}

fn new_rt() -> tokio::runtime::Runtime {
    tokio::runtime::Builder::new_current_thread()
        .max_blocking_threads(1)
        .enable_all()
        .build()
        .unwrap()
}

// ------------------------------------------------------------------------------------------
// chunker universe

fn input_stream(sizes: &[usize]) -> SendableRecordBatchStream {
    let mut from = 0i64;
    let mut batches = Vec::new();
    for s in sizes {
        batches.push(Ok(batch_of((from..from + *s as i64).collect())));
        from += *s as i64;
    }
    Box::pin(RecordBatchStreamAdapter::new(schema(), futures::stream::iter(batches)))
}

async fn collect_rows<S, E: std::fmt::Display>(mut s: S) -> Value
where
    S: Stream<Item = Result<RecordBatch, E>> + Unpin,
{
    let mut out = Vec::new();
    while let Some(x) = s.next().await {
        match x {
            Ok(b) => out.push(json!(rows_of(&b))),
            Err(e) => return json!(["error", e.to_string()]),
        }
    }
    json!(out)
}

struct TraceBuf(Vec<Value>);
impl TraceBuf {
    fn emit(&mut self, v: Value) {
        self.0.push(v);
    }
}

async fn chunk_case(sizes: &[usize], n: usize, tw: &mut TraceBuf) {
    // chunk_stream: chunks of slices
    let mut out = Vec::new();
    let mut err = json!("");
    if mutation() == "real" {
        let mut s = chunk_stream(input_stream(sizes), n);
        while let Some(x) = s.next().await {
            match x {
                Ok(bs) => out.push(json!(bs.iter().map(rows_of).collect::<Vec<_>>())),
                Err(e) => err = json!(e.to_string()),
            }
        }
    } else {
        let mut s = mutant::chunk_stream(input_stream(sizes), n);
        while let Some(x) = s.next().await {
            match x {
                Ok(bs) => out.push(json!(bs.iter().map(rows_of).collect::<Vec<_>>())),
                Err(e) => err = json!(e.to_string()),
            }
        }
    }
    tw.emit(json!({"k": "chunk", "fn": "chunk_stream", "sizes": sizes, "n": n, "out": out, "err": err}));
    if mutation() == "real" {
        let o = collect_rows(chunk_concat_stream(input_stream(sizes), n)).await;
        tw.emit(json!({"k": "chunk", "fn": "chunk_concat_stream", "sizes": sizes, "n": n, "out": o, "err": ""}));
        let o = collect_rows(StrictBatchSizeStream::new(input_stream(sizes), n)).await;
        tw.emit(json!({"k": "chunk", "fn": "strict_batch_size_stream", "sizes": sizes, "n": n, "out": o, "err": ""}));
    }
}

fn main() {
    let args = Args::from_env();
    let outp = args.get("out").expect("--out");
    let mutate: &'static str = Box::leak(args.get_or("mutate", "real").into_boxed_str());
    *MUTATION.lock().unwrap() = mutate;
    std::panic::set_hook(Box::new(|_| {}));
    let mut tw = TraceWriter::create(&outp);
    if args.flag("chunk") {
        let max_rows = args.num("max-rows", 4) as usize;
        let max_batches = args.num("max-batches", 4) as usize;
        let max_chunk = args.num("max-chunk", 5) as usize;
        tw.emit(json!({"k": "universe", "max_rows": max_rows, "max_batches": max_batches, "max_chunk": max_chunk}));
        let rt = new_rt();
        rt.block_on(async {
            for len in 0..=max_batches {
                let total = (max_rows + 1).pow(len as u32);
                for code in 0..total {
                    let mut c = code;
                    let sizes: Vec<usize> = (0..len)
                        .map(|_| {
                            let d = c % (max_rows + 1);
                            c /= max_rows + 1;
                            d
                        })
                        .collect();
                    for n in 1..=max_chunk {
                        // a panic inside the code under test is data
                        let mut evs = TraceBuf(Vec::new());
                        let r = futures::FutureExt::catch_unwind(std::panic::AssertUnwindSafe(chunk_case(&sizes, n, &mut evs))).await;
                        for e in evs.0 {
                            tw.emit(e);
                        }
                        if let Err(e) = r {
                            tw.emit(json!({"k": "chunk", "fn": "panic", "sizes": sizes, "n": n, "out": [], "err": panic_msg(e)}));
                        }
                    }
                }
            }
        });
        let c = tw.finish();
        println!("{{\"events\": {c}}}");
        return;
    }
    let scen = args.get("scenarios").expect("--scenarios");
    let dir = args.get("dir").expect("--dir");
    std::fs::create_dir_all(&dir).unwrap();
    let turns = args.num("turns", 24) as usize;
    // accounted size of one batch, measured with lance's own accumulator
    let unit = {
        let mut acc = MemoryAccumulator::default();
        acc.record_batch(&batch_of(vec![0, 1, 2]));
        acc.total()
    };
    let text = std::fs::read_to_string(&scen).expect("scenario file");
    let mut n = 0;
    for (i, line) in text.lines().filter(|l| !l.trim().is_empty()).enumerate() {
        let sc: Value = serde_json::from_str(line).unwrap();
        let id = sc["id"].as_u64().unwrap_or(i as u64);
        let mut evs = Vec::new();
        let r = std::panic::catch_unwind(std::panic::AssertUnwindSafe(|| {
            let rt = new_rt();
            rt.block_on(run_scenario(&sc, id, &dir, unit, turns, &mut evs));
        }));
        for e in evs {
            tw.emit(e);
        }
        if let Err(e) = r {
            tw.emit(json!({"k": "panic", "sc": id, "msg": panic_msg(e)}));
        }
        n += 1;
    }
    let c = tw.finish();
    println!("{{\"scenarios\": {n}, \"events\": {c}}}");
}
