//! Driver for spec/LanceTable.tla: replays operation histories (TLC-generated scenarios) on real
//! lance datasets and records, after every step, the result class and the projected state.
//!
//! Scenario (one JSON object per line):
//!   {"id": <n>, "stable": bool, "cols": ["id","val"], "steps": [ step, ... ]}
//! Steps name a *handle* ("h"); handles may be stale (checked out at an old version), which is how
//! concurrent transactions are expressed: an operation on a stale handle is a transaction whose read
//! version is the handle's version and which commits now (conflict_retries = 0).
use std::collections::HashMap;
use std::path::PathBuf;
use std::sync::Arc;

use futures::FutureExt;
use lance::dataset::optimize::{compact_files, CompactionOptions};
use lance::dataset::transaction::Transaction;
use lance::dataset::{
    CommitBuilder, Dataset, DeleteBuilder, InsertBuilder, MergeInsertBuilder, NewColumnTransform,
    UpdateBuilder, WhenMatched, WhenNotMatched, WhenNotMatchedBySource, WriteMode, WriteParams,
};
use lance_index::DatasetIndexExt;
use lance_core::utils::mask::RowIdTreeMap;
use lance_index::scalar::ScalarIndexParams;
use lance_index::IndexType;
use lance_verif_harness::tablekit::*;
use lance_verif_harness::trace::{Args, TraceWriter};
use serde_json::{json, Value};

struct Ctx {
    session: Option<Arc<lance::session::Session>>,
    storage_version: Option<String>,
    uri: String,
    cols: Vec<String>,
    stable: bool,
    handles: HashMap<String, Dataset>,
    txns: HashMap<String, (Transaction, Option<RowIdTreeMap>, String)>,
}

fn wparams(ctx: &Ctx, mode: WriteMode, step: &Value) -> WriteParams {
    WriteParams {
        mode,
        enable_stable_row_ids: ctx.stable,
        max_rows_per_file: step.get("max_rows_per_file").and_then(|v| v.as_u64()).unwrap_or(1 << 20) as usize,
        max_rows_per_group: step.get("max_rows_per_group").and_then(|v| v.as_u64()).unwrap_or(1024) as usize,
        session: ctx.session.clone(),
        data_storage_version: ctx
            .storage_version
            .as_ref()
            .map(|v| v.parse::<lance_file::version::LanceFileVersion>().expect("storage version")),
        ..Default::default()
    }
}

fn sql_pred(p: &Value) -> String {
    // abstract predicates: ["in", col, [v..]] | ["cmp", col, op, v] | ["isnull", col] | ["notnull", col]
    // | ["and", p, q] | ["or", p, q] | ["not", p] | ["true"] | ["false"] | ["sql", text]
    let a = p.as_array().unwrap();
    match a[0].as_str().unwrap() {
        "in" => {
            let vs: Vec<String> = a[2].as_array().unwrap().iter().map(lit).collect();
            if vs.is_empty() {
                "false".into()
            } else {
                format!("{} IN ({})", a[1].as_str().unwrap(), vs.join(", "))
            }
        }
        "cmp" => format!("{} {} {}", a[1].as_str().unwrap(), a[2].as_str().unwrap(), lit(&a[3])),
        "between" => format!("{} BETWEEN {} AND {}", a[1].as_str().unwrap(), lit(&a[2]), lit(&a[3])),
        "isnull" => format!("{} IS NULL", a[1].as_str().unwrap()),
        "notnull" => format!("{} IS NOT NULL", a[1].as_str().unwrap()),
        "and" => format!("({}) AND ({})", sql_pred(&a[1]), sql_pred(&a[2])),
        "or" => format!("({}) OR ({})", sql_pred(&a[1]), sql_pred(&a[2])),
        "not" => format!("NOT ({})", sql_pred(&a[1])),
        "true" => "true".into(),
        "false" => "false".into(),
        "sql" => a[1].as_str().unwrap().to_string(),
        other => panic!("unknown predicate {other}"),
    }
}
fn lit(v: &Value) -> String {
    let n = v.as_i64().unwrap();
    if n == NULL {
        "NULL".into()
    } else {
        n.to_string()
    }
}

/// Open the table; through the scenario's shared session when there is one (C38).
async fn open_ds(ctx: &Ctx) -> lance::Result<Dataset> {
    match &ctx.session {
        Some(s) => {
            lance::dataset::builder::DatasetBuilder::from_uri(&ctx.uri)
                .with_session(s.clone())
                .load()
                .await
        }
        None => Dataset::open(&ctx.uri).await,
    }
}

fn copy_dir(src: &std::path::Path, dst: &std::path::Path) -> std::io::Result<()> {
    std::fs::create_dir_all(dst)?;
    for e in std::fs::read_dir(src)? {
        let e = e?;
        let to = dst.join(e.file_name());
        if e.file_type()?.is_dir() {
            copy_dir(&e.path(), &to)?;
        } else {
            std::fs::copy(e.path(), &to)?;
        }
    }
    Ok(())
}

async fn latest_projection(ctx: &Ctx) -> Value {
    match open_ds(ctx).await {
        Ok(ds) => match project(&ds).await {
            Ok(p) => p,
            Err(e) => json!({"error": classify(&e), "text": err_text(&e)}),
        },
        Err(e) => json!({"error": classify(&e), "text": err_text(&e)}),
    }
}

fn res_of<T>(r: &lance::Result<T>) -> (String, String) {
    match r {
        Ok(_) => ("ok".into(), String::new()),
        Err(e) => (classify(e), err_text(e)),
    }
}

async fn exec_step(ctx: &mut Ctx, step: &Value) -> (String, String, Value) {
    let op = step["op"].as_str().unwrap().to_string();
    let h = step.get("h").and_then(|v| v.as_str()).unwrap_or("main").to_string();
    let mut extra = json!({});
    let retries = step.get("retries").and_then(|v| v.as_u64()).unwrap_or(0) as u32;
    macro_rules! handle {
        () => {
            match ctx.handles.get(&h) {
                Some(d) => d.clone(),
                None => return ("nohandle".into(), String::new(), extra),
            }
        };
    }
    let (res, text) = match op.as_str() {
        "create" | "overwrite" => {
            let rows = rows_of(&step["rows"]);
            let cols = if step.get("cols").is_some() { strs_of(&step["cols"]) } else { ctx.cols.clone() };
            let mode = if op == "create" { WriteMode::Create } else { WriteMode::Overwrite };
            let p = wparams(ctx, mode, step);
            let r = if op == "create" {
                InsertBuilder::new(ctx.uri.as_str()).with_params(&p).execute(vec![batch(&cols, &rows)]).await
            } else {
                let d = Arc::new(handle!());
                InsertBuilder::new(d).with_params(&p).execute(vec![batch(&cols, &rows)]).await
            };
            let out = res_of(&r);
            if let Ok(d) = r {
                ctx.handles.insert(h.clone(), d);
            }
            out
        }
        "append" => {
            let rows = rows_of(&step["rows"]);
            let cols = if step.get("cols").is_some() { strs_of(&step["cols"]) } else { ctx.cols.clone() };
            let d = Arc::new(handle!());
            let p = wparams(ctx, WriteMode::Append, step);
            let r = InsertBuilder::new(d).with_params(&p).execute(vec![batch(&cols, &rows)]).await;
            let out = res_of(&r);
            if let Ok(d) = r {
                ctx.handles.insert(h.clone(), d);
            }
            out
        }
        "begin_append" => {
            let rows = rows_of(&step["rows"]);
            let d = Arc::new(handle!());
            let p = wparams(ctx, WriteMode::Append, step);
            let r = InsertBuilder::new(d).with_params(&p).execute_uncommitted(vec![batch(&ctx.cols, &rows)]).await;
            let out = res_of(&r);
            if let Ok(t) = r {
                ctx.txns.insert(step["t"].as_str().unwrap().into(), (t, None, h.clone()));
            }
            out
        }
        "checkout" => {
            let from = step.get("from").and_then(|v| v.as_str()).unwrap_or("main").to_string();
            let src = match ctx.handles.get(&from) {
                Some(d) => d.clone(),
                None => return ("nohandle".into(), String::new(), extra),
            };
            let r = src.checkout_version(step["v"].as_u64().unwrap()).await;
            let out = res_of(&r);
            if let Ok(d) = r {
                ctx.handles.insert(h.clone(), d);
            }
            out
        }
        "refresh" => {
            let mut d = handle!();
            let r = d.checkout_latest().await;
            let out = res_of(&r);
            ctx.handles.insert(h.clone(), d);
            out
        }
        "delete" => {
            let d = Arc::new(handle!());
            let r = DeleteBuilder::new(d, sql_pred(&step["pred"])).conflict_retries(retries).execute().await;
            let out = res_of(&r);
            if let Ok(d) = r {
                ctx.handles.insert(h.clone(), (*d).clone());
            }
            out
        }
        "update" => {
            let d = Arc::new(handle!());
            let mut b = UpdateBuilder::new(d);
            let mut err = None;
            if let Some(p) = step.get("pred") {
                match b.update_where(&sql_pred(p)) {
                    Ok(nb) => b = nb,
                    Err(e) => {
                        err = Some(e);
                        b = UpdateBuilder::new(Arc::new(handle!()));
                    }
                }
            }
            if err.is_none() {
                for s in step["set"].as_array().unwrap() {
                    let s = s.as_array().unwrap();
                    match b.set(s[0].as_str().unwrap(), s[1].as_str().unwrap()) {
                        Ok(nb) => b = nb,
                        Err(e) => {
                            err = Some(e);
                            b = UpdateBuilder::new(Arc::new(handle!()));
                            break;
                        }
                    }
                }
            }
            let r = match err {
                Some(e) => Err(e),
                None => match b.conflict_retries(retries).build() {
                    Ok(job) => job.execute().await,
                    Err(e) => Err(e),
                },
            };
            let out = res_of(&r);
            if let Ok(u) = r {
                extra = json!({"rows_updated": u.rows_updated});
                ctx.handles.insert(h.clone(), (*u.new_dataset).clone());
            }
            out
        }
        "merge_insert" | "begin_merge_insert" => {
            let d = Arc::new(handle!());
            let on = if step.get("on").is_some() { strs_of(&step["on"]) } else { vec!["id".to_string()] };
            let src_cols = if step.get("cols").is_some() { strs_of(&step["cols"]) } else { ctx.cols.clone() };
            let rows = rows_of(&step["src"]);
            let built = (|| {
                let mut b = MergeInsertBuilder::try_new(d.clone(), on)?;
                b.when_matched(match step["matched"].as_str().unwrap_or("update_all") {
                    "update_all" => WhenMatched::UpdateAll,
                    "do_nothing" => WhenMatched::DoNothing,
                    "fail" => WhenMatched::Fail,
                    s if s.starts_with("update_if:") => WhenMatched::update_if(&d, &s[10..])?,
                    s => panic!("matched {s}"),
                });
                b.when_not_matched(match step["not_matched"].as_str().unwrap_or("insert_all") {
                    "insert_all" => WhenNotMatched::InsertAll,
                    _ => WhenNotMatched::DoNothing,
                });
                b.when_not_matched_by_source(match step["nmbs"].as_str().unwrap_or("keep") {
                    "keep" => WhenNotMatchedBySource::Keep,
                    "delete" => WhenNotMatchedBySource::Delete,
                    s if s.starts_with("delete_if:") => WhenNotMatchedBySource::delete_if(&d, &s[10..])?,
                    s => panic!("nmbs {s}"),
                });
                b.conflict_retries(retries);
                if let Some(ui) = step.get("use_index").and_then(|v| v.as_bool()) {
                    b.use_index(ui);
                }
                b.try_build()
            })();
            match built {
                Err(e) => (classify(&e), err_text(&e)),
                Ok(job) => {
                    let rdr = reader(&src_cols, &rows);
                    if op == "merge_insert" {
                        let r = job
                            .execute(lance_datafusion::utils::reader_to_stream(Box::new(rdr)))
                            .await;
                        let out = res_of(&r);
                        if let Ok((d, st)) = r {
                            extra = json!({"ins": st.num_inserted_rows, "upd": st.num_updated_rows, "del": st.num_deleted_rows, "attempts": st.num_attempts});
                            ctx.handles.insert(h.clone(), (*d).clone());
                        }
                        out
                    } else {
                        let r = job.execute_uncommitted(Box::new(rdr) as Box<dyn arrow_array::RecordBatchReader + Send>).await;
                        let out = res_of(&r);
                        if let Ok(u) = r {
                            extra = json!({"ins": u.stats.num_inserted_rows, "upd": u.stats.num_updated_rows, "del": u.stats.num_deleted_rows});
                            ctx.txns.insert(step["t"].as_str().unwrap().into(), (u.transaction, u.affected_rows, h.clone()));
                        }
                        out
                    }
                }
            }
        }
        "commit" => {
            // commit a prepared transaction against the *stale* handle it was prepared on
            let t = step["t"].as_str().unwrap();
            match ctx.txns.remove(t) {
                None => ("notxn".into(), String::new()),
                Some((txn, affected, th)) => {
                    let d = Arc::new(match ctx.handles.get(&th) {
                        Some(d) => d.clone(),
                        None => return ("nohandle".into(), String::new(), extra),
                    });
                    let mut cb = CommitBuilder::new(d).with_max_retries(retries);
                    if let Some(a) = affected {
                        cb = cb.with_affected_rows(a);
                    }
                    let r = cb.execute(txn).await;
                    let out = res_of(&r);
                    if let Ok(d) = r {
                        ctx.handles.insert(th, d);
                    }
                    out
                }
            }
        }
        "compact" => {
            let mut d = handle!();
            let o = CompactionOptions {
                target_rows_per_fragment: step.get("target").and_then(|v| v.as_u64()).unwrap_or(1 << 20) as usize,
                materialize_deletions: step.get("mat").and_then(|v| v.as_bool()).unwrap_or(true),
                materialize_deletions_threshold: step.get("thr").and_then(|v| v.as_f64()).unwrap_or(0.1) as f32,
                defer_index_remap: step.get("defer").and_then(|v| v.as_bool()).unwrap_or(false),
                num_threads: Some(1),
                ..Default::default()
            };
            let r = compact_files(&mut d, o, None).await;
            let out = res_of(&r);
            if let Ok(m) = &r {
                extra = json!({"frags_removed": m.fragments_removed, "frags_added": m.fragments_added});
            }
            ctx.handles.insert(h.clone(), d);
            out
        }
        "restore" => {
            // check out the old version on this handle, then restore it as the new latest
            let d = handle!();
            match d.checkout_version(step["v"].as_u64().unwrap()).await {
                Err(e) => (classify(&e), err_text(&e)),
                Ok(mut old) => {
                    let r = old.restore().await;
                    let out = res_of(&r);
                    ctx.handles.insert(h.clone(), old);
                    out
                }
            }
        }
        "create_index" => {
            let mut d = handle!();
            let col = step["col"].as_str().unwrap();
            let ty = match step.get("type").and_then(|v| v.as_str()).unwrap_or("btree") {
                "bitmap" => IndexType::Bitmap,
                _ => IndexType::BTree,
            };
            let params = ScalarIndexParams::for_builtin(match ty {
                IndexType::Bitmap => lance_index::scalar::BuiltinIndexType::Bitmap,
                _ => lance_index::scalar::BuiltinIndexType::BTree,
            });
            let name = step.get("name").and_then(|v| v.as_str()).map(|s| s.to_string());
            let r = d
                .create_index(&[col], ty, name, &params, step.get("replace").and_then(|v| v.as_bool()).unwrap_or(true))
                .await;
            let out = res_of(&r);
            ctx.handles.insert(h.clone(), d);
            out
        }
        "optimize_indices" => {
            let mut d = handle!();
            let r = d.optimize_indices(&Default::default()).await;
            let out = res_of(&r);
            ctx.handles.insert(h.clone(), d);
            out
        }
        "add_column" => {
            let mut d = handle!();
            let name = step["name"].as_str().unwrap().to_string();
            let expr = step["expr"].as_str().unwrap().to_string();
            let r = d
                .add_columns(NewColumnTransform::SqlExpressions(vec![(name, expr)]), None, None)
                .await;
            let out = res_of(&r);
            ctx.handles.insert(h.clone(), d);
            out
        }
        "join_column" => {
            // Dataset::merge: a new column from a key join on id (NULL where the join finds no match)
            let mut d = handle!();
            let name = step["name"].as_str().unwrap().to_string();
            let rows = rows_of(&step["src"]);
            let r = d.merge(reader(&["id".to_string(), name], &rows), "id", "id").await;
            let out = res_of(&r);
            ctx.handles.insert(h.clone(), d);
            out
        }
        "drop_column" => {
            let mut d = handle!();
            let r = d.drop_columns(&[step["name"].as_str().unwrap()]).await;
            let out = res_of(&r);
            ctx.handles.insert(h.clone(), d);
            out
        }
        "rename_column" => {
            let mut d = handle!();
            let alt = lance::dataset::ColumnAlteration::new(step["name"].as_str().unwrap().to_string())
                .rename(step["to"].as_str().unwrap().to_string());
            let r = d.alter_columns(&[alt]).await;
            let out = res_of(&r);
            ctx.handles.insert(h.clone(), d);
            out
        }
        "update_config" => {
            let mut d = handle!();
            let kv: Vec<(String, String)> = step["kv"]
                .as_array()
                .unwrap()
                .iter()
                .map(|p| (p[0].as_str().unwrap().to_string(), p[1].as_str().unwrap().to_string()))
                .collect();
            #[allow(deprecated)]
            let r = d.update_config(kv).await;
            let out = res_of(&r);
            ctx.handles.insert(h.clone(), d);
            out
        }
        "delete_config" => {
            let mut d = handle!();
            let keys = strs_of(&step["keys"]);
            let ks: Vec<&str> = keys.iter().map(|s| s.as_str()).collect();
            let r = d.delete_config_keys(&ks).await;
            let out = res_of(&r);
            ctx.handles.insert(h.clone(), d);
            out
        }
        "query" => {
            // one filter, many execution-knob variants; every variant's result is recorded
            let filter = sql_pred(&step["pred"]);
            let mut results = vec![];
            let variants = step["variants"].as_array().cloned().unwrap_or_else(|| vec![json!({"name": "base"})]);
            for var in variants {
                let r: lance::Result<(Vec<i64>, Vec<i64>, i64)> = async {
                    let d = open_ds(ctx).await?;
                    let mut sc = d.scan();
                    let mut cols = vec!["id".to_string()];
                    if let Some(oc) = step.get("order").and_then(|o| o.get("col")).and_then(|c| c.as_str()) {
                        if oc != "id" {
                            cols.push(oc.to_string());
                        }
                    }
                    sc.project(&cols)?;
                    if filter != "true" || var.get("force_filter").is_some() {
                        sc.filter(&filter)?;
                    }
                    if let Some(b) = var.get("batch_size").and_then(|v| v.as_u64()) {
                        sc.batch_size(b as usize);
                    }
                    if let Some(b) = var.get("batch_readahead").and_then(|v| v.as_u64()) {
                        sc.batch_readahead(b as usize);
                    }
                    if let Some(b) = var.get("fragment_readahead").and_then(|v| v.as_u64()) {
                        sc.fragment_readahead(b as usize);
                    }
                    if let Some(b) = var.get("scan_in_order").and_then(|v| v.as_bool()) {
                        sc.scan_in_order(b);
                    }
                    if let Some(b) = var.get("use_stats").and_then(|v| v.as_bool()) {
                        sc.use_stats(b);
                    }
                    if let Some(b) = var.get("use_scalar_index").and_then(|v| v.as_bool()) {
                        sc.use_scalar_index(b);
                    }
                    if let Some(b) = var.get("strict_batch_size").and_then(|v| v.as_bool()) {
                        sc.strict_batch_size(b);
                    }
                    if var.get("with_row_id").and_then(|v| v.as_bool()).unwrap_or(false) {
                        sc.with_row_id();
                    }
                    if var.get("with_row_address").and_then(|v| v.as_bool()).unwrap_or(false) {
                        sc.with_row_address();
                    }
                    if let Some(m) = var.get("materialization").and_then(|v| v.as_str()) {
                        sc.materialization_style(match m {
                            "early" => lance::dataset::scanner::MaterializationStyle::AllEarly,
                            "late" => lance::dataset::scanner::MaterializationStyle::AllLate,
                            _ => lance::dataset::scanner::MaterializationStyle::Heuristic,
                        });
                    }
                    if let Some(o) = step.get("order") {
                        let col = o["col"].as_str().unwrap().to_string();
                        let asc = o["asc"].as_bool().unwrap_or(true);
                        let nulls_first = o["nulls_first"].as_bool().unwrap_or(true);
                        sc.order_by(Some(vec![lance::dataset::scanner::ColumnOrdering {
                            ascending: asc,
                            nulls_first,
                            column_name: col,
                        }]))?;
                    }
                    if step.get("limit").is_some() || step.get("offset").is_some() {
                        sc.limit(step.get("limit").and_then(|v| v.as_i64()), step.get("offset").and_then(|v| v.as_i64()))?;
                    }
                    let batches: Vec<arrow_array::RecordBatch> =
                        futures::TryStreamExt::try_collect(sc.try_into_stream().await?).await?;
                    let mut ids = vec![];
                    let mut keys = vec![];
                    let mut max_batch = 0i64;
                    for b in &batches {
                        max_batch = max_batch.max(b.num_rows() as i64);
                        let a = b.column_by_name("id").unwrap();
                        let a = arrow_array::cast::AsArray::as_primitive::<arrow_array::types::Int32Type>(a.as_ref());
                        for i in 0..b.num_rows() {
                            ids.push(a.value(i) as i64);
                        }
                        if cols.len() > 1 {
                            let k = b.column_by_name(&cols[1]).unwrap();
                            let k = arrow_array::cast::AsArray::as_primitive::<arrow_array::types::Int32Type>(k.as_ref());
                            for i in 0..b.num_rows() {
                                keys.push(if arrow_array::Array::is_null(k, i) { NULL } else { k.value(i) as i64 });
                            }
                        }
                    }
                    let cnt = if filter == "true" { d.count_rows(None).await? } else { d.count_rows(Some(filter.clone())).await? };
                    let _ = max_batch;
                    Ok((ids, keys, cnt as i64))
                }
                .await;
                match r {
                    Ok((ids, keys, cnt)) => results.push(json!({"variant": var, "res": "ok", "ids": ids, "keys": keys, "count": cnt})),
                    Err(e) => results.push(json!({"variant": var, "res": classify(&e), "text": err_text(&e), "ids": [], "keys": [], "count": -1})),
                }
            }
            extra = json!({"results": results, "sql": filter});
            ("ok".into(), String::new())
        }
        "take" => {
            // take by offsets in the scan order of the latest version / by row ids
            let r: lance::Result<Value> = async {
                let d = open_ds(ctx).await?;
                let proj = d.schema().project(&["id"])?;
                // by = "addr": keys are [fragment, offset] pairs composed here into 64-bit addresses
                let keys: Vec<u64> = step["keys"]
                    .as_array()
                    .unwrap()
                    .iter()
                    .map(|x| match x.as_array() {
                        Some(p) => (p[0].as_u64().unwrap() << 32) | p[1].as_u64().unwrap(),
                        None => x.as_u64().unwrap(),
                    })
                    .collect();
                let b = if step["by"].as_str() == Some("offset") {
                    d.take(&keys, proj).await?
                } else {
                    d.take_rows(&keys, proj).await?
                };
                let a = b.column_by_name("id").unwrap();
                let a = arrow_array::cast::AsArray::as_primitive::<arrow_array::types::Int32Type>(a.as_ref());
                Ok(json!((0..b.num_rows()).map(|i| a.value(i) as i64).collect::<Vec<_>>()))
            }
            .await;
            let out = res_of(&r);
            if let Ok(v) = r {
                extra = json!({"ids": v});
            }
            out
        }
        "take_probe" => {
            // random access derived from the current table: every position / row id / address once,
            // all of them in reverse order, a duplicate, and one position past the end
            let r: lance::Result<Value> = async {
                let d = open_ds(ctx).await?;
                let p = project(&d).await?;
                let stable = p["stable"].as_bool().unwrap_or(false);
                let mut addrs: Vec<(u64, u64)> = vec![];
                let mut rids: Vec<u64> = vec![];
                for f in p["frags"].as_array().unwrap() {
                    for r in f["rows"].as_array().unwrap() {
                        addrs.push((f["id"].as_u64().unwrap(), r["off"].as_u64().unwrap()));
                        if stable {
                            rids.push(r["rid"].as_u64().unwrap());
                        }
                    }
                }
                let n = addrs.len() as u64;
                let mut plans: Vec<(&str, Vec<Value>)> = vec![];
                plans.push(("offset", (0..n).rev().map(|i| json!(i)).collect()));
                for i in 0..n {
                    plans.push(("offset", vec![json!(i)]));
                }
                if n > 0 {
                    plans.push(("offset", vec![json!(0), json!(n - 1), json!(0)]));
                }
                plans.push(("offset", vec![json!(n)]));
                if stable {
                    plans.push(("rowid", rids.iter().rev().map(|x| json!(x)).collect()));
                    for x in &rids {
                        plans.push(("rowid", vec![json!(x), json!(x)]));
                    }
                }
                // take_rows takes row ids: addresses only when the table has address-style row ids
                if !stable {
                    plans.push(("addr", addrs.iter().rev().map(|(f, o)| json!([f, o])).collect()));
                    for (f, o) in &addrs {
                        plans.push(("addr", vec![json!([f, o])]));
                    }
                }
                let proj = d.schema().project(&["id"])?;
                let mut takes = vec![];
                for (by, keys) in plans {
                    let ks: Vec<u64> = keys
                        .iter()
                        .map(|x| match x.as_array() {
                            Some(p) => (p[0].as_u64().unwrap() << 32) | p[1].as_u64().unwrap(),
                            None => x.as_u64().unwrap(),
                        })
                        .collect();
                    let res = if by == "offset" { d.take(&ks, proj.clone()).await } else { d.take_rows(&ks, proj.clone()).await };
                    match res {
                        Ok(b) => {
                            let a = b.column_by_name("id").unwrap();
                            let a = arrow_array::cast::AsArray::as_primitive::<arrow_array::types::Int32Type>(a.as_ref());
                            let ids: Vec<i64> = (0..b.num_rows()).map(|i| a.value(i) as i64).collect();
                            takes.push(json!({"by": by, "keys": keys, "res": "ok", "ids": ids}));
                        }
                        Err(e) => takes.push(json!({"by": by, "keys": keys, "res": classify(&e), "ids": []})),
                    }
                }
                Ok(json!(takes))
            }
            .await;
            let out = res_of(&r);
            if let Ok(v) = r {
                extra = json!({"takes": v});
            }
            out
        }
        "cleanup" => {
            // remove old versions through handle `h` (possibly stale), then re-read every version
            let d = handle!();
            let policy = lance::dataset::cleanup::CleanupPolicy {
                before_timestamp: None,
                before_version: step.get("before_version").and_then(|v| v.as_u64()),
                delete_unverified: step.get("delete_unverified").and_then(|v| v.as_bool()).unwrap_or(false),
                error_if_tagged_old_versions: step.get("error_if_tagged").and_then(|v| v.as_bool()).unwrap_or(false),
            };
            let hv = d.manifest().version;
            let r = d.cleanup_with_policy(policy).await;
            let out = res_of(&r);
            let mut rereads = vec![];
            let mut tags: Vec<(String, u64)> = vec![];
            if let Ok(l) = Dataset::open(&ctx.uri).await {
                let latest = l.manifest().version;
                for v in 1..=latest {
                    match l.checkout_version(v).await {
                        Ok(dv) => match project(&dv).await {
                            Ok(p) => rereads.push(json!([v, p])),
                            Err(e) => rereads.push(json!([v, {"error": classify(&e)}])),
                        },
                        Err(e) => rereads.push(json!([v, {"error": classify(&e)}])),
                    }
                }
                if let Ok(t) = l.tags().list().await {
                    tags = t.into_iter().map(|(k, v)| (k, v.version)).collect();
                    tags.sort();
                }
            }
            extra = json!({"hv": hv, "old_versions": r.as_ref().map(|s| s.old_versions as i64).unwrap_or(-1),
                           "rereads": rereads, "tags": tags});
            out
        }
        "age_files" => {
            // make every object of the table look older than the cleanup safety window
            fn age(p: &std::path::Path, t: std::time::SystemTime) -> std::io::Result<()> {
                for e in std::fs::read_dir(p)? {
                    let e = e?;
                    if e.file_type()?.is_dir() {
                        age(&e.path(), t)?;
                    } else {
                        std::fs::File::options().write(true).open(e.path())?.set_modified(t)?;
                    }
                }
                Ok(())
            }
            let t = std::time::SystemTime::now() - std::time::Duration::from_secs(9 * 24 * 3600);
            match age(std::path::Path::new(&ctx.uri), t) {
                Ok(_) => ("ok".into(), String::new()),
                Err(e) => ("io".into(), e.to_string()),
            }
        }
        "tag" => {
            let r = async {
                let d = open_ds(ctx).await?;
                d.tags().create(step["name"].as_str().unwrap(), step["v"].as_u64().unwrap()).await
            }
            .await;
            res_of(&r)
        }
        "drop_table" => {
            // remove the table; the scenario re-creates one at the same location (same session)
            ctx.handles.clear();
            ctx.txns.clear();
            match std::fs::remove_dir_all(&ctx.uri) {
                Ok(_) => ("ok".into(), String::new()),
                Err(e) => ("io".into(), e.to_string()),
            }
        }
        "copy_reread" => {
            // C42: copy every object under the root elsewhere, remove the original, read the copy
            let r: lance::Result<Value> = async {
                let d = Dataset::open(&ctx.uri).await?;
                let latest = d.manifest().version;
                let mut tags_before: Vec<(String, u64)> =
                    d.tags().list().await?.into_iter().map(|(k, v)| (k, v.version)).collect();
                tags_before.sort();
                drop(d);
                let src = std::path::PathBuf::from(&ctx.uri);
                let dst = std::path::PathBuf::from(format!("{}_copy", ctx.uri));
                let gone = std::path::PathBuf::from(format!("{}_gone", ctx.uri));
                copy_dir(&src, &dst).map_err(|e| lance::Error::io(e.to_string(), snafu::location!()))?;
                std::fs::rename(&src, &gone).map_err(|e| lance::Error::io(e.to_string(), snafu::location!()))?;
                let out = async {
                    let c = Dataset::open(dst.to_str().unwrap()).await?;
                    let mut projs = vec![];
                    for v in 1..=latest {
                        match c.checkout_version(v).await {
                            Ok(cv) => projs.push(json!([v, project(&cv).await?])),
                            Err(e) => projs.push(json!([v, {"error": classify(&e)}])),
                        }
                    }
                    let mut tags_after: Vec<(String, u64)> =
                        c.tags().list().await?.into_iter().map(|(k, v)| (k, v.version)).collect();
                    tags_after.sort();
                    let mut tag_reads = vec![];
                    for (name, _) in &tags_after {
                        let t = c.checkout_version(name.as_str()).await?;
                        tag_reads.push(json!([name, t.manifest().version]));
                    }
                    Ok::<Value, lance::Error>(json!({"projs": projs, "tags_before": tags_before, "tags_after": tags_after, "tag_reads": tag_reads}))
                }
                .await;
                // put the original back so that later steps (and the final projection) still work
                let _ = std::fs::rename(&gone, &src);
                let _ = std::fs::remove_dir_all(&dst);
                out
            }
            .await;
            let out = res_of(&r);
            if let Ok(v) = r {
                extra = v;
            }
            out
        }
        "reread" => {
            // time travel: project an old version through a fresh open
            let r = async {
                let d = open_ds(ctx).await?;
                let d = d.checkout_version(step["v"].as_u64().unwrap()).await?;
                project(&d).await
            }
            .await;
            let out = res_of(&r);
            if let Ok(p) = r {
                extra = json!({"proj": p});
            }
            out
        }
        "validate" => {
            let r = async {
                let d = open_ds(ctx).await?;
                d.validate().await
            }
            .await;
            res_of(&r)
        }
        other => (format!("unknown-op:{other}"), String::new()),
    };
    (res, text, extra)
}

fn main() {
    let args = Args::from_env();
    let scn_file = args.get("scenarios").expect("--scenarios");
    let out = args.get("out").expect("--out");
    let scratch = PathBuf::from(args.get_or("scratch", "/verif/work/table-scratch"));
    let shard = args.num("shard", 0);
    let nshards = args.num("shards", 1);
    std::fs::create_dir_all(&scratch).unwrap();
    let rt = tokio::runtime::Builder::new_multi_thread().worker_threads(2).enable_all().build().unwrap();
    let mut w = TraceWriter::create(&out);
    let text = std::fs::read_to_string(&scn_file).unwrap();
    let mut n = 0u64;
    for (li, line) in text.lines().enumerate() {
        if line.trim().is_empty() || (li as u64) % nshards != shard {
            continue;
        }
        let scn: Value = serde_json::from_str(line).unwrap();
        let id = scn["id"].clone();
        let dir = scratch.join(format!("s{}_{}", std::process::id(), li));
        let _ = std::fs::remove_dir_all(&dir);
        let mut ctx = Ctx {
            session: scn.get("session").map(|c| {
                Arc::new(lance::session::Session::new(
                    c.get("index_bytes").and_then(|v| v.as_u64()).unwrap_or(6 << 30) as usize,
                    c.get("meta_bytes").and_then(|v| v.as_u64()).unwrap_or(1 << 30) as usize,
                    Default::default(),
                ))
            }),
            storage_version: scn.get("storage_version").and_then(|v| v.as_str()).map(|s| s.to_string()),
            uri: dir.to_str().unwrap().to_string(),
            cols: if scn.get("cols").is_some() { strs_of(&scn["cols"]) } else { vec!["id".into(), "val".into()] },
            stable: scn.get("stable").and_then(|v| v.as_bool()).unwrap_or(false),
            handles: HashMap::new(),
            txns: HashMap::new(),
        };
        w.emit(json!({"ev": "reset", "scn": id, "stable": ctx.stable, "cols": ctx.cols}));
        for (i, step) in scn["steps"].as_array().unwrap().iter().enumerate() {
            let fut = std::panic::AssertUnwindSafe(exec_step(&mut ctx, step)).catch_unwind();
            let (res, text, extra) = match rt.block_on(fut) {
                Ok(x) => x,
                Err(p) => {
                    let msg = p
                        .downcast_ref::<String>()
                        .cloned()
                        .or_else(|| p.downcast_ref::<&str>().map(|s| s.to_string()))
                        .unwrap_or_default();
                    ("panic".to_string(), msg.chars().take(300).collect(), json!({}))
                }
            };
            let proj = if step.get("noproj").is_some() { Value::Null } else { rt.block_on(latest_projection(&ctx)) };
            let hv: HashMap<String, u64> = ctx.handles.iter().map(|(k, d)| (k.clone(), d.manifest().version)).collect();
            w.emit(json!({"ev": "step", "scn": id, "i": i + 1, "step": step, "res": res, "text": text,
                          "extra": extra, "handles": hv, "latest": proj}));
        }
        let _ = std::fs::remove_dir_all(&dir);
        n += 1;
    }
    let events = w.finish();
    println!("{{\"scenarios\":{n},\"events\":{events}}}");
}
