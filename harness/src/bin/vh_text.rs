//! Driver for spec/TextQuery.tla (C23): replays table histories with full-text queries on real lance
//! datasets and records, per query variant, the returned row keys and `_score` values (in returned order).
//! It records; spec/Trace_TextQuery.tla judges.
//!
//! Table: id Int32 (row key), doc Utf8 nullable.  A document is a sequence of token ids
//! (1 "ant", 2 "bee", 3 "cat", 4 "ñandú"); [0] is the NULL document.  The driver renders token ids to
//! text with varying letter case and whitespace (the tokenizer configuration under test is
//! whitespace + lower-case, no stemming, no stop words, no ascii folding).
//! Scenario: {"id": n, "stable": bool, "steps": [step...]}
//! Steps:
//!   {"op":"create"|"append", "rows":[[key, [tok...]]...], "max_rows_per_file": n}
//!   {"op":"delete", "keys":[k...]}
//!   {"op":"index", "with_position": bool}
//!   {"op":"optimize", "mode": "append"|"merge"|"default"}
//!   {"op":"compact"}
//!   {"op":"query", "q": query, "variants":[{"limit": n|null, "upper": bool}...]}
//! Query: ["match", [tok...], "and"|"or"] | ["phrase", [tok...]] | ["bool", [must...], [should...], [must_not...]]
use std::path::PathBuf;
use std::sync::Arc;

use arrow_array::cast::AsArray;
use arrow_array::types::{Float32Type, Int32Type, UInt64Type};
use arrow_array::{Array, ArrayRef, Int32Array, RecordBatch, RecordBatchIterator, StringArray};
use arrow_schema::{DataType, Field, Schema as ArrowSchema};
use futures::{FutureExt, TryStreamExt};
use lance::dataset::optimize::{compact_files, CompactionOptions};
use lance::dataset::{Dataset, WriteMode, WriteParams};
use lance_index::optimize::OptimizeOptions;
use lance_index::scalar::inverted::query::{BooleanQuery, FtsQuery, MatchQuery, Occur, Operator, PhraseQuery};
use lance_index::scalar::{FullTextSearchQuery, InvertedIndexParams};
use lance_index::{DatasetIndexExt, IndexType};
use lance_verif_harness::tablekit::{classify, err_text};
use lance_verif_harness::trace::{Args, TraceWriter};
use serde_json::{json, Value};

const FIDX: &str = "fts";
const WORDS: [&str; 5] = ["", "ant", "bee", "cat", "ñandú"];

fn schema() -> Arc<ArrowSchema> {
    Arc::new(ArrowSchema::new(vec![
        Field::new("id", DataType::Int32, false),
        Field::new("doc", DataType::Utf8, true),
    ]))
}

fn word(t: i64, upper: bool) -> String {
    let w = WORDS[t as usize];
    if upper {
        w.to_uppercase()
    } else {
        w.to_string()
    }
}

/// Render a token sequence as text; case and whitespace vary with (key, position).
fn render_doc(key: i64, toks: &[i64]) -> Option<String> {
    if toks == [0] {
        return None;
    }
    if toks.is_empty() {
        return Some(if key % 2 == 0 { String::new() } else { "   ".to_string() });
    }
    let mut s = String::new();
    if key % 4 == 3 {
        s.push('\t');
    }
    for (i, t) in toks.iter().enumerate() {
        if i > 0 {
            s.push_str(if (key + i as i64) % 2 == 0 { " " } else { "  " });
        }
        let w = word(*t, (key + i as i64) % 3 == 0);
        if (key + i as i64) % 3 == 1 {
            // Capitalised
            let mut cs = w.chars();
            let first: String = cs.next().unwrap().to_uppercase().collect();
            s.push_str(&first);
            s.push_str(cs.as_str());
        } else {
            s.push_str(&w);
        }
    }
    if key % 4 == 3 {
        s.push(' ');
    }
    Some(s)
}

fn toks_of(v: &Value) -> Vec<i64> {
    v.as_array().unwrap().iter().map(|x| x.as_i64().unwrap()).collect()
}

fn batch(rows: &Value) -> RecordBatch {
    let rows = rows.as_array().unwrap();
    let ids = Int32Array::from(rows.iter().map(|r| r[0].as_i64().unwrap() as i32).collect::<Vec<_>>());
    let docs = StringArray::from(
        rows.iter().map(|r| render_doc(r[0].as_i64().unwrap(), &toks_of(&r[1]))).collect::<Vec<Option<String>>>(),
    );
    RecordBatch::try_new(schema(), vec![Arc::new(ids) as ArrayRef, Arc::new(docs)]).unwrap()
}

fn terms(v: &Value, upper: bool) -> String {
    toks_of(v).iter().map(|t| word(*t, upper)).collect::<Vec<_>>().join(" ")
}

struct Ctx {
    uri: String,
    stable: bool,
    mutate: String,
    pre_delete_version: Option<u64>,
    indexed_version: Option<u64>,
}

fn build_query(ctx: &Ctx, q: &Value, upper: bool) -> FtsQuery {
    let a = q.as_array().unwrap();
    match a[0].as_str().unwrap() {
        "match" => {
            let mut op = if a[2].as_str().unwrap() == "and" { Operator::And } else { Operator::Or };
            if ctx.mutate == "and-as-or" {
                op = Operator::Or;
            }
            if ctx.mutate == "or-as-and" {
                op = Operator::And;
            }
            FtsQuery::Match(MatchQuery::new(terms(&a[1], upper)).with_column(Some("doc".into())).with_operator(op))
        }
        "phrase" => {
            if ctx.mutate == "phrase-as-and" {
                FtsQuery::Match(MatchQuery::new(terms(&a[1], upper)).with_column(Some("doc".into())).with_operator(Operator::And))
            } else {
                FtsQuery::Phrase(PhraseQuery::new(terms(&a[1], upper)).with_column(Some("doc".into())))
            }
        }
        "bool" => {
            let mut clauses = vec![];
            for i in 0..3 {
                if ctx.mutate == "ignore-must-not" && i == 2 {
                    continue;
                }
                for c in a[i + 1].as_array().unwrap() {
                    let occ = match i {
                        0 => Occur::Must,
                        1 => Occur::Should,
                        _ => Occur::MustNot,
                    };
                    clauses.push((occ, build_query(ctx, c, upper)));
                }
            }
            FtsQuery::Boolean(BooleanQuery::new(clauses))
        }
        other => panic!("unknown query {other}"),
    }
}

/// live rows in scan order as [key, fragment, indexed(0/1)]
async fn project(ctx: &Ctx) -> lance::Result<Value> {
    let ds = Dataset::open(&ctx.uri).await?;
    let idx = ds.load_indices().await?;
    let mut covered = roaring::RoaringBitmap::new();
    let mut deltas = 0;
    let mut no_bitmap = false;
    for i in idx.iter().filter(|i| i.name == FIDX) {
        deltas += 1;
        match &i.fragment_bitmap {
            Some(b) => covered |= b,
            None => no_bitmap = true,
        }
    }
    let mut sc = ds.scan();
    sc.project(&["id"])?;
    sc.with_row_address();
    sc.scan_in_order(true);
    let batches: Vec<RecordBatch> = sc.try_into_stream().await?.try_collect().await?;
    let mut rows = vec![];
    for b in &batches {
        let ids = b.column_by_name("id").unwrap().as_primitive::<Int32Type>();
        let addr = b.column_by_name("_rowaddr").unwrap().as_primitive::<UInt64Type>();
        for i in 0..b.num_rows() {
            let frag = addr.value(i) >> 32;
            rows.push(json!([ids.value(i), frag, if deltas > 0 && (no_bitmap || covered.contains(frag as u32)) { 1 } else { 0 }]));
        }
    }
    Ok(json!({"v": ds.manifest().version, "rows": rows, "deltas": deltas, "nfrags": ds.get_fragments().len()}))
}

async fn run_query(ctx: &Ctx, step: &Value, var: &Value) -> lance::Result<Value> {
    let mut ds = Dataset::open(&ctx.uri).await?;
    if ctx.mutate == "stale-deletions" {
        if let Some(v) = ctx.pre_delete_version {
            ds = ds.checkout_version(v).await?;
        }
    }
    if ctx.mutate == "skip-unindexed" {
        // emulates a search that only consults the index: query the version the index was built on
        if let Some(v) = ctx.indexed_version {
            ds = ds.checkout_version(v).await?;
        }
    }
    let upper = var.get("upper").and_then(|v| v.as_bool()).unwrap_or(false);
    let q = build_query(ctx, &step["q"], upper);
    let mut sc = ds.scan();
    sc.project(&["id"])?;
    sc.full_text_search(FullTextSearchQuery::new_query(q))?;
    if let Some(l) = var.get("limit").and_then(|v| v.as_i64()) {
        if l > 0 {
            sc.limit(Some(l), None)?;
        }
    }
    let batches: Vec<RecordBatch> = sc.try_into_stream().await?.try_collect().await?;
    let mut rows = vec![];
    let mut raw = vec![];
    for b in &batches {
        let ids = b.column_by_name("id").unwrap().as_primitive::<Int32Type>();
        let s = b.column_by_name("_score").unwrap().as_primitive::<Float32Type>();
        for i in 0..b.num_rows() {
            let sv = if s.is_null(i) { f32::NAN } else { s.value(i) };
            let si = if sv.is_nan() { -1 } else if sv.is_infinite() { 2_000_000_000 } else { (sv as f64 * 1e6).round().min(1.9e9) as i64 };
            rows.push(json!([ids.value(i), si]));
            raw.push(format!("{sv}"));
        }
    }
    if ctx.mutate == "unsorted" && rows.len() > 1 {
        rows.reverse();
        raw.reverse();
    }
    if ctx.mutate == "drop-first" && !rows.is_empty() {
        rows.remove(0);
        raw.remove(0);
    }
    Ok(json!({"rows": rows, "raw": raw}))
}

async fn exec_step(ctx: &mut Ctx, step: &Value) -> (String, String, Value) {
    let op = step["op"].as_str().unwrap();
    let mut extra = json!({});
    let r: lance::Result<()> = async {
        match op {
            "create" | "append" => {
                let b = batch(&step["rows"]);
                let texts: Vec<Value> = {
                    let d = b.column_by_name("doc").unwrap().as_string::<i32>();
                    (0..b.num_rows()).map(|i| if d.is_null(i) { json!("<NULL>") } else { json!(d.value(i)) }).collect()
                };
                extra = json!({"texts": texts});
                let p = WriteParams {
                    mode: if op == "create" { WriteMode::Create } else { WriteMode::Append },
                    enable_stable_row_ids: ctx.stable,
                    max_rows_per_file: step.get("max_rows_per_file").and_then(|v| v.as_u64()).unwrap_or(1 << 20) as usize,
                    ..Default::default()
                };
                let rdr = RecordBatchIterator::new(vec![Ok(b)], schema());
                Dataset::write(rdr, &ctx.uri, Some(p)).await?;
            }
            "delete" => {
                let mut ds = Dataset::open(&ctx.uri).await?;
                ctx.pre_delete_version = Some(ds.manifest().version);
                let keys: Vec<String> = step["keys"].as_array().unwrap().iter().map(|k| k.as_i64().unwrap().to_string()).collect();
                ds.delete(&format!("id IN ({})", keys.join(", "))).await?;
            }
            "index" => {
                let mut ds = Dataset::open(&ctx.uri).await?;
                let wp = step.get("with_position").and_then(|v| v.as_bool()).unwrap_or(true);
                let params = InvertedIndexParams::default()
                    .base_tokenizer("whitespace".into())
                    .lower_case(ctx.mutate != "case-sensitive")
                    .stem(false)
                    .remove_stop_words(false)
                    .ascii_folding(false)
                    .max_token_length(None)
                    .with_position(wp);
                ds.create_index(&["doc"], IndexType::Inverted, Some(FIDX.into()), &params, true).await?;
                ctx.indexed_version = Some(ds.manifest().version);
            }
            "optimize" => {
                let mut ds = Dataset::open(&ctx.uri).await?;
                let o = match step.get("mode").and_then(|m| m.as_str()).unwrap_or("default") {
                    "append" => OptimizeOptions::append(),
                    "merge" => OptimizeOptions::merge(16),
                    _ => OptimizeOptions::default(),
                };
                ds.optimize_indices(&o).await?;
                ctx.indexed_version = Some(ds.manifest().version);
            }
            "compact" => {
                let mut ds = Dataset::open(&ctx.uri).await?;
                let o = CompactionOptions {
                    target_rows_per_fragment: 1 << 20,
                    materialize_deletions: true,
                    materialize_deletions_threshold: 0.0,
                    num_threads: Some(1),
                    ..Default::default()
                };
                let m = compact_files(&mut ds, o, None).await?;
                extra = json!({"frags_removed": m.fragments_removed, "frags_added": m.fragments_added});
            }
            "query" => {
                let mut results = vec![];
                for var in step["variants"].as_array().unwrap() {
                    let fut = std::panic::AssertUnwindSafe(run_query(ctx, step, var)).catch_unwind();
                    match fut.await {
                        Ok(Ok(v)) => results.push(json!({"variant": var, "res": "ok", "rows": v["rows"], "raw": v["raw"]})),
                        Ok(Err(e)) => results.push(json!({"variant": var, "res": classify(&e), "text": err_text(&e), "rows": [], "raw": []})),
                        Err(_) => results.push(json!({"variant": var, "res": "panic", "text": "", "rows": [], "raw": []})),
                    }
                }
                extra = json!({"results": results});
            }
            other => panic!("unknown op {other}"),
        }
        Ok(())
    }
    .await;
    match r {
        Ok(_) => ("ok".into(), String::new(), extra),
        Err(e) => (classify(&e), err_text(&e), extra),
    }
}

fn main() {
    let args = Args::from_env();
    let scn_file = args.get("scenarios").expect("--scenarios");
    let out = args.get("out").expect("--out");
    let scratch = PathBuf::from(args.get_or("scratch", "/verif/work/textquery-scratch"));
    let shard = args.num("shard", 0);
    let nshards = args.num("shards", 1);
    let mutate = args.get_or("mutate", "");
    std::fs::create_dir_all(&scratch).unwrap();
    let rt = tokio::runtime::Builder::new_multi_thread().worker_threads(2).enable_all().build().unwrap();
    let mut w = TraceWriter::create(&out);
    let text = std::fs::read_to_string(&scn_file).unwrap();
    let mut n = 0u64;
    for (li, line) in text.lines().enumerate() {
        if line.trim().is_empty() || (li as u64) % nshards != shard {
            continue;
        }
        let scn: Value = serde_json::from_str(line).unwrap();
        let id = scn["id"].clone();
        let dir = scratch.join(format!("t{}_{}", std::process::id(), li));
        let _ = std::fs::remove_dir_all(&dir);
        let mut ctx = Ctx {
            uri: dir.to_str().unwrap().to_string(),
            stable: scn.get("stable").and_then(|v| v.as_bool()).unwrap_or(false),
            mutate: mutate.clone(),
            pre_delete_version: None,
            indexed_version: None,
        };
        w.emit(json!({"ev": "reset", "scn": id, "stable": ctx.stable}));
        for (i, step) in scn["steps"].as_array().unwrap().iter().enumerate() {
            let fut = std::panic::AssertUnwindSafe(exec_step(&mut ctx, step)).catch_unwind();
            let (res, text, extra) = match rt.block_on(fut) {
                Ok(x) => x,
                Err(p) => {
                    let msg = p
                        .downcast_ref::<String>()
                        .cloned()
                        .or_else(|| p.downcast_ref::<&str>().map(|s| s.to_string()))
                        .unwrap_or_default();
                    ("panic".to_string(), msg.chars().take(300).collect(), json!({}))
                }
            };
            let tbl = match rt.block_on(project(&ctx)) {
                Ok(p) => p,
                Err(e) => json!({"error": classify(&e), "text": err_text(&e)}),
            };
            w.emit(json!({"ev": "step", "scn": id, "i": i + 1, "step": step, "res": res, "text": text,
                          "extra": extra, "tbl": tbl}));
        }
        let _ = std::fs::remove_dir_all(&dir);
        n += 1;
    }
    let events = w.finish();
    println!("{{\"scenarios\":{n},\"events\":{events}}}");
}
