//! Driver for spec/VectorQuery.tla (C22): replays table histories with nearest-neighbour queries on real
//! lance datasets and records, per query variant, the returned row keys and `_distance` values.
//! It records; spec/Trace_VectorQuery.tla judges.
//!
//! Table: id Int32 (row key), val Int32 nullable (pre-filter column; -1 on the wire = NULL),
//!        vec FixedSizeList<Float32>[2] (points of the integer grid {-2..2}^2).
//! Scenario (one JSON object per line):
//!   {"id": n, "stable": bool, "metric": "l2"|"dot"|"cosine", "steps": [step...]}
//! Steps:
//!   {"op":"create"|"append", "rows":[[key,x,y,val]...], "max_rows_per_file": n}
//!   {"op":"delete", "keys":[k...]}
//!   {"op":"index", "nparts": n, "centroids": [[x,y]...] | absent (= train with kmeans)}
//!   {"op":"scalar_index"}                       btree on val
//!   {"op":"optimize", "mode": "append"|"merge"|"default"}
//!   {"op":"compact"}
//!   {"op":"query", "q":[x,y], "k":k, "filter": pred, "hf": bool (apply the filter), "variants":[variant...]}
//! Variant: {"use_index":bool, "probes":"all"|"over"|"min1"|"one", "refine":0|n, "prefilter":bool, "fast":bool}
//! Distances are recorded as integers: exact for l2 / dot on the grid; cosine in units of 1e-7.
use std::path::PathBuf;
use std::sync::Arc;

use arrow_array::cast::AsArray;
use arrow_array::types::{Float32Type, Int32Type, UInt64Type};
use arrow_array::{Array, ArrayRef, FixedSizeListArray, Float32Array, Int32Array, RecordBatch, RecordBatchIterator};
use arrow_schema::{DataType, Field, Schema as ArrowSchema};
use futures::{FutureExt, TryStreamExt};
use lance::dataset::optimize::{compact_files, CompactionOptions};
use lance::dataset::{Dataset, WriteMode, WriteParams};
use lance::index::vector::VectorIndexParams;
use lance_index::optimize::OptimizeOptions;
use lance_index::scalar::ScalarIndexParams;
use lance_index::vector::ivf::IvfBuildParams;
use lance_index::{DatasetIndexExt, IndexType};
use lance_verif_harness::tablekit::{classify, err_text, NULL};
use lance_verif_harness::trace::{Args, TraceWriter};
use serde_json::{json, Value};

const VIDX: &str = "vidx";
pub const D_INF: i64 = 2_000_000_000;
pub const D_NAN: i64 = 1_999_999_999;
pub const D_FRAC: i64 = 1_999_999_998;

fn schema() -> Arc<ArrowSchema> {
    Arc::new(ArrowSchema::new(vec![
        Field::new("id", DataType::Int32, false),
        Field::new("val", DataType::Int32, true),
        Field::new("vec", DataType::FixedSizeList(Arc::new(Field::new("item", DataType::Float32, true)), 2), true),
    ]))
}

fn fsl(points: &[(f32, f32)]) -> FixedSizeListArray {
    FixedSizeListArray::from_iter_primitive::<Float32Type, _, _>(
        points.iter().map(|(x, y)| Some(vec![Some(*x), Some(*y)])),
        2,
    )
}

/// rows: [key, x, y, val]
fn batch(rows: &[Vec<i64>]) -> RecordBatch {
    let ids = Int32Array::from(rows.iter().map(|r| r[0] as i32).collect::<Vec<_>>());
    let vals = Int32Array::from(rows.iter().map(|r| if r[3] == NULL { None } else { Some(r[3] as i32) }).collect::<Vec<_>>());
    let pts: Vec<(f32, f32)> = rows.iter().map(|r| (r[1] as f32, r[2] as f32)).collect();
    RecordBatch::try_new(schema(), vec![Arc::new(ids) as ArrayRef, Arc::new(vals), Arc::new(fsl(&pts))]).unwrap()
}

fn rows_of(v: &Value) -> Vec<Vec<i64>> {
    v.as_array()
        .map(|a| a.iter().map(|r| r.as_array().unwrap().iter().map(|x| x.as_i64().unwrap()).collect()).collect())
        .unwrap_or_default()
}

fn lit(v: &Value) -> String {
    let n = v.as_i64().unwrap();
    if n == NULL {
        "NULL".into()
    } else {
        n.to_string()
    }
}

fn sql_pred(p: &Value) -> String {
    let a = p.as_array().unwrap();
    match a[0].as_str().unwrap() {
        "in" => {
            let vs: Vec<String> = a[2].as_array().unwrap().iter().map(lit).collect();
            format!("{} IN ({})", a[1].as_str().unwrap(), vs.join(", "))
        }
        "cmp" => format!("{} {} {}", a[1].as_str().unwrap(), a[2].as_str().unwrap(), lit(&a[3])),
        "between" => format!("{} BETWEEN {} AND {}", a[1].as_str().unwrap(), lit(&a[2]), lit(&a[3])),
        "isnull" => format!("{} IS NULL", a[1].as_str().unwrap()),
        "notnull" => format!("{} IS NOT NULL", a[1].as_str().unwrap()),
        "and" => format!("({}) AND ({})", sql_pred(&a[1]), sql_pred(&a[2])),
        "or" => format!("({}) OR ({})", sql_pred(&a[1]), sql_pred(&a[2])),
        "not" => format!("NOT ({})", sql_pred(&a[1])),
        "true" => "true".into(),
        "false" => "false".into(),
        other => panic!("unknown predicate {other}"),
    }
}

struct Ctx {
    uri: String,
    stable: bool,
    metric: String,
    nparts: usize,
    mutate: String,
    /// record the physical plan of every query (diagnosis only)
    explain: bool,
    /// version just before the most recent delete (mutation `stale-deletions` queries it)
    pre_delete_version: Option<u64>,
}

fn dist_int(metric: &str, d: f32) -> i64 {
    if d.is_nan() {
        return D_NAN;
    }
    if d.is_infinite() {
        return if d > 0.0 { D_INF } else { -D_INF };
    }
    if metric == "cosine" {
        return (d as f64 * 1e7).round() as i64;
    }
    if d.fract() != 0.0 || d.abs() > 1e6 {
        return D_FRAC;
    }
    d as i64
}

/// live rows in scan order as [key, x, y, val, fragment, indexed(0/1)], plus index facts
async fn project(ctx: &Ctx) -> lance::Result<Value> {
    let ds = Dataset::open(&ctx.uri).await?;
    let idx = ds.load_indices().await?;
    let mut covered = roaring::RoaringBitmap::new();
    let mut deltas = 0;
    let mut no_bitmap = false;
    for i in idx.iter().filter(|i| i.name == VIDX) {
        deltas += 1;
        match &i.fragment_bitmap {
            Some(b) => covered |= b,
            None => no_bitmap = true,
        }
    }
    let scalar = idx.iter().any(|i| i.name == "val_idx");
    let mut sc = ds.scan();
    sc.project(&["id", "val", "vec"])?;
    sc.with_row_address();
    sc.scan_in_order(true);
    let batches: Vec<RecordBatch> = sc.try_into_stream().await?.try_collect().await?;
    let mut rows = vec![];
    for b in &batches {
        let ids = b.column_by_name("id").unwrap().as_primitive::<Int32Type>();
        let vals = b.column_by_name("val").unwrap().as_primitive::<Int32Type>();
        let vecs = b.column_by_name("vec").unwrap().as_fixed_size_list();
        let addr = b.column_by_name("_rowaddr").unwrap().as_primitive::<UInt64Type>();
        for i in 0..b.num_rows() {
            let v = vecs.value(i);
            let v = v.as_primitive::<Float32Type>();
            let frag = addr.value(i) >> 32;
            rows.push(json!([
                ids.value(i),
                v.value(0) as i64,
                v.value(1) as i64,
                if vals.is_null(i) { NULL } else { vals.value(i) as i64 },
                frag,
                if deltas > 0 && (no_bitmap || covered.contains(frag as u32)) { 1 } else { 0 }
            ]));
        }
    }
    Ok(json!({"v": ds.manifest().version, "rows": rows, "deltas": deltas, "nparts": ctx.nparts, "scalar": scalar,
              "nfrags": ds.get_fragments().len()}))
}

async fn run_query(ctx: &Ctx, step: &Value, var: &Value) -> lance::Result<Value> {
    let mut ds = Dataset::open(&ctx.uri).await?;
    if ctx.mutate == "stale-deletions" {
        // emulates a deletion mask that is not applied: search the version before the last delete
        if let Some(v) = ctx.pre_delete_version {
            ds = ds.checkout_version(v).await?;
        }
    }
    let q = step["q"].as_array().unwrap();
    let qv = Float32Array::from(vec![q[0].as_i64().unwrap() as f32, q[1].as_i64().unwrap() as f32]);
    let mut k = step["k"].as_u64().unwrap() as usize;
    if ctx.mutate == "k-minus-one" && k > 1 {
        k -= 1;
    }
    let use_index = var["use_index"].as_bool().unwrap_or(true);
    let mut prefilter = var["prefilter"].as_bool().unwrap_or(true);
    if ctx.mutate == "postfilter" {
        prefilter = false;
    }
    let mut fast = var["fast"].as_bool().unwrap_or(false);
    if ctx.mutate == "skip-unindexed" && use_index {
        fast = true;
    }
    let refine = var["refine"].as_u64().unwrap_or(0) as u32;
    let probes = var["probes"].as_str().unwrap_or("all");
    let mut sc = ds.scan();
    sc.project(&["id"])?;
    let has_filter = step.get("hf").and_then(|f| f.as_bool()).unwrap_or(false);
    if has_filter {
        if ctx.mutate != "drop-filter" {
            sc.filter(&sql_pred(&step["filter"]))?;
        }
        sc.prefilter(prefilter);
    }
    sc.nearest("vec", &qv, k)?;
    let metric = if ctx.mutate == "wrong-metric" && !use_index {
        if ctx.metric == "l2" { "dot" } else { "l2" }
    } else {
        ctx.metric.as_str()
    };
    sc.distance_metric(metric.try_into().unwrap());
    match probes {
        "all" => {
            sc.nprobes(ctx.nparts.max(1));
        }
        "over" => {
            sc.nprobes(ctx.nparts + 5);
        }
        "one" => {
            sc.nprobes(1);
        }
        _ => {
            sc.minimum_nprobes(1);
        }
    }
    if refine > 0 {
        sc.refine(refine);
    }
    if !use_index {
        sc.use_index(false);
    }
    if fast {
        sc.fast_search();
    }
    let plan = if ctx.explain { sc.explain_plan(false).await.unwrap_or_default() } else { String::new() };
    let batches: Vec<RecordBatch> = sc.try_into_stream().await?.try_collect().await?;
    let mut rows = vec![];
    let mut raw = vec![];
    for b in &batches {
        let ids = b.column_by_name("id").unwrap().as_primitive::<Int32Type>();
        let d = b.column_by_name("_distance").unwrap().as_primitive::<Float32Type>();
        for i in 0..b.num_rows() {
            let dv = if d.is_null(i) { f32::NAN } else { d.value(i) };
            rows.push(json!([ids.value(i), dist_int(&ctx.metric, dv)]));
            raw.push(format!("{dv}"));
        }
    }
    if ctx.mutate == "drop-nearest" && rows.len() > 1 {
        rows.remove(0);
        raw.remove(0);
    }
    if ctx.mutate == "unsorted" && rows.len() > 1 {
        rows.reverse();
        raw.reverse();
    }
    if ctx.explain {
        return Ok(json!({"rows": rows, "raw": raw, "plan": plan}));
    }
    Ok(json!({"rows": rows, "raw": raw}))
}

async fn exec_step(ctx: &mut Ctx, step: &Value) -> (String, String, Value) {
    let op = step["op"].as_str().unwrap();
    let mut extra = json!({});
    let r: lance::Result<()> = async {
        match op {
            "create" | "append" => {
                let rows = rows_of(&step["rows"]);
                let b = batch(&rows);
                let p = WriteParams {
                    mode: if op == "create" { WriteMode::Create } else { WriteMode::Append },
                    enable_stable_row_ids: ctx.stable,
                    max_rows_per_file: step.get("max_rows_per_file").and_then(|v| v.as_u64()).unwrap_or(1 << 20) as usize,
                    ..Default::default()
                };
                let rdr = RecordBatchIterator::new(vec![Ok(b)], schema());
                Dataset::write(rdr, &ctx.uri, Some(p)).await?;
            }
            "delete" => {
                let mut ds = Dataset::open(&ctx.uri).await?;
                ctx.pre_delete_version = Some(ds.manifest().version);
                let keys: Vec<String> = step["keys"].as_array().unwrap().iter().map(|k| k.as_i64().unwrap().to_string()).collect();
                ds.delete(&format!("id IN ({})", keys.join(", "))).await?;
            }
            "index" => {
                let mut ds = Dataset::open(&ctx.uri).await?;
                let n = step["nparts"].as_u64().unwrap() as usize;
                let params = match step.get("centroids").and_then(|c| c.as_array()) {
                    Some(cs) => {
                        let pts: Vec<(f32, f32)> = cs.iter().map(|c| (c[0].as_i64().unwrap() as f32, c[1].as_i64().unwrap() as f32)).collect();
                        let ivf = IvfBuildParams::try_with_centroids(n, Arc::new(fsl(&pts)))?;
                        VectorIndexParams::with_ivf_flat_params(ctx.metric.as_str().try_into().unwrap(), ivf)
                    }
                    None => VectorIndexParams::ivf_flat(n, ctx.metric.as_str().try_into().unwrap()),
                };
                ds.create_index(&["vec"], IndexType::Vector, Some(VIDX.into()), &params, true).await?;
                ctx.nparts = n;
            }
            "scalar_index" => {
                let mut ds = Dataset::open(&ctx.uri).await?;
                let params = ScalarIndexParams::for_builtin(lance_index::scalar::BuiltinIndexType::BTree);
                ds.create_index(&["val"], IndexType::BTree, Some("val_idx".into()), &params, true).await?;
            }
            "optimize" => {
                let mut ds = Dataset::open(&ctx.uri).await?;
                let o = match step.get("mode").and_then(|m| m.as_str()).unwrap_or("default") {
                    "append" => OptimizeOptions::append(),
                    "merge" => OptimizeOptions::merge(16),
                    _ => OptimizeOptions::default(),
                };
                ds.optimize_indices(&o).await?;
            }
            "compact" => {
                let mut ds = Dataset::open(&ctx.uri).await?;
                let o = CompactionOptions {
                    target_rows_per_fragment: 1 << 20,
                    materialize_deletions: true,
                    materialize_deletions_threshold: 0.0,
                    num_threads: Some(1),
                    ..Default::default()
                };
                let m = compact_files(&mut ds, o, None).await?;
                extra = json!({"frags_removed": m.fragments_removed, "frags_added": m.fragments_added});
            }
            "query" => {
                let mut results = vec![];
                for var in step["variants"].as_array().unwrap() {
                    let fut = std::panic::AssertUnwindSafe(run_query(ctx, step, var)).catch_unwind();
                    match fut.await {
                        Ok(Ok(v)) => {
                            let mut r = json!({"variant": var, "res": "ok", "rows": v["rows"], "raw": v["raw"]});
                            if let Some(p) = v.get("plan") {
                                r["plan"] = p.clone();
                            }
                            results.push(r)
                        }
                        Ok(Err(e)) => results.push(json!({"variant": var, "res": classify(&e), "text": err_text(&e), "rows": [], "raw": []})),
                        Err(_) => results.push(json!({"variant": var, "res": "panic", "text": "", "rows": [], "raw": []})),
                    }
                }
                extra = json!({"results": results});
            }
            other => panic!("unknown op {other}"),
        }
        Ok(())
    }
    .await;
    match r {
        Ok(_) => ("ok".into(), String::new(), extra),
        Err(e) => (classify(&e), err_text(&e), extra),
    }
}

fn main() {
    let args = Args::from_env();
    let scn_file = args.get("scenarios").expect("--scenarios");
    let out = args.get("out").expect("--out");
    let scratch = PathBuf::from(args.get_or("scratch", "/verif/work/vectorquery-scratch"));
    let shard = args.num("shard", 0);
    let nshards = args.num("shards", 1);
    let mutate = args.get_or("mutate", "");
    std::fs::create_dir_all(&scratch).unwrap();
    let rt = tokio::runtime::Builder::new_multi_thread().worker_threads(2).enable_all().build().unwrap();
    let mut w = TraceWriter::create(&out);
    let text = std::fs::read_to_string(&scn_file).unwrap();
    let mut n = 0u64;
    for (li, line) in text.lines().enumerate() {
        if line.trim().is_empty() || (li as u64) % nshards != shard {
            continue;
        }
        let scn: Value = serde_json::from_str(line).unwrap();
        let id = scn["id"].clone();
        let dir = scratch.join(format!("v{}_{}", std::process::id(), li));
        let _ = std::fs::remove_dir_all(&dir);
        let mut ctx = Ctx {
            uri: dir.to_str().unwrap().to_string(),
            stable: scn.get("stable").and_then(|v| v.as_bool()).unwrap_or(false),
            metric: scn.get("metric").and_then(|v| v.as_str()).unwrap_or("l2").to_string(),
            nparts: 0,
            mutate: mutate.clone(),
            explain: args.flag("explain"),
            pre_delete_version: None,
        };
        w.emit(json!({"ev": "reset", "scn": id, "stable": ctx.stable, "metric": ctx.metric}));
        for (i, step) in scn["steps"].as_array().unwrap().iter().enumerate() {
            let fut = std::panic::AssertUnwindSafe(exec_step(&mut ctx, step)).catch_unwind();
            let (res, text, extra) = match rt.block_on(fut) {
                Ok(x) => x,
                Err(p) => {
                    let msg = p
                        .downcast_ref::<String>()
                        .cloned()
                        .or_else(|| p.downcast_ref::<&str>().map(|s| s.to_string()))
                        .unwrap_or_default();
                    ("panic".to_string(), msg.chars().take(300).collect(), json!({}))
                }
            };
            let tbl = match rt.block_on(project(&ctx)) {
                Ok(p) => p,
                Err(e) => json!({"error": classify(&e), "text": err_text(&e)}),
            };
            w.emit(json!({"ev": "step", "scn": id, "i": i + 1, "step": step, "res": res, "text": text,
                          "extra": extra, "tbl": tbl}));
        }
        let _ = std::fs::remove_dir_all(&dir);
        n += 1;
    }
    let events = w.finish();
    println!("{{\"scenarios\":{n},\"events\":{events}}}");
}
