//! Gate store: an `object_store::ObjectStore` wrapper that attributes every storage call to an actor,
//! blocks it until the schedule releases it, can inject faults, and records one event per call.
//! (owned by the LanceCommit module builder; reused by the cleanup / refs drivers)
//!
//! Model of use
//! * One [`Gate`] per scenario: the shared `InMemory` store, the scriptable external manifest
//!   store, the lease (commit lock), the list of pending (blocked) calls and the recorded events.
//! * One [`GateStore`] / [`GateExternalStore`] / [`GateLock`] *per actor* (they only carry the actor
//!   id and an `Arc<Gate>`), so every call is attributable.
//! * All actors run as tasks on a current-thread tokio runtime.  A gated call registers itself in
//!   `pending` and waits for a [`Decision`]; the scheduler (the driver's main task) releases one
//!   pending call at a time and waits until the released actor is blocked again or has finished
//!   ([`Gate::settle`]), so a schedule (sequence of actor ids) determines the execution.
//! * Gated: every mutating call, every `list` / `head` below `_versions`, `_refs`, `_transactions`,
//!   every external-store and lease call.  Reads of other files pass through unrecorded; GETs below
//!   `_versions` pass through but are recorded (`"g":0`) so the validator can check what was read.
//! * Faults: `Fail` = the call has no effect and returns an error; `Lost` = the effect is applied
//!   and the caller sees an error.  A crash is not a decision: the scheduler simply aborts the
//!   actor's task while it is blocked at the gate.
//! * Every event carries, besides the call, a snapshot of `_versions` and of the external store
//!   taken under the gate mutex right after the call took effect.
//!
//! The gate never judges anything; the TLA+ trace specification does.
use std::collections::{BTreeMap, HashMap, VecDeque};
use std::fmt::{Debug, Display, Formatter};
use std::ops::Range;
use std::sync::{Arc, Mutex};
use std::time::Duration;

use async_trait::async_trait;
use bytes::Bytes;
use futures::stream::BoxStream;
use futures::{FutureExt, StreamExt, TryStreamExt};
use lance_table::io::commit::external_manifest::ExternalManifestStore;
use lance_table::io::commit::{CommitError, CommitLease, CommitLock};
use object_store::memory::InMemory;
use object_store::path::Path;
use object_store::{
    Error as OsError, GetOptions, GetResult, ListResult, MultipartUpload, ObjectMeta, ObjectStore,
    PutMode, PutMultipartOptions, PutOptions, PutPayload, PutResult, Result as OsResult,
    UploadPart,
};
use serde_json::{json, Value};
use tokio::sync::{oneshot, Notify};

pub type Actor = usize;

/// What the scheduler tells a blocked call to do.
#[derive(Clone, Copy, Debug, PartialEq, Eq)]
pub enum Decision {
    /// perform the call
    Ok,
    /// do not perform it, return an error
    Fail,
    /// perform it, then return an error (lost response)
    Lost,
}

impl Decision {
    pub fn parse(s: &str) -> Self {
        match s {
            "fail" => Self::Fail,
            "lost" => Self::Lost,
            _ => Self::Ok,
        }
    }
}

/// Description of a blocked call (what the scheduler can see before releasing it).
#[derive(Clone, Debug)]
pub struct PendingInfo {
    pub id: u64,
    pub actor: Actor,
    pub op: String,
    pub path: String,
}

struct Pending {
    info: PendingInfo,
    tx: oneshot::Sender<Decision>,
}

/// Classification of a path relative to the table root.
#[derive(Clone, Debug, PartialEq, Eq)]
pub struct PathClass {
    /// "final" | "staging" | "detached" | "txn" | "data" | "del" | "index" | "vdir" | "other"
    pub cls: &'static str,
    /// version number for final/staging, small first-occurrence id for detached, else -1
    pub v: i64,
    /// small first-occurrence id of a staging path, else 0
    pub sid: i64,
}

#[derive(Default)]
struct GateState {
    pending: VecDeque<Pending>,
    next_id: u64,
    events: Vec<Value>,
    seq: u64,
    finished: HashMap<Actor, bool>,
    /// actors whose calls are never blocked (setup, final validation reader)
    passthrough: HashMap<Actor, bool>,
    lock_holder: Option<Actor>,
    ext: BTreeMap<u64, String>,
    content_ids: HashMap<u64, i64>,
    staging_ids: HashMap<String, i64>,
    detached_ids: HashMap<String, i64>,
    record: bool,
    /// "mutations" of the store behaviour used to demonstrate the binding (see vh_commit --mutate)
    mutate: String,
}

pub struct Gate {
    st: Mutex<GateState>,
    notify: Notify,
    pub inner: Arc<InMemory>,
    pub base: Path,
    /// the table uses V2 manifest names; a final-manifest path in the *other* naming scheme is
    /// classified "altfinal" (lance probes the V2 name first when resolving a version)
    pub naming_v2: std::sync::atomic::AtomicBool,
}

fn fnv(b: &[u8]) -> u64 {
    let mut h: u64 = 0xcbf29ce484222325;
    for x in b {
        h ^= *x as u64;
        h = h.wrapping_mul(0x100000001b3);
    }
    h
}

fn injected(path: &str, what: &str) -> OsError {
    OsError::Generic {
        store: "gate",
        source: format!("injected fault ({what}) at {path}").into(),
    }
}

impl Gate {
    pub fn new(base: &str) -> Arc<Self> {
        Arc::new(Self {
            st: Mutex::new(GateState {
                record: true,
                ..Default::default()
            }),
            notify: Notify::new(),
            inner: Arc::new(InMemory::new()),
            base: Path::from(base),
            naming_v2: std::sync::atomic::AtomicBool::new(false),
        })
    }

    pub fn set_mutation(&self, m: &str) {
        self.st.lock().unwrap().mutate = m.to_string();
    }
    fn mutation(&self) -> String {
        self.st.lock().unwrap().mutate.clone()
    }

    pub fn set_passthrough(&self, actor: Actor, on: bool) {
        self.st.lock().unwrap().passthrough.insert(actor, on);
    }
    pub fn set_record(&self, on: bool) {
        self.st.lock().unwrap().record = on;
    }
    pub fn mark_finished(&self, actor: Actor) {
        self.st.lock().unwrap().finished.insert(actor, true);
        self.notify.notify_waiters();
        self.notify.notify_one();
    }
    pub fn is_finished(&self, actor: Actor) -> bool {
        *self.st.lock().unwrap().finished.get(&actor).unwrap_or(&false)
    }
    pub fn lock_holder(&self) -> Option<Actor> {
        self.st.lock().unwrap().lock_holder
    }
    /// Lease expiry (scheduler-driven pseudo step).
    pub fn expire_lease(&self) -> Option<Actor> {
        let mut st = self.st.lock().unwrap();
        let h = st.lock_holder.take();
        let holder = h.map(|x| x as i64).unwrap_or(-1);
        drop(st);
        self.emit_call(0, "expire", &self.class_none(), "ok", -1, 1, json!([]), holder);
        h
    }

    /// Drop every blocked call of `actor` (used after its task was aborted = crash).
    pub fn drop_pending(&self, actor: Actor) {
        let mut st = self.st.lock().unwrap();
        st.pending.retain(|p| p.info.actor != actor);
    }

    pub fn pending_of(&self, actor: Actor) -> Option<PendingInfo> {
        let st = self.st.lock().unwrap();
        st.pending
            .iter()
            .find(|p| p.info.actor == actor)
            .map(|p| p.info.clone())
    }
    pub fn pending_count(&self, actor: Actor) -> usize {
        let st = self.st.lock().unwrap();
        st.pending.iter().filter(|p| p.info.actor == actor).count()
    }
    pub fn all_pending(&self) -> Vec<PendingInfo> {
        let st = self.st.lock().unwrap();
        st.pending.iter().map(|p| p.info.clone()).collect()
    }

    /// Wait until `actor` is blocked at the gate or has finished.  Returns the oldest blocked call.
    pub async fn settle(&self, actor: Actor, timeout: Duration) -> Option<PendingInfo> {
        let deadline = tokio::time::Instant::now() + timeout;
        loop {
            // let every runnable task make progress first
            for _ in 0..4 {
                tokio::task::yield_now().await;
            }
            if let Some(p) = self.pending_of(actor) {
                // give concurrently issued calls of the same actor the chance to arrive
                for _ in 0..4 {
                    tokio::task::yield_now().await;
                }
                return Some(p);
            }
            if self.is_finished(actor) {
                return None;
            }
            let now = tokio::time::Instant::now();
            if now >= deadline {
                return None;
            }
            let wait = std::cmp::min(deadline - now, Duration::from_millis(20));
            let _ = tokio::time::timeout(wait, self.notify.notified()).await;
        }
    }

    /// Release the oldest blocked call of `actor`.  Returns its description (None: nothing blocked).
    pub fn release(&self, actor: Actor, d: Decision) -> Option<PendingInfo> {
        let mut st = self.st.lock().unwrap();
        let idx = st.pending.iter().position(|p| p.info.actor == actor)?;
        let p = st.pending.remove(idx).unwrap();
        drop(st);
        let info = p.info.clone();
        let _ = p.tx.send(d);
        Some(info)
    }

    async fn enter(&self, actor: Actor, op: &str, path: &str) -> Decision {
        let rx = {
            let mut st = self.st.lock().unwrap();
            if *st.passthrough.get(&actor).unwrap_or(&false) {
                return Decision::Ok;
            }
            let (tx, rx) = oneshot::channel();
            st.next_id += 1;
            let id = st.next_id;
            st.pending.push_back(Pending {
                info: PendingInfo {
                    id,
                    actor,
                    op: op.to_string(),
                    path: path.to_string(),
                },
                tx,
            });
            rx
        };
        self.notify.notify_waiters();
        self.notify.notify_one();
        match rx.await {
            Ok(d) => d,
            // the gate was torn down: never perform anything any more
            Err(_) => futures::future::pending().await,
        }
    }

    // ------------------------------------------------------------------ classification
    fn class_none(&self) -> PathClass {
        PathClass {
            cls: "other",
            v: -1,
            sid: 0,
        }
    }

    pub fn classify(&self, p: &str) -> PathClass {
        self.classify_hint(p, -1)
    }

    /// `hint` > 0: content id about to be PUT at `p`; a staging / detached name seen for the first
    /// time gets this id (each such name is written exactly once, so name and content identify each
    /// other).  Names first seen otherwise get ids from 1000 upwards.
    pub fn classify_hint(&self, p: &str, hint: i64) -> PathClass {
        let base = self.base.as_ref();
        let rel = p
            .trim_start_matches('/')
            .strip_prefix(base)
            .map(|r| r.trim_start_matches('/'))
            .unwrap_or(p);
        let none = self.class_none();
        if rel == "_versions" {
            return PathClass { cls: "vdir", ..none };
        }
        if let Some(name) = rel.strip_prefix("_versions/") {
            if let Some(rest) = name.strip_prefix('d') {
                if let Some(num) = rest.strip_suffix(".manifest") {
                    if num.parse::<u64>().is_ok() {
                        let mut st = self.st.lock().unwrap();
                        let n = if hint > 0 { hint } else { 1000 + st.detached_ids.len() as i64 };
                        let id = *st.detached_ids.entry(name.to_string()).or_insert(n);
                        return PathClass {
                            cls: "detached",
                            v: id,
                            sid: 0,
                        };
                    }
                }
            }
            let (stem, tail) = match name.split_once('.') {
                Some(x) => x,
                None => return none,
            };
            let is_v2_name = stem.len() == 20;
            let ver = match stem.parse::<u64>() {
                Ok(n) if is_v2_name => u64::MAX - n,
                Ok(n) => n,
                Err(_) => return none,
            };
            let table_v2 = self.naming_v2.load(std::sync::atomic::Ordering::Relaxed);
            if ver > i32::MAX as u64 {
                return none;
            }
            if tail == "manifest" {
                return PathClass {
                    cls: if is_v2_name == table_v2 { "final" } else { "altfinal" },
                    v: ver as i64,
                    sid: 0,
                };
            }
            if tail.starts_with("manifest-") {
                let mut st = self.st.lock().unwrap();
                let n = if hint > 0 { hint } else { 1000 + st.staging_ids.len() as i64 };
                let id = *st.staging_ids.entry(name.to_string()).or_insert(n);
                return PathClass {
                    cls: "staging",
                    v: ver as i64,
                    sid: id,
                };
            }
            return none;
        }
        let cls = if rel.starts_with("_transactions/") || rel == "_transactions" {
            "txn"
        } else if rel.starts_with("data/") {
            "data"
        } else if rel.starts_with("_deletions/") {
            "del"
        } else if rel.starts_with("_indices/") {
            "index"
        } else if rel.starts_with("_refs") {
            "refs"
        } else {
            "other"
        };
        PathClass { cls, ..none }
    }

    fn is_protocol_path(&self, p: &str) -> bool {
        matches!(
            self.classify(p).cls,
            "final" | "altfinal" | "staging" | "detached" | "vdir" | "txn" | "refs"
        )
    }

    fn content_id(&self, bytes: &[u8]) -> i64 {
        let h = fnv(bytes);
        let mut st = self.st.lock().unwrap();
        let n = st.content_ids.len() as i64 + 1;
        *st.content_ids.entry(h).or_insert(n)
    }

    fn content_of(&self, p: &Path) -> i64 {
        match self.inner.get(p).now_or_never() {
            Some(Ok(r)) => match r.bytes().now_or_never() {
                Some(Ok(b)) => self.content_id(&b),
                _ => -1,
            },
            _ => -1,
        }
    }

    /// `[[cls, v, sid, content], ...]` for every object below `_versions`, sorted.
    pub fn snapshot_versions(&self) -> Value {
        let prefix = self.base.child("_versions");
        let metas: Vec<ObjectMeta> = self
            .inner
            .list(Some(&prefix))
            .try_collect::<Vec<_>>()
            .now_or_never()
            .and_then(|r| r.ok())
            .unwrap_or_default();
        let mut rows: Vec<(String, i64, i64, i64)> = metas
            .iter()
            .map(|m| {
                let c = self.classify(m.location.as_ref());
                (c.cls.to_string(), c.v, c.sid, self.content_of(&m.location))
            })
            .collect();
        rows.sort();
        json!(rows
            .into_iter()
            .map(|(a, b, c, d)| json!([a, b, c, d]))
            .collect::<Vec<_>>())
    }

    /// `[[version, cls, sid], ...]` of the external manifest store.
    pub fn snapshot_ext(&self) -> Value {
        let ext: Vec<(u64, String)> = {
            let st = self.st.lock().unwrap();
            st.ext.iter().map(|(k, v)| (*k, v.clone())).collect()
        };
        json!(ext
            .into_iter()
            .map(|(v, p)| {
                let c = self.classify(&p);
                json!([v as i64, c.cls, c.sid])
            })
            .collect::<Vec<_>>())
    }

    #[allow(clippy::too_many_arguments)]
    fn emit_call(
        &self,
        actor: Actor,
        op: &str,
        c: &PathClass,
        out: &str,
        content: i64,
        gated: i64,
        ls: Value,
        aux: i64,
    ) {
        if !self.st.lock().unwrap().record {
            return;
        }
        let vs = self.snapshot_versions();
        let ext = self.snapshot_ext();
        let holder = self.lock_holder().map(|x| x as i64).unwrap_or(-1);
        let mut st = self.st.lock().unwrap();
        st.seq += 1;
        let seq = st.seq;
        st.events.push(json!({
            "ev": "call", "seq": seq, "a": actor, "op": op, "cls": c.cls, "v": c.v, "sid": c.sid,
            "c": content, "out": out, "g": gated, "ls": ls, "aux": aux, "vs": vs, "ext": ext,
            "lk": holder,
        }));
    }

    /// Record a non-storage event (API return, crash, scheduler note) in sequence.
    pub fn emit(&self, mut v: Value) {
        let mut st = self.st.lock().unwrap();
        if !st.record {
            return;
        }
        st.seq += 1;
        v["seq"] = json!(st.seq);
        st.events.push(v);
    }

    pub fn take_events(&self) -> Vec<Value> {
        std::mem::take(&mut self.st.lock().unwrap().events)
    }

    pub fn ext_map(&self) -> BTreeMap<u64, String> {
        self.st.lock().unwrap().ext.clone()
    }
    pub fn ext_set(&self, version: u64, path: Option<String>) {
        let mut st = self.st.lock().unwrap();
        match path {
            Some(p) => {
                st.ext.insert(version, p);
            }
            None => {
                st.ext.remove(&version);
            }
        }
    }
}

// =====================================================================================================
// object store

pub struct GateStore {
    pub gate: Arc<Gate>,
    pub actor: Actor,
}

impl GateStore {
    pub fn new(gate: Arc<Gate>, actor: Actor) -> Arc<Self> {
        Arc::new(Self { gate, actor })
    }
    fn list_entries(&self, metas: &[ObjectMeta]) -> Value {
        json!(metas
            .iter()
            .map(|m| {
                let c = self.gate.classify(m.location.as_ref());
                json!([c.cls, c.v, c.sid])
            })
            .collect::<Vec<_>>())
    }
}

impl Debug for GateStore {
    fn fmt(&self, f: &mut Formatter<'_>) -> std::fmt::Result {
        write!(f, "GateStore(actor={})", self.actor)
    }
}
impl Display for GateStore {
    fn fmt(&self, f: &mut Formatter<'_>) -> std::fmt::Result {
        write!(f, "GateStore(actor={})", self.actor)
    }
}

#[derive(Debug)]
struct GateUpload {
    store: Arc<GateStoreRef>,
    location: Path,
    parts: Vec<Bytes>,
}

#[derive(Debug)]
struct GateStoreRef {
    gate_store: Arc<GateStore>,
}

#[async_trait]
impl MultipartUpload for GateUpload {
    fn put_part(&mut self, data: PutPayload) -> UploadPart {
        for b in data.iter() {
            self.parts.push(b.clone());
        }
        futures::future::ready(Ok(())).boxed()
    }
    async fn complete(&mut self) -> OsResult<PutResult> {
        let mut all = Vec::new();
        for p in self.parts.drain(..) {
            all.extend_from_slice(&p);
        }
        self.store
            .gate_store
            .put_opts(&self.location, PutPayload::from(all), PutOptions::default())
            .await
    }
    async fn abort(&mut self) -> OsResult<()> {
        self.parts.clear();
        Ok(())
    }
}

#[async_trait]
impl ObjectStore for GateStore {
    async fn put_opts(
        &self,
        location: &Path,
        payload: PutPayload,
        opts: PutOptions,
    ) -> OsResult<PutResult> {
        let p = location.as_ref();
        let create = matches!(opts.mode, PutMode::Create);
        let op = if create { "put_if_absent" } else { "put" };
        let under_versions = p.contains("/_versions/");
        let content = if under_versions {
            let bytes: Vec<u8> = payload.iter().flat_map(|b| b.iter().copied()).collect();
            self.gate.content_id(&bytes)
        } else {
            -1
        };
        let c = self.gate.classify_hint(p, content);
        let d = self.gate.enter(self.actor, op, p).await;
        if d == Decision::Fail {
            self.gate
                .emit_call(self.actor, op, &c, "fail", content, 1, json!([]), -1);
            return Err(injected(p, "fail"));
        }
        let mut opts = opts;
        if create && self.gate.mutation() == "store_create_overwrites" {
            opts.mode = PutMode::Overwrite;
        }
        let res = self.gate.inner.put_opts(location, payload, opts).await;
        let out = match &res {
            Ok(_) if d == Decision::Lost => "lost",
            Ok(_) => "ok",
            Err(OsError::AlreadyExists { .. }) | Err(OsError::Precondition { .. }) => "exists",
            Err(_) => "err",
        };
        self.gate
            .emit_call(self.actor, op, &c, out, content, 1, json!([]), -1);
        if d == Decision::Lost && res.is_ok() {
            return Err(injected(p, "lost response"));
        }
        res
    }

    async fn put_multipart_opts(
        &self,
        location: &Path,
        _opts: PutMultipartOptions,
    ) -> OsResult<Box<dyn MultipartUpload>> {
        let me = Arc::new(GateStore {
            gate: self.gate.clone(),
            actor: self.actor,
        });
        Ok(Box::new(GateUpload {
            store: Arc::new(GateStoreRef { gate_store: me }),
            location: location.clone(),
            parts: vec![],
        }))
    }

    async fn get_opts(&self, location: &Path, options: GetOptions) -> OsResult<GetResult> {
        let p = location.as_ref();
        if options.head {
            // `head` is implemented below; a head-only get is treated the same way
            let meta = self.head(location).await?;
            let mut r = self.gate.inner.get_opts(location, options).await?;
            r.meta = meta;
            return Ok(r);
        }
        let c = self.gate.classify(p);
        let res = self.gate.inner.get_opts(location, options).await;
        if matches!(c.cls, "final" | "staging" | "detached") {
            let (out, content) = match &res {
                Ok(_) => ("ok", self.gate.content_of(location)),
                Err(OsError::NotFound { .. }) => ("notfound", -1),
                Err(_) => ("err", -1),
            };
            self.gate
                .emit_call(self.actor, "get", &c, out, content, 0, json!([]), -1);
        }
        res
    }

    async fn get_range(&self, location: &Path, range: Range<u64>) -> OsResult<Bytes> {
        let options = GetOptions {
            range: Some(range.into()),
            ..Default::default()
        };
        self.get_opts(location, options).await?.bytes().await
    }

    async fn head(&self, location: &Path) -> OsResult<ObjectMeta> {
        let p = location.as_ref();
        if !self.gate.is_protocol_path(p) {
            return self.gate.inner.head(location).await;
        }
        let c = self.gate.classify(p);
        let d = self.gate.enter(self.actor, "head", p).await;
        if d != Decision::Ok {
            self.gate
                .emit_call(self.actor, "head", &c, "fail", -1, 1, json!([]), -1);
            return Err(injected(p, "fail"));
        }
        let res = self.gate.inner.head(location).await;
        let (out, content) = match &res {
            Ok(_) => ("ok", self.gate.content_of(location)),
            Err(OsError::NotFound { .. }) => ("notfound", -1),
            Err(_) => ("err", -1),
        };
        self.gate
            .emit_call(self.actor, "head", &c, out, content, 1, json!([]), -1);
        res
    }

    async fn delete(&self, location: &Path) -> OsResult<()> {
        let p = location.as_ref();
        let c = self.gate.classify(p);
        let d = self.gate.enter(self.actor, "delete", p).await;
        if d == Decision::Fail {
            self.gate
                .emit_call(self.actor, "delete", &c, "fail", -1, 1, json!([]), -1);
            return Err(injected(p, "fail"));
        }
        // InMemory::delete succeeds on a missing object; report what really happened
        let existed = self.gate.inner.head(location).await.is_ok();
        let res = self.gate.inner.delete(location).await;
        let out = match (&res, existed, d) {
            (Ok(_), true, Decision::Lost) => "lost",
            (Ok(_), true, _) => "ok",
            (Ok(_), false, _) => "notfound",
            (Err(OsError::NotFound { .. }), _, _) => "notfound",
            (Err(_), _, _) => "err",
        };
        self.gate
            .emit_call(self.actor, "delete", &c, out, -1, 1, json!([]), -1);
        // a lost response only exists for a call that had an effect
        if d == Decision::Lost && res.is_ok() && existed {
            return Err(injected(p, "lost response"));
        }
        res
    }

    fn list(&self, prefix: Option<&Path>) -> BoxStream<'static, OsResult<ObjectMeta>> {
        let gate = self.gate.clone();
        let actor = self.actor;
        let prefix = prefix.cloned();
        let me = GateStore {
            gate: gate.clone(),
            actor,
        };
        futures::stream::once(async move {
            let p = prefix.as_ref().map(|x| x.to_string()).unwrap_or_default();
            let gated = gate.is_protocol_path(&p);
            let c = gate.classify(&p);
            if gated {
                let d = gate.enter(actor, "list", &p).await;
                if d != Decision::Ok {
                    gate.emit_call(actor, "list", &c, "fail", -1, 1, json!([]), -1);
                    return futures::stream::iter(vec![Err(injected(&p, "fail"))]).boxed();
                }
            }
            let metas: Vec<ObjectMeta> = match gate.inner.list(prefix.as_ref()).try_collect().await
            {
                Ok(m) => m,
                Err(e) => return futures::stream::iter(vec![Err(e)]).boxed(),
            };
            if gated {
                let ls = me.list_entries(&metas);
                gate.emit_call(actor, "list", &c, "ok", -1, 1, ls, -1);
            }
            futures::stream::iter(metas.into_iter().map(Ok)).boxed()
        })
        .flatten()
        .boxed()
    }

    async fn list_with_delimiter(&self, prefix: Option<&Path>) -> OsResult<ListResult> {
        let p = prefix.map(|x| x.to_string()).unwrap_or_default();
        let gated = self.gate.is_protocol_path(&p);
        let c = self.gate.classify(&p);
        if gated {
            let d = self.gate.enter(self.actor, "list", &p).await;
            if d != Decision::Ok {
                self.gate
                    .emit_call(self.actor, "list", &c, "fail", -1, 1, json!([]), -1);
                return Err(injected(&p, "fail"));
            }
        }
        let res = self.gate.inner.list_with_delimiter(prefix).await;
        if gated {
            let ls = match &res {
                Ok(r) => self.list_entries(&r.objects),
                Err(_) => json!([]),
            };
            self.gate
                .emit_call(self.actor, "list", &c, "ok", -1, 1, ls, -1);
        }
        res
    }

    async fn copy(&self, from: &Path, to: &Path) -> OsResult<()> {
        self.two_path(from, to, "copy").await
    }
    async fn rename(&self, from: &Path, to: &Path) -> OsResult<()> {
        self.two_path(from, to, "rename").await
    }
    async fn copy_if_not_exists(&self, from: &Path, to: &Path) -> OsResult<()> {
        self.two_path(from, to, "copy_if_absent").await
    }
    async fn rename_if_not_exists(&self, from: &Path, to: &Path) -> OsResult<()> {
        self.two_path(from, to, "rename_if_absent").await
    }
}

impl GateStore {
    /// copy / rename family: one gated, atomic call.  The event is classified by the destination;
    /// `aux` carries the staging id of the source.
    async fn two_path(&self, from: &Path, to: &Path, op: &str) -> OsResult<()> {
        let p = to.as_ref();
        let c = self.gate.classify(p);
        let cf = self.gate.classify(from.as_ref());
        let d = self.gate.enter(self.actor, op, p).await;
        if d == Decision::Fail {
            self.gate
                .emit_call(self.actor, op, &c, "fail", -1, 1, json!([]), cf.sid);
            return Err(injected(p, "fail"));
        }
        let mutated = self.gate.mutation() == "store_rename_overwrites";
        let res = match op {
            "copy" => self.gate.inner.copy(from, to).await,
            "rename" => self.gate.inner.rename(from, to).await,
            "copy_if_absent" => self.gate.inner.copy_if_not_exists(from, to).await,
            _ if mutated => self.gate.inner.rename(from, to).await,
            _ => {
                // atomic rename-if-absent (InMemory's default is copy_if_not_exists + delete)
                match self.gate.inner.copy_if_not_exists(from, to).await {
                    Ok(_) => self.gate.inner.delete(from).await,
                    Err(e) => Err(e),
                }
            }
        };
        let out = match &res {
            Ok(_) if d == Decision::Lost => "lost",
            Ok(_) => "ok",
            Err(OsError::AlreadyExists { .. }) => "exists",
            Err(OsError::NotFound { .. }) => "notfound",
            Err(_) => "err",
        };
        let content = if res.is_ok() {
            self.gate.content_of(to)
        } else {
            -1
        };
        self.gate
            .emit_call(self.actor, op, &c, out, content, 1, json!([]), cf.sid);
        if d == Decision::Lost && res.is_ok() {
            return Err(injected(p, "lost response"));
        }
        res
    }
}

// =====================================================================================================
// external manifest store (scriptable: shares the gate, one instance per actor)

pub struct GateExternalStore {
    pub gate: Arc<Gate>,
    pub actor: Actor,
}

impl Debug for GateExternalStore {
    fn fmt(&self, f: &mut Formatter<'_>) -> std::fmt::Result {
        write!(f, "GateExternalStore(actor={})", self.actor)
    }
}

fn lance_io_err(msg: String) -> lance_core::Error {
    lance_core::Error::io(msg, snafu::location!())
}

#[async_trait]
impl ExternalManifestStore for GateExternalStore {
    async fn get(&self, base_uri: &str, version: u64) -> lance_core::Result<String> {
        let none = self.gate.class_none();
        let d = self.gate.enter(self.actor, "ext_get", base_uri).await;
        if d != Decision::Ok {
            let c = PathClass {
                v: version as i64,
                ..none
            };
            self.gate
                .emit_call(self.actor, "ext_get", &c, "fail", -1, 1, json!([]), -1);
            return Err(lance_io_err("injected fault (ext_get)".into()));
        }
        let got = self.gate.ext_map().get(&version).cloned();
        match got {
            Some(p) => {
                let pc = self.gate.classify(&p);
                let c = PathClass {
                    cls: pc.cls,
                    v: version as i64,
                    sid: pc.sid,
                };
                self.gate
                    .emit_call(self.actor, "ext_get", &c, "ok", -1, 1, json!([]), -1);
                Ok(p)
            }
            None => {
                let c = PathClass {
                    v: version as i64,
                    ..none
                };
                self.gate
                    .emit_call(self.actor, "ext_get", &c, "notfound", -1, 1, json!([]), -1);
                Err(lance_core::Error::NotFound {
                    uri: format!("{base_uri}@{version}"),
                    location: snafu::location!(),
                })
            }
        }
    }

    async fn get_latest_version(&self, base_uri: &str) -> lance_core::Result<Option<(u64, String)>> {
        let none = self.gate.class_none();
        let d = self.gate.enter(self.actor, "ext_latest", base_uri).await;
        if d != Decision::Ok {
            self.gate
                .emit_call(self.actor, "ext_latest", &none, "fail", -1, 1, json!([]), -1);
            return Err(lance_io_err("injected fault (ext_latest)".into()));
        }
        let got = self
            .gate
            .ext_map()
            .iter()
            .next_back()
            .map(|(k, v)| (*k, v.clone()));
        match &got {
            Some((v, p)) => {
                let pc = self.gate.classify(p);
                let c = PathClass {
                    cls: pc.cls,
                    v: *v as i64,
                    sid: pc.sid,
                };
                self.gate
                    .emit_call(self.actor, "ext_latest", &c, "ok", -1, 1, json!([]), -1);
            }
            None => {
                self.gate.emit_call(
                    self.actor,
                    "ext_latest",
                    &none,
                    "notfound",
                    -1,
                    1,
                    json!([]),
                    -1,
                );
            }
        }
        Ok(got)
    }

    async fn put_if_not_exists(
        &self,
        base_uri: &str,
        version: u64,
        path: &str,
        _size: u64,
        _e_tag: Option<String>,
    ) -> lance_core::Result<()> {
        let _ = base_uri;
        self.ext_put(version, path, false).await
    }

    async fn put_if_exists(
        &self,
        base_uri: &str,
        version: u64,
        path: &str,
        _size: u64,
        _e_tag: Option<String>,
    ) -> lance_core::Result<()> {
        let _ = base_uri;
        self.ext_put(version, path, true).await
    }
}

impl GateExternalStore {
    async fn ext_put(&self, version: u64, path: &str, must_exist: bool) -> lance_core::Result<()> {
        let op = if must_exist {
            "ext_put_if_exists"
        } else {
            "ext_put_if_absent"
        };
        let pc = self.gate.classify(path);
        let c = PathClass {
            cls: pc.cls,
            v: version as i64,
            sid: pc.sid,
        };
        let d = self.gate.enter(self.actor, op, path).await;
        if d == Decision::Fail {
            self.gate
                .emit_call(self.actor, op, &c, "fail", -1, 1, json!([]), -1);
            return Err(lance_io_err(format!("injected fault ({op})")));
        }
        let exists = self.gate.ext_map().contains_key(&version);
        let mutated = self.gate.mutation() == "ext_put_overwrites";
        if exists != must_exist && !(mutated && !must_exist) {
            let out = if must_exist { "notfound" } else { "exists" };
            self.gate
                .emit_call(self.actor, op, &c, out, -1, 1, json!([]), -1);
            return Err(lance_io_err(format!(
                "external store: version {version} {}",
                if must_exist {
                    "does not exist"
                } else {
                    "already exists"
                }
            )));
        }
        self.gate.ext_set(version, Some(path.to_string()));
        let out = if d == Decision::Lost { "lost" } else { "ok" };
        self.gate
            .emit_call(self.actor, op, &c, out, -1, 1, json!([]), -1);
        if d == Decision::Lost {
            return Err(lance_io_err(format!("injected fault (lost response, {op})")));
        }
        Ok(())
    }
}

// =====================================================================================================
// commit lock (lease): a mutex kept in the gate; `lock` is only released by the scheduler when the
// model says the lease is free (otherwise the recorded outcome is "busy" and the call fails).

pub struct GateLock {
    pub gate: Arc<Gate>,
    pub actor: Actor,
}
impl Debug for GateLock {
    fn fmt(&self, f: &mut Formatter<'_>) -> std::fmt::Result {
        write!(f, "GateLock(actor={})", self.actor)
    }
}

pub struct GateLease {
    gate: Arc<Gate>,
    actor: Actor,
    version: u64,
}

#[async_trait]
impl CommitLock for GateLock {
    type Lease = GateLease;
    async fn lock(&self, version: u64) -> std::result::Result<Self::Lease, CommitError> {
        let c = PathClass {
            cls: "lease",
            v: version as i64,
            sid: 0,
        };
        let d = self.gate.enter(self.actor, "lock", "lease").await;
        if d != Decision::Ok {
            self.gate
                .emit_call(self.actor, "lock", &c, "fail", -1, 1, json!([]), -1);
            return Err(CommitError::OtherError(lance_io_err(
                "injected fault (lock)".into(),
            )));
        }
        let busy = {
            let mut st = self.gate.st.lock().unwrap();
            if st.lock_holder.is_some() {
                true
            } else {
                st.lock_holder = Some(self.actor);
                false
            }
        };
        if busy {
            self.gate
                .emit_call(self.actor, "lock", &c, "busy", -1, 1, json!([]), -1);
            return Err(CommitError::OtherError(lance_io_err(
                "lease is held by another actor".into(),
            )));
        }
        self.gate
            .emit_call(self.actor, "lock", &c, "ok", -1, 1, json!([]), -1);
        Ok(GateLease {
            gate: self.gate.clone(),
            actor: self.actor,
            version,
        })
    }
}

#[async_trait]
impl CommitLease for GateLease {
    async fn release(&self, success: bool) -> std::result::Result<(), CommitError> {
        let c = PathClass {
            cls: "lease",
            v: self.version as i64,
            sid: 0,
        };
        let d = self.gate.enter(self.actor, "unlock", "lease").await;
        if d == Decision::Fail {
            self.gate
                .emit_call(self.actor, "unlock", &c, "fail", -1, 1, json!([]), success as i64);
            return Err(CommitError::OtherError(lance_io_err(
                "injected fault (unlock)".into(),
            )));
        }
        let held = {
            let mut st = self.gate.st.lock().unwrap();
            if st.lock_holder == Some(self.actor) {
                st.lock_holder = None;
                true
            } else {
                false
            }
        };
        let out = match (held, d) {
            (true, Decision::Lost) => "lost",
            (true, _) => "ok",
            (false, _) => "notheld",
        };
        self.gate
            .emit_call(self.actor, "unlock", &c, out, -1, 1, json!([]), success as i64);
        if d == Decision::Lost && held {
            return Err(CommitError::OtherError(lance_io_err(
                "injected fault (lost response, unlock)".into(),
            )));
        }
        Ok(())
    }
}
