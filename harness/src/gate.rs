//! Gate store: an `object_store::ObjectStore` wrapper that attributes every storage call to an actor,
//! blocks it until the schedule releases it, can inject faults, and records one event per call.
//! (owned by the LanceCommit module builder)
