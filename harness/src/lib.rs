//! Shared plumbing for the conformance drivers.
//!
//! Drivers *record*; they never judge.  Every event is one JSON value per line,
//! later validated by TLC against `spec/Trace_<Module>.tla`.
pub mod trace;
pub mod gate;
pub mod tablekit;
