//! Shared helpers for drivers that operate on whole tables: building batches from the model's
//! small integer cells, classifying results, and projecting a table version to abstract JSON.
//!
//! Conventions shared with spec/LanceTable.tla:
//!   * user columns hold nullable Int32 cells; NULL is written as -1 on the wire
//!     (model values are naturals, so -1 is never a value);
//!   * column `id` is the logical row identity (never updated by scenarios);
//!   * a projection lists fragments in manifest order and live rows in scan order.
use std::sync::Arc;

use arrow_array::cast::AsArray;
use arrow_array::types::{Int32Type, Int64Type, UInt64Type};
use arrow_array::{Array, ArrayRef, Int32Array, RecordBatch, RecordBatchIterator};
use arrow_schema::{DataType, Field, Schema as ArrowSchema};
use futures::TryStreamExt;
use lance::dataset::Dataset;
use lance_index::DatasetIndexExt;
use lance::Error;
use serde_json::{json, Map, Value};

pub const NULL: i64 = -1;

pub fn arrow_schema(cols: &[String]) -> Arc<ArrowSchema> {
    Arc::new(ArrowSchema::new(
        cols.iter()
            .map(|c| Field::new(c, DataType::Int32, c != "id"))
            .collect::<Vec<_>>(),
    ))
}

/// rows: [[c0, c1, ...], ...] in the order of `cols`; -1 = NULL
pub fn batch(cols: &[String], rows: &[Vec<i64>]) -> RecordBatch {
    let schema = arrow_schema(cols);
    let arrays: Vec<ArrayRef> = (0..cols.len())
        .map(|ci| {
            Arc::new(Int32Array::from(
                rows.iter()
                    .map(|r| if r[ci] == NULL { None } else { Some(r[ci] as i32) })
                    .collect::<Vec<_>>(),
            )) as ArrayRef
        })
        .collect();
    RecordBatch::try_new(schema, arrays).unwrap()
}

pub fn reader(
    cols: &[String],
    rows: &[Vec<i64>],
) -> RecordBatchIterator<std::vec::IntoIter<std::result::Result<RecordBatch, arrow_schema::ArrowError>>>
{
    let b = batch(cols, rows);
    let schema = b.schema();
    RecordBatchIterator::new(vec![Ok(b)].into_iter(), schema)
}

pub fn rows_of(v: &Value) -> Vec<Vec<i64>> {
    v.as_array()
        .map(|a| {
            a.iter()
                .map(|r| r.as_array().unwrap().iter().map(|x| x.as_i64().unwrap()).collect())
                .collect()
        })
        .unwrap_or_default()
}

pub fn strs_of(v: &Value) -> Vec<String> {
    v.as_array()
        .map(|a| a.iter().map(|x| x.as_str().unwrap().to_string()).collect())
        .unwrap_or_default()
}

/// Result class of a lance call.
pub fn classify(e: &Error) -> String {
    match e {
        Error::CommitConflict { .. } => "incompatible".into(),
        Error::RetryableCommitConflict { .. } => "retryable".into(),
        Error::TooMuchWriteContention { .. } => "contention".into(),
        Error::InvalidInput { .. } => "invalid".into(),
        Error::DatasetNotFound { .. } | Error::NotFound { .. } => "notfound".into(),
        Error::DatasetAlreadyExists { .. } => "exists".into(),
        Error::NotSupported { .. } => "unsupported".into(),
        Error::SchemaMismatch { .. } => "schema".into(),
        Error::VersionConflict { .. } => "versionconflict".into(),
        Error::RefConflict { .. } => "refconflict".into(),
        Error::RefNotFound { .. } => "refnotfound".into(),
        Error::InvalidRef { .. } => "invalidref".into(),
        Error::IO { .. } => "io".into(),
        Error::Internal { .. } => "internal".into(),
        Error::CorruptFile { .. } => "corrupt".into(),
        Error::Execution { .. } => "execution".into(),
        Error::Arrow { .. } => "arrow".into(),
        Error::Index { .. } => "index".into(),
        Error::Cleanup { .. } => "cleanup".into(),
        other => {
            let s = format!("{other:?}");
            format!("error:{}", s.split(|c: char| !c.is_alphanumeric()).next().unwrap_or("other"))
        }
    }
}

pub fn err_text(e: &Error) -> String {
    let s = e.to_string();
    s.chars().take(300).collect()
}

fn cell(arr: &ArrayRef, i: usize) -> i64 {
    if arr.is_null(i) {
        return NULL;
    }
    match arr.data_type() {
        DataType::Int32 => arr.as_primitive::<Int32Type>().value(i) as i64,
        DataType::Int64 => arr.as_primitive::<Int64Type>().value(i),
        DataType::UInt64 => arr.as_primitive::<UInt64Type>().value(i) as i64,
        _ => -2,
    }
}

/// Project one table version to the abstract state the spec talks about.
pub async fn project(ds: &Dataset) -> lance::Result<Value> {
    let m = ds.manifest();
    let stable = m.uses_stable_row_ids();
    let user_cols: Vec<String> = ds.schema().fields.iter().map(|f| f.name.clone()).collect();
    // live rows in scan order
    let mut scan = ds.scan();
    let mut cols: Vec<String> = user_cols.clone();
    cols.push("_rowid".into());
    cols.push("_rowaddr".into());
    if stable {
        cols.push("_row_created_at_version".into());
        cols.push("_row_last_updated_at_version".into());
    }
    scan.project(&cols)?;
    scan.scan_in_order(true);
    let batches: Vec<RecordBatch> = scan.try_into_stream().await?.try_collect().await?;
    // fragment -> rows
    let mut frag_rows: std::collections::BTreeMap<u64, Vec<Value>> = Default::default();
    let mut scan_order: Vec<Value> = vec![];
    for b in &batches {
        let get = |n: &str| b.column_by_name(n).cloned();
        let rid = get("_rowid").unwrap();
        let addr = get("_rowaddr").unwrap();
        for i in 0..b.num_rows() {
            let a = addr.as_primitive::<UInt64Type>().value(i);
            let (f, off) = (a >> 32, a & 0xffff_ffff);
            let mut cells = Map::new();
            for c in &user_cols {
                let arr = get(c).unwrap();
                let v = if matches!(arr.data_type(), DataType::Int32 | DataType::Int64 | DataType::UInt64) {
                    json!(cell(&arr, i))
                } else {
                    json!(-2)
                };
                cells.insert(c.clone(), v);
            }
            let mut row = Map::new();
            row.insert("c".into(), Value::Object(cells));
            row.insert("off".into(), json!(off));
            let r = rid.as_primitive::<UInt64Type>().value(i);
            if stable {
                row.insert("rid".into(), json!(r));
                row.insert("cre".into(), json!(cell(&get("_row_created_at_version").unwrap(), i)));
                row.insert("upd".into(), json!(cell(&get("_row_last_updated_at_version").unwrap(), i)));
            } else {
                // address-style row ids must equal the row address
                row.insert("rid".into(), json!(if r == a { -1 } else { -2 }));
                row.insert("cre".into(), json!(-1));
                row.insert("upd".into(), json!(-1));
            }
            scan_order.push(json!([f, off]));
            frag_rows.entry(f).or_default().push(Value::Object(row));
        }
    }
    let mut frags = vec![];
    for f in m.fragments.iter() {
        let ff = ds.get_fragment(f.id as usize);
        let del: Vec<u32> = match &ff {
            Some(ff) => match ff.get_deletion_vector().await? {
                Some(dv) => {
                    let mut v: Vec<u32> = dv.to_sorted_iter().collect();
                    v.sort();
                    v
                }
                None => vec![],
            },
            None => vec![],
        };
        let files: Vec<Value> = f
            .files
            .iter()
            .map(|df| json!({"fields": df.fields, "base": df.base_id.map(|x| x as i64).unwrap_or(-1)}))
            .collect();
        frags.push(json!({
            "id": f.id,
            "phys": f.physical_rows.map(|x| x as i64).unwrap_or(-1),
            "del": del,
            "ndel_meta": f.deletion_file.as_ref().and_then(|d| d.num_deleted_rows).map(|x| x as i64).unwrap_or(if f.deletion_file.is_some() { -1 } else { 0 }),
            "files": files,
            "rows": frag_rows.remove(&f.id).unwrap_or_default(),
        }));
    }
    // rows whose address names a fragment that is not in the manifest would be a defect: keep them visible
    let orphan: Vec<Value> = frag_rows.into_iter().map(|(f, r)| json!({"frag": f, "rows": r})).collect();
    let schema: Vec<Value> = ds
        .schema()
        .fields
        .iter()
        .map(|f| json!({"name": f.name, "id": f.id, "type": format!("{}", f.data_type()), "nullable": f.nullable}))
        .collect();
    let indices = ds.load_indices().await?;
    let idx: Vec<Value> = indices
        .iter()
        .map(|i| {
            json!({
                "name": i.name,
                "fields": i.fields,
                "frags": i.fragment_bitmap.as_ref().map(|b| b.iter().collect::<Vec<u32>>()),
                "has_bitmap": i.fragment_bitmap.is_some(),
                "dsv": i.dataset_version,
            })
        })
        .collect();
    let mut config: Vec<(String, String)> = m.config.iter().map(|(k, v)| (k.clone(), v.clone())).collect();
    config.sort();
    Ok(json!({
        "v": m.version,
        "stable": stable,
        "frags": frags,
        "orphan": orphan,
        "scan": scan_order,
        "max_frag": m.max_fragment_id.map(|x| x as i64).unwrap_or(-1),
        "next_row_id": if stable { m.next_row_id as i64 } else { -1 },
        "schema": schema,
        "indices": idx,
        "config": config,
        "rflags": m.reader_feature_flags,
        "wflags": m.writer_feature_flags,
        "count": ds.count_rows(None).await? as i64,
    }))
}
