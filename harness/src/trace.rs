use serde_json::Value;
use std::fs::File;
use std::io::{BufWriter, Write};

/// Append-only ndjson event sink.
pub struct TraceWriter {
    out: BufWriter<File>,
    pub count: u64,
}

impl TraceWriter {
    pub fn create(path: &str) -> Self {
        let f = File::create(path).unwrap_or_else(|e| panic!("cannot create {path}: {e}"));
        Self {
            out: BufWriter::with_capacity(1 << 20, f),
            count: 0,
        }
    }
    pub fn emit(&mut self, v: Value) {
        serde_json::to_writer(&mut self.out, &v).unwrap();
        self.out.write_all(b"\n").unwrap();
        self.count += 1;
    }
    pub fn finish(mut self) -> u64 {
        self.out.flush().unwrap();
        self.count
    }
}

/// Tiny `--key value` argument parser (no clap: keeps the harness dependency-free).
pub struct Args(pub Vec<String>);
impl Args {
    pub fn from_env() -> Self {
        Self(std::env::args().skip(1).collect())
    }
    pub fn get(&self, key: &str) -> Option<String> {
        let k = format!("--{key}");
        self.0
            .iter()
            .position(|a| *a == k)
            .and_then(|i| self.0.get(i + 1).cloned())
    }
    pub fn get_or(&self, key: &str, default: &str) -> String {
        self.get(key).unwrap_or_else(|| default.to_string())
    }
    pub fn num(&self, key: &str, default: u64) -> u64 {
        self.get(key).map(|s| s.parse().unwrap()).unwrap_or(default)
    }
    pub fn flag(&self, key: &str) -> bool {
        let k = format!("--{key}");
        self.0.iter().any(|a| *a == k)
    }
}

/// Run `f`, turning a panic inside the code under test into data.
pub fn catch<T>(f: impl FnOnce() -> T + std::panic::UnwindSafe) -> Result<T, String> {
    std::panic::catch_unwind(f).map_err(|e| {
        if let Some(s) = e.downcast_ref::<&str>() {
            s.to_string()
        } else if let Some(s) = e.downcast_ref::<String>() {
            s.clone()
        } else {
            "panic".to_string()
        }
    })
}
