"""C01 -- every commit is atomic; versions form a dense, monotone history (spec/LanceCommit.tla)."""
from checks import commit_common as cc


def families(tier):
    q = tier == "quick"
    F = cc.fam
    fams = [
        F("condput", "append", "append", fail=1, crash=1),
        F("condput", "delete", "append", fail=1, crash=1),
        F("condput", "overwrite", "delete", fail=1, crash=1),
        F("condput", "restore", "append", fail=1, crash=1),
        F("condput", "append", "append", v2=True, r3=2, fail=1, crash=1),
        F("condput", "detached", "append", v2=True, fail=1, crash=1),
        F("rename", "append", "overwrite", fail=1, crash=1),
        F("rename", "delete", "delete", v2=True, fail=1, crash=1),
        F("lock", "append", "restore", fail=0, crash=1),
        F("external", "append", "delete", fail=0, crash=1),
        F("external", "append", "append", fail=0, lost=1, crash=0, r3=99),
        F("unsafe", "append", "append", fail=1, crash=1),
    ]
    if not q:
        fams += [
            F("condput", "append", "delete", op4="overwrite", att=(2, 2, 2), fail=1, crash=1),
            F("condput", "append", "append", fail=2, crash=2),
            F("rename", "restore", "append", fail=2, crash=1, r5=1),
            F("lock", "delete", "append", fail=1, crash=1),
            F("external", "restore", "append", fail=1, crash=1),
            # (lost AND fail together is the listed C10 double fault; it also shows as WriteAppliedOnce here and is
            #  listed under C01 with that signature)
            F("external", "append", "append", fail=1, lost=1, crash=0),
            F("external", "append", "append", fail=0, lost=1, crash=1),
            F("external", "overwrite", "append", op4="append", att=(2, 2, 2), fail=0, crash=1, r3=99),
        ]
    return fams


def run(prop, tier, replay):
    return cc.run_check(prop, tier, replay, families(tier),
                        expect_pcs=("o_list", "w_aux", "w_list", "w_txn", "c_put", "c_stage", "c_rename", "c_lock", "c_head",
                                    "c_lput", "c_unlock", "c_ext", "f_copy", "f_flip", "f_del", "crash", "a_list", "v_final"))
