"""C02 -- at most one writer wins each version slot; published manifests never change."""
from checks import commit_common as cc


def families(tier):
    q = tier == "quick"
    F = cc.fam
    fams = [
        F("condput", "append", "append", fail=1, lost=1, crash=0),
        F("rename", "append", "append", fail=1, lost=1, crash=0),
        F("lock", "append", "append", fail=1, lost=0, crash=1),
        F("lock", "append", "append", fail=0, lost=1, crash=0, r3=99),
        F("external", "append", "append", fail=0, lost=0, crash=0),
        F("external", "append", "append", fail=0, lost=1, crash=0, r3=99),
        F("condput", "append", "append", op4="append", att=(2, 2, 2), fail=0, crash=0, r3=99),
        F("condput", "append", "append", att=(1, 1, 1), fail=1, crash=0),
        F("unsafe", "append", "append", fail=0, crash=0),
        # bare handler writers: CommitHandler::commit itself, manifests without a transaction file
        dict(F("external", "bare", "bare", att=(1, 1, 1), fail=0, lost=1, crash=0), cap=200),
        F("condput", "bare", "bare", att=(1, 1, 1), fail=0, lost=1, crash=0),
        F("rename", "bare", "bare", att=(1, 1, 1), fail=1, lost=1, crash=0),
        F("lock", "bare", "bare", att=(1, 1, 1), fail=0, lost=0, crash=1),
    ]
    if not q:
        fams += [
            F("condput", "append", "append", op4="append", att=(3, 3, 3), fail=1, lost=1, crash=1),
            F("rename", "append", "append", op4="append", att=(2, 2, 2), fail=1, lost=1, crash=0, r3=99),
            F("lock", "append", "append", op4="append", att=(2, 2, 2), fail=0, lost=0, crash=1, r3=99),
            F("external", "append", "append", fail=1, lost=1, crash=1),
            F("external", "append", "none", fail=1, lost=0, crash=1, r5=0),
            F("rename", "overwrite", "overwrite", fail=1, lost=1, crash=1),
            F("external", "bare", "bare", op4="bare", att=(1, 1, 1), fail=0, lost=1, crash=0, r3=99),
            F("external", "bare", "bare", att=(1, 1, 1), fail=1, lost=1, crash=1),
            F("condput", "bare", "bare", op4="bare", att=(1, 1, 1), fail=1, lost=1, crash=1),
            F("unsafe", "bare", "bare", att=(1, 1, 1), fail=0, lost=0, crash=0),
        ]
    return fams


def run(prop, tier, replay):
    F = cc.fam
    teeth = [
        # the unsafe handler really does publish two manifests for one version (it is exempt from C02)
        (F("unsafe", "append", "append", fail=0, crash=0, r3=99), "OneManifestPerVersionStrict"),
        # a lease that expires under a live holder breaks mutual exclusion (documented assumption)
        (F("lock", "append", "append", fail=0, crash=0, r3=99, dev=("LeaseExpiresWhileHeld",)), "OneManifestPerVersionStrict"),
        # "no transaction file name = no transaction file name" in the lost-response recovery lets the loser of an
        # already finalized version overwrite the published manifest
        (F("external", "bare", "bare", att=(1, 1, 1), fail=0, crash=0, r3=99, dev=("EmptyTxnIdentityMatches",)),
         "ManifestsImmutableInv"),
    ]
    return cc.run_check(prop, tier, replay, families(tier), teeth=teeth, cap_quick=45,
                        expect_counts=("bareExtGetFinal", "bareCommits"),
                        expect_pcs=("c_put", "c_stage", "c_rename", "c_delst", "c_lock", "c_head", "c_lput", "c_unlock",
                                    "c_ext", "f_copy", "w_list"))
