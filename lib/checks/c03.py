"""C03 -- concurrent transactions serialize (LanceTable: SerialEquivalence, FailedHasNoEffect)."""
from checks import table_common as T

FAMILIES = [dict(name="dml", ids=[1, 2, 3, 4], vals=[5], maxv=6, maxops=2, maxops_thorough=3,
                 stable=[True, False], opkinds=T.ALL_OPS)]


def run(prop, tier, replay):
    return T.run(prop, tier, FAMILIES, {"SerialEquivalence", "FailedHasNoEffect"}, replay=replay,
                 assumptions=["concurrency is expressed as stale read versions + commit order (commit atomicity is C01/C02)",
                              "scenarios keep the key column unique (lance does not enforce keys; racing inserts of one key are outside the property)",
                              "conflict_retries = 0 so a retryable conflict surfaces instead of re-executing"])
