"""C04 -- no lost updates (LanceTable: NoLostUpdate, NoDoubleImage)."""
from checks import table_common as T

FAMILIES = [{'name': 'rowconf', 'ids': [1, 2, 3, 4], 'vals': [5], 'maxv': 6, 'maxops': 2, 'maxops_thorough': 3, 'stable': [True, False], 'opkinds': ['delete', 'update', 'upsert', 'colupdate', 'compact', 'checkout']}]


def run(prop, tier, replay):
    return T.run(prop, tier, FAMILIES, {'NoDoubleImage', 'NoLostUpdate'}, replay=replay, reread=False, quick_cap=4000,
                 assumptions=['concurrency is expressed as stale read versions + commit order (commit atomicity is C01/C02)', 'scenarios keep the key column unique (lance does not enforce keys)', 'conflict_retries = 0 so a retryable conflict surfaces instead of re-executing'])
