"""C06 -- time travel is immutable (every observed version is re-read at the end of every history)."""
from checks import table_common as T

FAMILIES = [{'name': 'tt', 'ids': [1, 2, 3, 4], 'vals': [5], 'maxv': 7, 'maxops': 2, 'maxops_thorough': 3, 'stable': [True, False], 'opkinds': ['append', 'delete', 'update', 'upsert', 'compact', 'overwrite', 'restore', 'checkout', 'colupdate']}]


def run(prop, tier, replay):
    return T.run(prop, tier, FAMILIES, {'VersionsImmutable'}, replay=replay, reread=True,
                 assumptions=['concurrency is expressed as stale read versions + commit order (commit atomicity is C01/C02)', 'scenarios keep the key column unique (lance does not enforce keys)', 'conflict_retries = 0 so a retryable conflict surfaces instead of re-executing'])
