"""C07 -- restore reproduces the old version and never reuses row ids."""
from checks import table_common as T

FAMILIES = [{'name': 'restore', 'ids': [1, 2, 3, 4], 'vals': [5], 'maxv': 7, 'maxops': 3, 'maxops_thorough': 4, 'stable': [True], 'opkinds': ['restore', 'append', 'upsert', 'update', 'delete']}, {'name': 'restore-nostable', 'ids': [1, 2, 3, 4], 'vals': [5], 'maxv': 7, 'maxops': 2, 'maxops_thorough': 3, 'stable': [False], 'opkinds': ['restore', 'append', 'upsert', 'update', 'delete', 'compact']}]


def run(prop, tier, replay):
    return T.run(prop, tier, FAMILIES, {'RestoreEqualsOld', 'RowIdsNeverReused'}, replay=replay, reread=False,
                 assumptions=['concurrency is expressed as stale read versions + commit order (commit atomicity is C01/C02)', 'scenarios keep the key column unique (lance does not enforce keys)', 'conflict_retries = 0 so a retryable conflict surfaces instead of re-executing'])
