"""C08 -- cleanup never removes anything a retained version needs (sequential half): LanceCleanup.tla is model-checked
and generates histories of commits, tags, writes in progress, ageing and cleanups (through possibly stale handles, every
policy combination); each is replayed on a real table and TLC judges the re-read of every version after every cleanup."""
import random
import time

import vlib
from checks import query_common as Q
from checks import table_common as T

CFG = """SPECIFICATION Spec
CONSTANTS
  MaxVersions = {maxv}
  MaxFiles = {maxf}
  MaxSteps = {steps}
  TagNames = {{"t1"}}
VIEW view
INVARIANTS {inv}
CHECK_DEADLOCK FALSE
"""
INVS = "TypeOK RetainedReadable OnlyPolicyManifests NoInProgressFileDeleted"


def to_scenario(hist, sid, stable):
    steps = [{"op": "create", "h": "main", "rows": [[1, 1], [2, -1]]}]
    live = [1, 2]
    nxt = 3
    ver = 1
    pend = None
    for st in hist:
        op = st["op"]
        if op == "commit":
            k = st["kind"]
            if k == "delete" and not live:
                k = "append"
            if k == "append":
                steps.append({"op": "append", "h": "main", "rows": [[nxt, 5]]})
                live.append(nxt)
                nxt += 1
            elif k == "delete":
                steps.append({"op": "delete", "h": "main", "pred": ["in", "id", [live.pop(0)]]})
            elif k == "overwrite":
                steps.append({"op": "overwrite", "h": "main", "rows": [[nxt, 5], [nxt + 1, -1]]})
                live = [nxt, nxt + 1]
                nxt += 2
            else:  # "rewrite": every row image is rewritten
                steps.append({"op": "update", "h": "main", "pred": ["true"], "set": [["val", "7"]], "setexpr": ["lit", 7]})
            ver += 1
        elif op == "begin":
            pend = [[nxt, 5]]
            steps.append({"op": "begin_append", "h": "main", "t": "w", "rows": pend})
            live.append(nxt)
            nxt += 1
        elif op == "finish":
            steps.append({"op": "refresh", "h": "main"})
            steps.append({"op": "commit", "t": "w", "rows": pend})
            ver += 1
        elif op == "tag":
            steps.append({"op": "tag", "name": st["name"], "v": st["v"]})
        elif op == "age":
            steps.append({"op": "age_files"})
        elif op == "cleanup":
            steps.append({"op": "checkout", "h": "c", "from": "main", "v": st["hv"]})
            steps.append({"op": "cleanup", "h": "c", "before_version": st["before"], "delete_unverified": st["unverified"],
                          "error_if_tagged": st["err_if_tagged"]})
        if op in ("commit", "finish"):
            steps.append({"op": "refresh", "h": "main"})
    steps.append({"op": "refresh", "h": "main"})
    steps.append({"op": "append", "h": "main", "rows": [[nxt, 5]]})
    steps.append({"op": "validate"})
    return {"id": sid, "stable": stable, "steps": steps}


def run(prop, tier, replay):
    if replay:
        return Q.replay(prop, replay, {"RetainedReadable", "OnlyPolicyManifests", "LatestUnreadable", "ScanEqualsModel"}, trace_module="Trace_LanceTable")
    t0 = time.time()
    out = vlib.Outcome(prop)
    rnd = random.Random(vlib.seed())
    steps = 4 if tier == "quick" else 5
    c = CFG.format(maxv=5, maxf=7, steps=steps, inv=INVS)
    mc = vlib.tlc_mc(f"{prop}-mc", "LanceCleanup", c, workers=8, timeout=3000)
    if mc["violated"]:
        out.report({"spec": "LanceCleanup", "invariant": mc["violated"]}, f"design violates {mc['violated']}", {})
    hists, _ = vlib.tlc_gen(f"{prop}-gen", "LanceCleanup", CFG.format(maxv=5, maxf=7, steps=steps, inv="GenPrint"), tag="SCN",
                            workers=4, timeout=3000)
    hists = [h for h in hists if any(s["op"] == "cleanup" for s in h)]
    total = len(hists)
    hists = T.sample(hists, 600 if tier == "quick" else 6000, rnd)
    scenarios = [to_scenario(h, i + 1, bool(i % 2)) for i, h in enumerate(hists)]
    reports, scn_file, build_s = Q.run_scenarios(prop, "cleanup", scenarios)
    return Q.finish(prop, tier, t0, out, mc, reports, scn_file, len(scenarios),
                    {"RetainedReadable", "OnlyPolicyManifests", "LatestUnreadable", "ScanEqualsModel"},
                    ["sequential histories only: races between the cleaner's storage calls and a concurrent writer are not replayed "
                     "(the gate store exists but the cleanup race driver was not built)",
                     "policies: before_version x delete_unverified x error_if_tagged, run through a handle pinned at any version; "
                     "time-based policies and auto-cleanup are not covered; file age is simulated by setting mtimes 9 days back",
                     "a commit prepared before a cleanup (files uploaded, not yet committed) is committed afterwards and must read back"],
                    {"histories_generated_by_tlc": total, "histories_replayed": len(scenarios), "exhaustive": total == len(scenarios),
                     "harness_build_s": build_s,
                     "rule": "one scenario per TLC-generated history that contains a cleanup (distinct final model states); "
                             "non-trivial = at least one cleanup executed and every version re-read"})
