"""C09 -- branches, tags and shallow clones are isolated references
(spec/LanceRefsOps.tla, spec/LanceRefs.tla, spec/Trace_LanceRefs.tla, harness/src/bin/vh_refs.rs).

Two halves:
 (a) name grammar: every token sequence up to length 5 (quick) / 6 (thorough) over the alphabet of
     LanceRefsOps goes through the real check_valid_branch / check_valid_tag; TLC compares accept/reject
     with the documented grammar and checks the enumeration is complete (position = NameIdx, count =
     UniverseSize);
 (b) isolation: TLC model-checks the intended design (LanceRefs.tla), generates histories (exhaustively
     for the small bound: one per distinct final state; and by seeded simulation for deeper ones), the
     driver replays them on real datasets and TLC judges every step (Trace_LanceRefs.tla).
"""
import concurrent.futures as cf
import json
import os
import random
import shutil
import time

import vlib

ALPHABET = ["a", "b", ".", "-", "_", "/", "@", "\\", "main", "lock"]   # = LanceRefsOps!Alphabet (the validator checks)

MC_CFG = """SPECIFICATION Spec
CONSTANTS
  NameSet = "{names}"
  TagNames = {tags}
  NClones = {nclones}
  MaxSteps = {steps}
  OpKinds = {ops}
  Deviations = {devs}
VIEW view
INVARIANTS {invs}
{props}
CHECK_DEADLOCK FALSE
"""
ALL_INVS = "TypeOK TagResolves RefResolves"
ALL_PROPS = "PROPERTIES BranchIsolation OwnHistoryKept DeleteRemovesOnlyOwn DeleteRemovesAllOwn OnlyOwnStorageTouched"
ALL_OPS = ["write", "branch", "tag", "clone", "cleanup"]
ACTIONS = ("AppendRow", "DeleteRow", "CreateBranch", "DeleteBranch", "SetTag", "DeleteTag", "ShallowClone", "Cleanup")
OP_ACTIONS = {"write": ("AppendRow", "DeleteRow"), "branch": ("CreateBranch", "DeleteBranch"), "tag": ("SetTag", "DeleteTag"),
              "clone": ("ShallowClone",), "cleanup": ("Cleanup",)}

TRACE_CFG = """SPECIFICATION TraceSpec
CONSTANTS
  Mode = "{mode}"
INVARIANT Report
POSTCONDITION TraceAccepted
CHECK_DEADLOCK FALSE
"""

# deviations of the code as built, and the property of the design each one breaks (checked on the model
# so that the finding signatures are tied to the specification, not only to the trace judgements)
AS_BUILT = [
    # (deviation, property (witness-printing variant), name set, op kinds, steps, clones)
    ("CharPrefixCleanupPath", "DeleteRemovesOnlyOwnW", "a-ab-a/b", ["branch"], 3, 0),
    ("CharPrefixCleanupPath", "DeleteRemovesAllOwnW", "a-ab-a/b", ["branch"], 3, 0),
    ("SubBranchKeepsDir", "DeleteRemovesAllOwnW", "a-ab-a/b", ["branch"], 3, 0),
    ("CleanupIgnoresDependents", "BranchIsolationW", "a-ab", ["write", "branch", "cleanup", "clone"], 5, 1),
    ("CleanupIgnoresDependents", "BranchIsolationOnBranchW", "a-ab", ["write", "branch", "cleanup"], 5, 0),
    ("CloneReadsHandleLocation", "RefResolvesW", "a-ab", ["write", "branch"], 4, 0),
]


def tla_set(xs):
    return "{" + ", ".join(json.dumps(x) for x in xs) + "}"


def cfg(names, steps, ops, devs=(), tags=("t1",), nclones=1, invs=ALL_INVS, props=ALL_PROPS):
    return MC_CFG.format(names=names, tags=tla_set(tags), nclones=nclones, steps=steps, ops=tla_set(ops),
                         devs=tla_set(devs), invs=invs, props=props)


# ---------------------------------------------------------------------------------------------
# histories -> driver scenarios

def is_prefix_related(a, b):
    return a != b and (a.startswith(b) or b.startswith(a) or (a[:1] == b[:1]))


def features(hist):
    """Coverage features of one history (used to pick a diverse sample)."""
    live, created_from, fs = set(), {}, set()
    for st in hist[1:]:
        op = st["op"]
        if op == "create_branch":
            n, s = "".join(st["name"]), "".join(st["src"])
            fs.add(("create", "from-main" if s == "main" else "from-branch", "rel" if any(is_prefix_related(n, x) for x in live) else "unrel"))
            live.add(n)
            created_from[n] = s
        elif op == "delete_branch":
            n = "".join(st["name"])
            live.discard(n)
            rel = sorted({("sub" if x.startswith(n + "/") else "parent" if n.startswith(x + "/") else
                           "charprefix" if (x.startswith(n) or n.startswith(x)) else "common" if x[:1] == n[:1] else "none")
                          for x in live}) or ["alone"]
            fs.add(("delete", "+".join(rel)))
        elif op == "clone":
            s = "".join(st["src"])
            fs.add(("clone", "from-main" if s == "main" else "from-branch"))
            created_from["".join(st["clone"])] = s
        elif op in ("create_tag", "update_tag"):
            fs.add((op, "main" if "".join(st["src"]) == "main" else "branch"))
        elif op == "cleanup":
            on = "".join(st["on"])
            fs.add(("cleanup", "main" if on == "main" else "clone" if on.startswith("#") else "branch",
                    "has-dependents" if on in created_from.values() else "no-dependents"))
        elif op in ("append", "delete"):
            on = "".join(st["on"])
            fs.add((op, "main" if on == "main" else "clone" if on.startswith("#") else "branch"))
        else:
            fs.add((op,))
    return fs


def pick(hists, cap, rnd):
    """Feature-covering sample: first histories that add an unseen feature pair, then random fill."""
    if len(hists) <= cap:
        return list(hists), True
    order = list(range(len(hists)))
    rnd.shuffle(order)
    seen, chosen, rest = set(), [], []
    for i in order:
        fs = features(hists[i])
        pairs = {(a, b) for a in fs for b in fs if a <= b}
        if pairs - seen and len(chosen) < cap * 2 // 3:
            seen |= pairs
            chosen.append(i)
        else:
            rest.append(i)
    # fill: half with histories that delete a branch or clean up (the operations that remove storage), half at random
    hot = [i for i in rest if any(st["op"] in ("delete_branch", "cleanup") for st in hists[i][1:])]
    need = cap - len(chosen)
    take = hot[: need // 2]
    chosen += take
    taken = set(take)
    chosen += [i for i in rest if i not in taken][: cap - len(chosen)]
    return [hists[i] for i in chosen], False


def hist_to_scenario(hist, sid, rnd, source, via_mode=None):
    """TLC history -> driver scenario.  The handle that issues a reference operation (`via`) and the way a
    version is named (number / tag / "latest") are driver-level choices the design does not depend on; they
    are drawn with the run's seed."""
    steps = [{"op": "init"}]
    live, latest, tags = [], {"main": 1}, {}
    for st in hist[1:]:
        op = st["op"]
        s = dict(st)
        handles = [["main"]] + [list(x) for x in live]
        if op in ("append", "delete"):
            latest["".join(st["on"])] = latest["".join(st["on"])] + 1
        elif op in ("create_branch", "clone"):
            src, v = "".join(st["src"]), st["v"]
            s["mv"] = v
            r = rnd.random()
            s["via"] = st["src"] if r < 0.7 else ["main"] if r < 0.9 else rnd.choice(handles)
            if via_mode is not None:      # witness scenarios pin the handle
                s["via"] = ["main"] if via_mode == "main" else st["src"]
            tagged = sorted(t for t, x in tags.items() if x == (src, v))
            r = rnd.random()
            if tagged and r < 0.5:
                s["tag_ref"] = tagged[0]
                del s["v"]
            elif latest.get(src) == v and r > 0.8 and s["via"] == st["src"]:
                del s["v"]              # Ref::Version(branch, None): "latest"
                s["latest"] = True
            if op == "create_branch":
                live.append(tuple(st["name"]))
                latest["".join(st["name"])] = v
            else:
                latest["".join(st["clone"])] = v
        elif op == "delete_branch":
            live.remove(tuple(st["name"]))
            latest.pop("".join(st["name"]), None)
            s["via"] = rnd.choice(handles)
            s["force"] = rnd.random() < 0.2
        elif op in ("create_tag", "update_tag"):
            s["mv"] = st["v"]
            s["via"] = rnd.choice(handles)
            tags[st["tag"]] = ("".join(st["src"]), st["v"])
        elif op == "delete_tag":
            s["via"] = rnd.choice(handles)
            tags.pop(st["tag"], None)
        steps.append(s)
    return {"id": sid, "source": source, "steps": steps}


# ---------------------------------------------------------------------------------------------

def run_replay(prop, replay):
    """Re-run one stored scenario (a replay file written by an earlier run) through driver and validator."""
    out = vlib.Outcome(prop)
    case = json.load(open(replay)).get("case", {})
    if "scenario" not in case:
        raise vlib.ToolError("replay file holds no history scenario (name-grammar findings are re-enumerated by a normal run)")
    binary, _ = vlib.harness_build("vh_refs")
    wd = vlib.workdir(f"{prop}-replay")
    scn = dict(case["scenario"], id=1)
    with open(os.path.join(wd, "scn.ndjson"), "w") as f:
        f.write(json.dumps(scn) + "\n")
    tf = os.path.join(wd, "trace.ndjson")
    vlib.harness_run(binary, ["--mode", "hist", "--scenarios", os.path.join(wd, "scn.ndjson"), "--out", tf,
                              "--scratch", os.path.join(wd, "scratch")])
    v = vlib.tlc_trace(f"{prop}-replay", "Trace_LanceRefs", TRACE_CFG.format(mode="hist"), tf, timeout=600, xmx="4g")
    if not v["reports"] or not v["accepted"]:
        raise vlib.ToolError(f"replay trace validation did not complete: {v['out']}")
    lines = open(tf).read().splitlines()
    for pos, _, i, opn, inv, cls in v["reports"][-1]["bad"]:
        ev = json.loads(lines[pos - 1])
        out.report({"invariant": inv, "op": opn, "class": cls},
                   f"{inv} violated by {opn} {cls} (step {i}: {json.dumps(ev['step'])} -> {ev['res']})",
                   {"scenario": scn, "step": i, "invariant": inv, "trace": tf})
    return out.finish()


def run(prop, tier, replay):
    if replay:
        return run_replay(prop, replay)
    t0 = time.time()
    rnd = random.Random(vlib.seed())
    out = vlib.Outcome(prop)
    quick = tier == "quick"
    assumptions = [
        "names are token sequences over {a b . - _ / @ \\ main lock}; non-ASCII alphanumerics (which the code accepts through "
        "char::is_alphanumeric and the docs neither allow nor forbid explicitly) are not enumerated",
        "branch names in histories are drawn from {a, ab, a/b, a/bc, b}; no branch segment is named like a standard directory "
        "(_versions, data, ...)",
        "a branch is deleted only when no other location references its files and no tag names it (the property leaves that case open); "
        "cleanup uses the policy 'everything before the latest version', tagged versions kept",
        "local file system store; the object tree is compared per (directory, extension) with file counts, manifests and ref files by name",
        "the handle that issues a reference operation and the spelling of a version reference (number / tag / latest) are seeded "
        "driver-level choices",
    ]
    pool = cf.ThreadPoolExecutor(max_workers=8)
    phases = {}
    # 0. harness build (own thread: TLC works while cargo waits for the shared build lock) ------------
    bpool = cf.ThreadPoolExecutor(max_workers=1)

    def build():
        r = vlib.harness_build("vh_refs")
        phases["build"] = round(time.time() - t0, 1)
        return r
    fut_build = bpool.submit(build)
    wd = vlib.workdir(f"{prop}-traces")
    maxlen = 5 if quick else 6
    nshards = 4 if quick else 8

    # 3a. names: enumerate, record, validate (independent of everything else: started first) -----------
    def names_shard(k):
        binary, _ = fut_build.result()
        tf = os.path.join(wd, f"names{k}.ndjson")
        vlib.harness_run(binary, ["--mode", "names", "--alphabet", json.dumps(ALPHABET), "--maxlen", maxlen,
                                  "--shard", k, "--shards", nshards, "--out", tf])
        v = vlib.tlc_trace(f"{prop}-names-{k}", "Trace_LanceRefs", TRACE_CFG.format(mode="names"), tf, timeout=3000, xmx="6g")
        return tf, v

    # 1. model-check the intended design; 1b. confirm the as-built deviations break the named property ---
    gen_from_mc = {"all-a": 170, "all-b": 170} if quick else {"all-a": 1500, "all-b": 1500, "all-c": 1500}
    if quick:
        mc_runs = [("all-a", cfg("a-ab-a/b", 4, ALL_OPS), ALL_OPS), ("all-b", cfg("a/b-a/bc-b", 4, ALL_OPS), ALL_OPS)]
    else:
        bw, bwc, btc = ["write", "branch"], ["write", "branch", "cleanup"], ["branch", "tag", "clone"]
        mc_runs = [("all-a", cfg("a-ab-a/b", 5, ALL_OPS), ALL_OPS), ("all-b", cfg("a/b-a/bc-b", 5, ALL_OPS), ALL_OPS),
                   ("all-c", cfg("ab-a/b-a/bc", 4, ALL_OPS), ALL_OPS),
                   ("bw4", cfg("a-ab-a/b-a/bc", 5, bw, nclones=0, tags=()), bw),
                   ("bwc", cfg("a-a/b-b", 6, bwc, nclones=0, tags=()), bwc),
                   ("btc", cfg("a-a/b-a/bc-b", 6, btc, nclones=2, tags=("t1", "t2")), btc)]
    # the exhaustive runs also print one history per distinct final state (GenPrint), see step 2
    def with_gen(c):
        return c.replace("INVARIANTS " + ALL_INVS, "INVARIANTS " + ALL_INVS + " GenPrint")
    fut_mc = {name: pool.submit(vlib.tlc_mc, f"{prop}-{name}", "LanceRefs", with_gen(c) if name in gen_from_mc else c, 4, 3000)
              for name, c, _ in mc_runs}
    fut_dev = {}
    for dev, inv, names, ops, steps, ncl in AS_BUILT:
        isinv = inv == "RefResolvesW"
        c = cfg(names, steps, ops, devs=[dev], nclones=ncl, tags=(), invs="TypeOK" + (" " + inv if isinv else ""),
                props="" if isinv else "PROPERTIES " + inv)
        fut_dev[(dev, inv)] = pool.submit(vlib.tlc_mc, f"{prop}-dev-{dev}-{inv}", "LanceRefs", c, 2, 1500, False)

    # 2. scenario generation ---------------------------------------------------------------------------
    def gen(name, c, simulate=None):
        g = c.replace("INVARIANTS " + ALL_INVS, "INVARIANTS GenPrint").replace(ALL_PROPS, "")
        return vlib.tlc_gen(f"{prop}-{name}", "LanceRefs", g, tag="SCN", workers=1, timeout=1500, simulate=simulate)
    if quick:
        gens = [("s-bw", cfg("ab-a/b-a/bc", 6, ["write", "branch"]), "num=150", 120),
                ("s-all", cfg("a-a/b-b", 7, ALL_OPS), "num=150", 120)]
    else:
        gens = [("s-bw", cfg("a-ab-a/b-a/bc", 7, ["write", "branch"]), "num=1500", 1500),
                ("s-bwc", cfg("a-a/b-a/bc-b", 8, ["write", "branch", "cleanup"]), "num=1500", 1500),
                ("s-all", cfg("all", 9, ALL_OPS, nclones=2, tags=("t1", "t2")), "num=2500", 2500)]
    fut_gen = {name: pool.submit(gen, name, c, sim) for name, c, sim, _ in gens}

    npool = cf.ThreadPoolExecutor(max_workers=4)
    fut_names = [npool.submit(names_shard, k) for k in range(nshards)]

    # 3b. histories ------------------------------------------------------------------------------------------
    scenarios, gen_info, exhaustive_hist = [], [], True
    mc_results = {name: fut_mc[name].result() for name, _, _ in mc_runs}
    phases["model_checked"] = round(time.time() - t0, 1)
    sources = [(name, None, gen_from_mc[name]) for name in gen_from_mc] + [(name, sim, cap) for name, _, sim, cap in gens]
    for name, sim, cap in sources:
        if name in gen_from_mc:
            hists = vlib._printed(open(mc_results[name]["out"]).read(), "SCN")
            stats = {"wall_s": mc_results[name]["wall_s"], "distinct": mc_results[name].get("distinct")}
        else:
            hists, stats = fut_gen[name].result()
        if not hists:
            raise vlib.ToolError(f"TLC generated no scenario ({name})")
        # simulation may repeat a history: keep distinct ones
        uniq = list({json.dumps(h, sort_keys=True): h for h in hists}.values())
        chosen, complete = pick(uniq, cap, rnd)
        if sim or not complete:
            exhaustive_hist = False
        gen_info.append({"gen": name, "mode": "simulate " + sim if sim else "one history per distinct final state",
                         "histories": len(hists), "distinct": len(uniq), "replayed": len(chosen), "tlc": stats})
        for h in chosen:
            scenarios.append(hist_to_scenario(h, len(scenarios) + 1, rnd, name))
    # the counterexamples of the as-built configurations are replayed too (they re-confirm, or stop confirming,
    # each known deviation on the real code on every run)
    dev_info = []
    for (dev, inv), fut in fut_dev.items():
        r = fut.result()
        wit = vlib._printed(open(r["out"]).read(), "WIT")
        dev_info.append({"deviation": dev, "expected_to_break": inv, "broke": r["violated"], "distinct": r.get("distinct"),
                         "witness": wit[0] if wit else None})
        for h in wit[:1]:
            scenarios.append(hist_to_scenario(h, len(scenarios) + 1, rnd, f"witness:{dev}:{inv}",
                                              via_mode="main" if dev == "CloneReadsHandleLocation" else "src"))
    phases["deviations_checked"] = round(time.time() - t0, 1)
    scn_file = os.path.join(wd, "scenarios.ndjson")
    with open(scn_file, "w") as f:
        for s in scenarios:
            f.write(json.dumps(s) + "\n")
    hshards = 6 if quick else 8
    scratch = os.path.join(vlib.WORK, f"refs-scratch-{os.getpid()}")   # local file system (the tree listing walks it)

    binary, build_s = fut_build.result()

    def hist_shard(k):
        tf = os.path.join(wd, f"hist{k}.ndjson")
        vlib.harness_run(binary, ["--mode", "hist", "--scenarios", scn_file, "--out", tf, "--scratch", f"{scratch}-{k}",
                                  "--shard", k, "--shards", hshards], timeout=3000)
        shutil.rmtree(f"{scratch}-{k}", ignore_errors=True)
        v = vlib.tlc_trace(f"{prop}-hist-{k}", "Trace_LanceRefs", TRACE_CFG.format(mode="hist"), tf, timeout=3000, xmx="6g")
        return tf, v
    phases["scenarios_ready"] = round(time.time() - t0, 1)
    fut_hist = [pool.submit(hist_shard, k) for k in range(hshards)]

    # 4. collect ----------------------------------------------------------------------------------------------
    states = trans = 0
    mc_info = []
    for name, c, ops in mc_runs:
        r = mc_results[name]
        if r["violated"]:
            out.report({"spec": "LanceRefs", "invariant": r["violated"]},
                       f"the intended design violates {r['violated']} (see {r['out']})", {"cfg": c})
        wanted = [a for k in ops for a in OP_ACTIONS[k]]
        zero = [a for a in wanted if r["coverage"].get(a, 0) == 0]
        if zero:
            raise vlib.ToolError(f"vacuous model run {name}: actions never taken {zero}")
        states += r.get("distinct", 0)
        trans += r.get("generated", 0)
        mc_info.append({"cfg": name, "distinct": r.get("distinct"), "generated": r.get("generated"),
                        "depth": r.get("depth"), "wall_s": r["wall_s"]})
    for d in dev_info:
        if d["broke"] != d["expected_to_break"]:
            raise vlib.ToolError(f"as-built deviation {d['deviation']} does not break {d['expected_to_break']} on the model "
                                 f"(got {d['broke']}): the finding signature is no longer tied to the specification")

    # names
    n_events = n_bad = 0
    names_counts = {}
    names_samples = []
    universe = None
    for k, fut in enumerate(fut_names):
        tf, v = fut.result()
        if not v["reports"] or not v["accepted"]:
            raise vlib.ToolError(f"names trace validation did not complete: {v['out']}")
        rep = v["reports"][-1]
        universe = rep["universe"]
        n_events += rep["seen"]
        for kk, n in rep["counts"].items():
            names_counts[kk] = names_counts.get(kk, 0) + n
        lines = None
        for b in rep["bad"]:
            pos, opn, cls = b
            n_bad += 1
            if lines is None:
                lines = open(tf).read().splitlines()
            ev = json.loads(lines[pos - 1])
            out.report({"op": opn, "class": cls},
                       f"{opn}: {cls} for name {''.join(ev[2])!r} (branch={ev[3]}, tag={ev[4]}) disagrees with docs/src/format/table/branch_tag.md",
                       {"event": ev})
        if k == 0:
            ls = open(tf).read().splitlines()
            names_samples = [json.loads(ls[i]) for i in (1, len(ls) // 2, len(ls) - 1)]
    names_complete = universe is not None and n_events == universe == sum(len(ALPHABET) ** i for i in range(maxlen + 1))
    if not names_complete:
        out.report({"kind": "incomplete-trace"}, f"name enumeration incomplete: {n_events} events, universe {universe}", {})
    if names_counts.get("branch_ok", 0) == 0 or names_counts.get("tag_ok", 0) == 0:
        raise vlib.ToolError("vacuous names run: nothing was accepted")

    # histories
    counts = {}
    events = 0
    bad_scn = set()
    hist_samples = []
    for k, fut in enumerate(fut_hist):
        tf, v = fut.result()
        if not v["reports"] or not v["accepted"]:
            raise vlib.ToolError(f"history trace validation did not complete: {v['out']}")
        rep = v["reports"][-1]
        events += rep["events"]
        for kk, n in rep["counts"].items():
            counts[kk] = counts.get(kk, 0) + n
        lines = None
        for b in rep["bad"]:
            pos, scn, i, opn, inv, cls = b
            bad_scn.add(scn)
            if lines is None:
                lines = open(tf).read().splitlines()
            ev = json.loads(lines[pos - 1])
            scenario = scenarios[scn - 1]
            out.report({"invariant": inv, "op": opn, "class": cls},
                       f"{inv} violated by {opn} {cls} (scenario {scn} step {i}: {json.dumps(ev['step'])} -> {ev['res']}) on the implementation trace",
                       {"scenario": scenario, "step": i, "invariant": inv, "trace": tf})
        if k == 0:
            ls = open(tf).read().splitlines()
            hist_samples = [json.loads(x) for x in ls[:3]]
    for need in ("create_branch", "delete_branch", "append", "delete", "create_tag", "clone", "cleanup",
                 "delete_with_related_names", "isolation_checks", "tag_checks", "via_other_handle"):
        if counts.get(need, 0) == 0:
            raise vlib.ToolError(f"vacuous history run: no {need} event was judged ({counts})")
    accepted_scn = len(scenarios) - len(bad_scn)
    phases["validated"] = round(time.time() - t0, 1)
    rc = out.finish()
    vlib.write_evidence(prop, tier, "model_checking", {
        "states": states, "transitions": trans,
        "traces_validated_against_impl": accepted_scn + (n_events - n_bad),
        "samples": [{"scenario": scenarios[0], "first_events": hist_samples}, {"names": names_samples}],
        "evaluations": len(scenarios) + n_events,
        "distinct_nontrivial": accepted_scn + (n_events - n_bad),
        "rule": "names: every token sequence up to the stated length over the 10-token alphabet, each enumerated once (the validator "
                "checks position = NameIdx and the count against UniverseSize), non-trivial = judged by ValidBranch/ValidTag; "
                "histories: distinct TLC-generated histories (one per distinct final state of the bounded model, sampled to cover all "
                "feature pairs, plus distinct seeded simulation traces), each containing at least one reference operation, counted when "
                "every step was accepted by Trace_LanceRefs",
        "exhaustive": bool(names_complete), "exhaustive_note": "exhaustive for the name universe; histories are a sample"
        if not exhaustive_hist else "exhaustive for the name universe and for the generated history set",
        "names": {"maxlen": maxlen, "alphabet": ALPHABET, "universe": universe, "events": n_events, "counts": names_counts},
        "histories": {"scenarios": len(scenarios), "accepted": accepted_scn, "events": events, "counts": counts, "generation": gen_info},
        "model_runs": mc_info, "as_built_deviation_runs": dev_info, "harness_build_s": build_s, "phases_s": phases,
    }, time.time() - t0, len(out.violations), assumptions)
    return rc
