"""C10 -- the external manifest store protocol keeps versions unique, durable and portable."""
from checks import commit_common as cc


def families(tier):
    q = tier == "quick"
    F = cc.fam
    fams = [
        F("external", "append", "append", fail=0, crash=1),
        F("external", "append", "append", fail=0, lost=1, crash=0, r3=99),
        F("external", "append", "none", fail=1, crash=1),
        # double fault (lost response of the put + failed EXT.get): the residual known finding
        F("external", "append", "none", r3=99, fail=1, lost=1, crash=0),
        F("external", "append", "none", r3=2, fail=0, crash=1),
        F("external", "append", "append", init="onboard", r3=1, fail=0, crash=1),
        F("external", "restore", "delete", fail=0, crash=1, r3=99),
    ]
    if not q:
        fams += [
            F("external", "append", "append", fail=1, crash=1),
            F("external", "append", "append", fail=2, crash=1),
            F("external", "append", "append", fail=1, lost=1, crash=1),
            F("external", "append", "none", fail=1, lost=0, crash=1, r5=0),
            F("external", "append", "overwrite", op4="append", att=(2, 2, 2), fail=0, crash=1, r3=99),
            F("external", "append", "append", v2=True, fail=1, crash=1, r3=2),
            F("external", "delete", "append", init="onboard", fail=1, crash=1, r3=1),
        ]
    return fams


def run(prop, tier, replay):
    return cc.run_check(prop, tier, replay, families(tier), cap_quick=80,
                        expect_pcs=("o_ext", "o_headfinal", "o_headstaging", "f_copy", "f_flip", "f_del", "f_headfinal",
                                    "c_stage", "c_ext", "c_extget", "c_headfin", "c_delst", "v_ext", "crash"))
