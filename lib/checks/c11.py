"""C11 -- create / append / overwrite / read returns exactly the rows written, in insertion order."""
from checks import table_common as T

FAMILIES = [dict(name="write", ids=[1, 2, 3, 4], vals=[5], maxv=6, maxops=2, maxops_thorough=3, stable=[True, False],
                 opkinds=["append", "overwrite", "checkout"], maxbatch=2)]
KNOBS = [dict(max_rows_per_file=f, max_rows_per_group=g, storage_version=v)
         for f in (1, 2, 1 << 20) for g in (1, 1024) for v in ("legacy", "2.0", "2.1")]


def run(prop, tier, replay):
    return T.run(prop, tier, FAMILIES, {"ScanEqualsModel"}, replay=replay, knob_list=KNOBS,
                 assumptions=["rows are (key, nullable int32) pairs; batches of 1-2 rows; file size limit 1 / 2 / unlimited rows, group size 1 / 1024, "
                              "storage versions legacy / 2.0 / 2.1 are configuration knobs cycled over the generated histories",
                              "per-type value fidelity over the Arrow type zoo is C25 (not applicable to this technique)"])
