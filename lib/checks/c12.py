"""C12 -- delete / update / merge_insert follow SQL semantics (TableQuery.tla + Sql3VL.tla)."""
import random
import time

import vlib
from checks import query_common as Q


def run(prop, tier, replay):
    if replay:
        return Q.replay(prop, replay, {"DmlMatchesSqlModel"}, trace_module="Trace_LanceTable")
    t0 = time.time()
    out = vlib.Outcome(prop)
    mc, stmts = Q.model_and_statements(prop, steps=1)
    if mc["violated"]:
        out.report({"spec": "TableQuery", "invariant": mc["violated"]}, f"reference semantics violates {mc['violated']}", {})
    rnd = random.Random(vlib.seed())
    hs = Q.histories("dml")
    # merge_insert must not depend on whether the KEY column is indexed: one more history, for merges only
    key_idx = ("keyidx-btree", list(Q.BASE) + [{"op": "create_index", "h": "main", "col": "id", "type": "btree"}])
    scenarios = []
    cap = 1400 if tier == "quick" else 100000
    merges = [st for st in stmts if st[-1]["op"] == "merge_insert"]
    others = [st for st in stmts if st[-1]["op"] != "merge_insert"]
    if not merges or not any(st[-1]["fails"] for st in merges) or not others:
        raise vlib.ToolError("TLC generated no (failing) merge_insert statement")
    n = 0
    # every merge statement, on every history, with and without stable row ids (few and cheap)
    for name, pre in hs + [key_idx]:
        for st in merges:
            for stable in (True, False):
                n += 1
                scenarios.append({"id": n, "stable": stable, "hist": name,
                                  "steps": pre + [Q.stmt_to_step(st[-1]), {"op": "validate"}]})
    n_merge = n
    room = max(len(hs), cap - n_merge)
    picked = others if len(others) * len(hs) <= room else rnd.sample(others, room // len(hs))
    for name, pre in hs:
        for st in picked:
            n += 1
            scenarios.append({"id": n, "stable": bool(n % 2), "hist": name,
                              "steps": pre + [Q.stmt_to_step(st[-1]), {"op": "validate"}]})
    reports, scn_file, build_s = Q.run_scenarios(prop, "dml", scenarios)
    return Q.finish(prop, tier, t0, out, mc, reports, scn_file, len(scenarios),
                    {"DmlMatchesSqlModel"},
                    ["the key column is non-null and unique in the target; source batches repeat keys only for keys present in the "
                     "target (a repeated unmatched key would insert two rows with one key; NULL keys are not generated)",
                     "values are small integers; NULL is the only special value",
                     "statements: every predicate of the Sql3VL grammar (depth <= 2 over column val) x delete / update with 3 "
                     "expressions; merge_insert over 7 sources (3 with repeated keys) x 12 option settings, all replayed with and without stable row ids; each on an unindexed, btree- and bitmap-indexed (val) table, merges also with a btree index on the key"],
                    {"statements_generated_by_tlc": len(stmts), "statements_replayed": len(picked) + len(merges), "merge_statements": len(merges),
                     "merge_statements_that_must_fail": sum(1 for st in merges if st[-1]["fails"]), "merge_scenarios": n_merge, "histories": [h[0] for h in hs],
                     "exhaustive": len(picked) == len(others), "harness_build_s": build_s,
                     "rule": "one scenario per (TLC-generated statement, table history); distinct by construction; non-trivial = the "
                             "statement executed and was judged against Effect() of the reference semantics"})
