"""C12 -- delete / update / merge_insert follow SQL semantics (TableQuery.tla + Sql3VL.tla)."""
import random
import time

import vlib
from checks import query_common as Q


def run(prop, tier, replay):
    if replay:
        return Q.replay(prop, replay, {"DmlMatchesSqlModel"}, trace_module="Trace_LanceTable")
    t0 = time.time()
    out = vlib.Outcome(prop)
    mc, stmts = Q.model_and_statements(prop, steps=1)
    if mc["violated"]:
        out.report({"spec": "TableQuery", "invariant": mc["violated"]}, f"reference semantics violates {mc['violated']}", {})
    rnd = random.Random(vlib.seed())
    hs = Q.histories("dml")
    scenarios = []
    cap = 900 if tier == "quick" else 100000
    picked = stmts if len(stmts) * len(hs) <= cap else rnd.sample(stmts, cap // len(hs))
    n = 0
    for name, pre in hs:
        for st in picked:
            n += 1
            scenarios.append({"id": n, "stable": bool(n % 2), "hist": name,
                              "steps": pre + [Q.stmt_to_step(st[-1]), {"op": "validate"}]})
    reports, scn_file, build_s = Q.run_scenarios(prop, "dml", scenarios)
    return Q.finish(prop, tier, t0, out, mc, reports, scn_file, len(scenarios),
                    {"DmlMatchesSqlModel"},
                    ["the key column is non-null and unique in the target (NULL keys / duplicate source keys are not generated)",
                     "values are small integers; NULL is the only special value",
                     "statements: every predicate of the Sql3VL grammar (depth <= 2 over column val) x delete / update with 3 "
                     "expressions; merge_insert over 4 sources x 12 option settings; each on an unindexed, btree- and bitmap-indexed table"],
                    {"statements_generated_by_tlc": len(stmts), "statements_replayed": len(picked), "histories": [h[0] for h in hs],
                     "exhaustive": len(picked) == len(stmts), "harness_build_s": build_s,
                     "rule": "one scenario per (TLC-generated statement, table history); distinct by construction; non-trivial = the "
                             "statement executed and was judged against Effect() of the reference semantics"})
