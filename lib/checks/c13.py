"""C13 -- compaction never changes table contents (row multiset, stable row ids, version columns)."""
from checks import table_common as T

FAMILIES = [{'name': 'rewrite', 'ids': [1, 2, 3, 4], 'vals': [5], 'maxv': 8, 'maxops': 3, 'maxops_thorough': 4, 'stable': [True, False], 'opkinds': ['compact', 'delete', 'update', 'upsert', 'colupdate', 'append', 'checkout']}]


def run(prop, tier, replay):
    return T.run(prop, tier, FAMILIES, {'OneVersionPerCommit', 'RewritePreservesContents'}, replay=replay, reread=False,
                 assumptions=['concurrency is expressed as stale read versions + commit order (commit atomicity is C01/C02)', 'scenarios keep the key column unique (lance does not enforce keys)', 'conflict_retries = 0 so a retryable conflict surfaces instead of re-executing'])
