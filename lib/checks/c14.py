"""C14 -- schema evolution preserves untouched data (SchemaEvo.tla, Trace_SchemaEvo.tla)."""
import random
import time

import vlib
from checks import query_common as Q
from checks import table_common as T

CFG = """SPECIFICATION Spec
CONSTANTS
  MaxSteps = {steps}
  ColNames = {{"x", "y"}}
VIEW view
INVARIANTS {inv}
{props}
CHECK_DEADLOCK FALSE
"""
INVS = "TypeOK FieldIdsUnique RowsMatchSchema"
PROPS = "PROPERTIES NoFieldIdReuse EvolutionPreservesOthers"  # NoFieldIdReuse: the model's own (stronger) design; not demanded of the code


def sql(e):
    if e[0] == "lit":
        return "CAST(NULL AS INT)" if e[1] == -1 else f"CAST({e[1]} AS INT)"
    if e[0] == "plus":
        return f"CAST({e[1]} + {e[2]} AS INT)"
    return e[1]


def to_scenario(hist, sid, stable):
    cols = ["id", "val"]
    steps = [{"op": "create", "h": "main", "rows": [[1, 1], [2, -1], [3, 2]], "max_rows_per_file": 2}]
    for st in hist:
        op = st["op"]
        if op == "add_column":
            steps.append({"op": "add_column", "h": "main", "name": st["name"], "expr": sql(st["setexpr"]), "setexpr": st["setexpr"]})
            cols.append(st["name"])
        elif op == "join_column":
            steps.append({"op": "join_column", "h": "main", "name": st["name"], "src": st["src"]})
            cols.append(st["name"])
        elif op == "drop_column":
            steps.append({"op": "drop_column", "h": "main", "name": st["name"]})
            cols.remove(st["name"])
        elif op == "rename_column":
            steps.append({"op": "rename_column", "h": "main", "name": st["name"], "to": st["to"]})
            cols[cols.index(st["name"])] = st["to"]
        elif op == "append":
            steps.append({"op": "append", "h": "main", "cols": list(cols), "rows": [[st["key"]] + [st["fill"]] * (len(cols) - 1)]})
        elif op == "delete":
            steps.append({"op": "delete", "h": "main", "pred": ["in", "id", [st["key"]]]})
        elif op == "compact":
            steps.append({"op": "compact", "h": "main"})
    steps.append({"op": "validate"})
    return {"id": sid, "stable": stable, "steps": steps}


def run(prop, tier, replay):
    if replay:
        return Q.replay(prop, replay, {"EvolutionPreservesOthers", "AddedValuesExact", "DroppedDataNeverResurfaces", "FieldIdsUnique", "RowsMatchSchema", "LatestUnreadable", "FailedHasNoEffect"}, trace_module="Trace_SchemaEvo")
    t0 = time.time()
    out = vlib.Outcome(prop)
    rnd = random.Random(vlib.seed())
    steps = 3 if tier == "quick" else 4
    mc = vlib.tlc_mc(f"{prop}-mc", "SchemaEvo", CFG.format(steps=steps, inv=INVS, props=PROPS), workers=8, timeout=3000)
    if mc["violated"]:
        out.report({"spec": "SchemaEvo", "invariant": mc["violated"]}, f"design violates {mc['violated']}", {})
    hists, _ = vlib.tlc_gen(f"{prop}-gen", "SchemaEvo", CFG.format(steps=steps, inv="GenPrint", props=""), tag="SCN", workers=4, timeout=3000)
    hists = [h for h in hists if any(s["op"] in ("add_column", "join_column", "drop_column", "rename_column") for s in h)]
    total = len(hists)
    # histories that drop a column and re-add the same name must be present
    readd = [h for h in hists if any(a["op"] == "drop_column" and any(b["op"] in ("add_column", "join_column") and b["name"] == a["name"] for b in h[i + 1:])
                                     for i, a in enumerate(h))]
    picked = T.sample(hists, 900 if tier == "quick" else 9000, rnd)
    for h in readd[:100]:
        if h not in picked:
            picked.append(h)
    scenarios = [to_scenario(h, i + 1, bool(i % 2)) for i, h in enumerate(picked)]
    reports, scn_file, build_s = Q.run_scenarios(prop, "schema", scenarios, trace_module="Trace_SchemaEvo")
    return Q.finish(prop, tier, t0, out, mc, reports, scn_file, len(scenarios),
                    {"EvolutionPreservesOthers", "AddedValuesExact", "DroppedDataNeverResurfaces", "FieldIdsUnique",
                     "RowsMatchSchema", "LatestUnreadable", "FailedHasNoEffect"},
                    ["columns are nullable int32; added columns come from SQL expressions (literal, NULL, col + 1, copy of a column) or "
                     "from a key join on id (Dataset::merge; NULL where the join finds no match); batch / UDF variants of "
                     "add_columns, casts and nullability changes are not covered",
                     "flat schemas only"],
                    {"histories_generated_by_tlc": total, "histories_replayed": len(scenarios), "drop_then_readd_histories": len(readd),
                     "exhaustive": total == len(scenarios), "harness_build_s": build_s,
                     "rule": "one scenario per TLC-generated history containing a schema operation; drop-then-re-add of one name is forced in"})
