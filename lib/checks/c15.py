"""C15 -- random access (take by offsets, take_rows by stable row ids and by addresses) agrees with scanning."""
from checks import table_common as T

FAMILIES = [dict(name="take", ids=[1, 2, 3, 4], vals=[5], maxv=8, maxops=3, maxops_thorough=4, stable=[True, False],
                 opkinds=["append", "delete", "update", "upsert", "compact", "restore", "checkout"])]


def run(prop, tier, replay):
    return T.run(prop, tier, FAMILIES, {"TakeEqualsScan", "TakeRowsEqualsScan"}, replay=replay, tail_steps=[{"op": "take_probe"}],
                 assumptions=["after every history the driver derives the key lists from the observed table: every position, row id and "
                              "address once, all in reverse order, duplicates, and one offset past the end (must be refused)",
                              "projection is the key column; blob columns and take_scan are not covered"])
