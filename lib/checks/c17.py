"""C17 -- created-at / last-updated version columns equal the model's ground truth."""
from checks import table_common as T

FAMILIES = [{'name': 'lineage', 'ids': [1, 2, 3, 4], 'vals': [5], 'maxv': 8, 'maxops': 3, 'maxops_thorough': 4, 'stable': [True], 'opkinds': ['append', 'update', 'upsert', 'colupdate', 'delete', 'compact', 'restore', 'checkout']}]


def run(prop, tier, replay):
    return T.run(prop, tier, FAMILIES, {'VersionColumnsCorrect'}, replay=replay, reread=False,
                 assumptions=['concurrency is expressed as stale read versions + commit order (commit atomicity is C01/C02)', 'scenarios keep the key column unique (lance does not enforce keys)', 'conflict_retries = 0 so a retryable conflict surfaces instead of re-executing'])
