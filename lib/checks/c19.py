"""C16 / C19 -- scanner results equal the reference query for every knob assignment (C16) and with exact
scalar indices in every index state (C19).  Shared implementation; the property id selects the histories,
knob variants and invariants."""
import random
import time

import vlib
from checks import query_common as Q


def has_not(p):
    if p[0] == "not":
        return True
    if p[0] in ("and", "or"):
        return has_not(p[1]) or has_not(p[2])
    return p[0] == "cmp" and p[2] == "<>"


def is_range_pair(p):
    lo, hi = (">", ">="), ("<", "<=")
    if p[0] != "and" or p[1][0] != "cmp" or p[2][0] != "cmp":
        return False
    a, b = p[1][2], p[2][2]
    return (a in lo and b in hi) or (a in hi and b in lo)


def preds_from_tlc(prop):
    vals, _ = vlib.tlc_gen(f"{prop}-preds", "TableQuery", Q.TQ_CFG.format(steps=0, inv="PredList", props=""), tag="PREDS",
                           workers=1, timeout=900)
    if not vals:
        raise vlib.ToolError("TLC printed no predicate list")
    return vals[0]


def run(prop, tier, replay):
    if replay:
        return Q.replay(prop, replay, {"ScanEqualsEval", "CountEqualsEval"} if prop == "C16" else {"IndexedScanEqualsEval", "IndexedCountEqualsEval"}, trace_module="Trace_LanceTable")
    t0 = time.time()
    out = vlib.Outcome(prop)
    mc = vlib.tlc_mc(f"{prop}-tq", "TableQuery", Q.TQ_CFG.format(steps=1, inv=Q.LAWS, props=Q.LAW_PROPS), workers=8, timeout=3000)
    if mc["violated"]:
        out.report({"spec": "TableQuery", "invariant": mc["violated"]}, f"reference semantics violates {mc['violated']}", {})
    preds = preds_from_tlc(prop)
    rnd = random.Random(vlib.seed())
    if prop == "C16":
        hs = [h for h in Q.histories("query") if h[0].startswith("plain-") or h[0].startswith("append-after-btree")
              or h[0].startswith("delete-after-bitmap")]
        knobs = Q.KNOBS
        own = {"ScanEqualsEval", "CountEqualsEval"}
    else:
        hs = [h for h in Q.histories("query") if not h[0].endswith("None")]
        knobs = [{"name": "base"}, {"use_scalar_index": False}, {"batch_size": 1}, {"materialization": "late"}]
        own = {"IndexedScanEqualsEval", "IndexedCountEqualsEval"}
    if tier == "quick":
        # every conjunction of a lower with an upper bound (the planner fuses them into one range search, in
        # eight operator pairings), the rest sampled
        # ... and every atom (comparison with every literal incl. the bounds of the value domain, IN, BETWEEN, IS NULL)
        pairs = [p for p in preds if is_range_pair(p) or p[0] not in ("and", "or", "not")]
        rest = [p for p in preds if p not in pairs]
        preds_used = pairs + rnd.sample(rest, min(len(rest), max(60, 130 - len(pairs))))
        rnd.shuffle(preds_used)
    else:
        preds_used = preds
    scenarios = []
    n = 0
    for name, pre in hs:
        # several scenarios per history so that the work shards well
        for chunk in range(0, len(preds_used), 30):
            n += 1
            steps = list(pre)
            for p in preds_used[chunk:chunk + 30]:
                steps.append({"op": "query", "pred": p, "variants": knobs})
            # ordering / limit / offset on a few predicates (without negation: with an index the known
            # negation-over-NULL defect would otherwise surface in a different guise for every ORDER BY / LIMIT shape)
            for p in [q for q in preds_used[chunk:chunk + 30] if not has_not(q)][:3]:
                for order in ({"col": "val", "asc": True, "nulls_first": True}, {"col": "val", "asc": False, "nulls_first": False}):
                    steps.append({"op": "query", "pred": p, "order": order, "limit": 2, "offset": 1, "variants": knobs[:2]})
                steps.append({"op": "query", "pred": p, "limit": 2, "offset": 1, "variants": knobs[:3]})
            scenarios.append({"id": n, "stable": bool(n % 2), "hist": name, "steps": steps})
    reports, scn_file, build_s = Q.run_scenarios(prop, "query", scenarios)
    nq = sum(1 for s in scenarios for st in s["steps"] if st["op"] == "query")
    return Q.finish(prop, tier, t0, out, mc, reports, scn_file, len(scenarios), own,
                    ["values are small integers and NULL in an int32 column (floats, strings, temporal types are not in the model's "
                     "value domain)", "predicates: the Sql3VL grammar of depth <= 2 over column val",
                     "ORDER BY ties may be returned in any order; LIMIT without ORDER BY may return any qualifying rows"],
                    {"predicates_generated_by_tlc": len(preds), "predicates_used": len(preds_used), "queries": nq,
                     "knob_variants": knobs, "histories": [h[0] for h in hs], "exhaustive": len(preds_used) == len(preds),
                     "harness_build_s": build_s,
                     "rule": "one query event per (history, predicate[, order/limit]) with all knob variants recorded in it; "
                             "every variant's rows and count_rows are judged against Sql3VL!Eval on the observed table"})
