"""C20 -- inexact scalar indices (zone map, bloom filter, n-gram) never drop a matching row.

spec/Pruning.tla (laws ZoneMapSound / BloomSound / NgramSound over all zones of <= MaxZone cells and all accepted
predicates; state machine append / delete / index / optimize / query with IndexedScanEqualsFullScan),
spec/Trace_Pruning.tla (IndexedScanEqualsEval, SearchSuperset), harness vh_pruning."""
import concurrent.futures as cf
import random
import time

import vlib
from checks import pruning_common as P

OWN = {"IndexedScanEqualsEval", "SearchSuperset"}
MACHINE = ["N_Append", "N_Delete", "N_Build", "N_Optimize", "N_Query"]
NGM = ["N_NgAdd", "N_NgBuild", "N_NgQuery"]


def run(prop, tier, replay):
    if replay:
        return P.replay(prop, replay, OWN)
    t0 = time.time()
    out = vlib.Outcome(prop)
    rnd = random.Random(vlib.seed())
    quick = tier == "quick"
    # 1. the design: laws and state machines; the as-built deviations must violate -----------------------------
    small_alpha = '{"a", "U"}'
    inv = "TypeOK LawsC20 IndexedScanEqualsFullScan"
    runs = [
        ("laws-int", dict(kind="int", k=3, mz=3, inv=inv), None, []),
        ("laws-float", dict(kind="float", k=6, mz=2 if quick else 3, inv=inv), None, []),
        ("laws-text", dict(kind="text", mstr=3 if quick else 4, inv=inv), None, []),
        ("machine-zonemap", dict(mode="zone", itype="zonemap", k=0, mz=1, rz=2, mf=2, mr=3 if quick else 5, inv=inv), None, MACHINE),
        ("machine-bloom", dict(mode="zone", itype="bloom", k=0, mz=1, rz=2, mf=2, mr=3 if quick else 4, inv=inv), None, MACHINE),
        ("machine-ngram", dict(mode="ngram", kind="text", alpha=small_alpha, mstr=3, mr=2 if quick else 3, inv=inv), None, NGM),
    ] + ([] if quick else [
        ("machine-zonemap-k1", dict(mode="zone", itype="zonemap", k=1, mz=1, rz=2, mf=2, mr=4, inv=inv), None, MACHINE),
        ("machine-bloom-k1", dict(mode="zone", itype="bloom", k=1, mz=1, rz=2, mf=2, mr=3, inv=inv), None, MACHINE),
    ]) + [
        ("asbuilt-zone-addresses", dict(mode="zone", itype="zonemap", k=0, mz=1, rz=2, mf=2, mr=3, inv=inv,
                                        dev='{"ZoneRangeFromCounts", "FragmentGapNotDetected"}'), "IndexedScanEqualsFullScan", []),
        ("asbuilt-ngram", dict(kind="text", mstr=3, inv=inv, dev='{"NgramNoTrigramIsEmpty", "AtLeastReadsOnlyGuaranteed"}'), "LawsC20", []),
    ]
    # (the model runs go on in the background while the scenarios are generated, executed and validated)
    pool = cf.ThreadPoolExecutor(max_workers=4)
    mc = pool.submit(P.model_check, prop, runs)
    # 2. predicates and strings from TLC; universes and histories ------------------------------------------------
    g3 = pool.submit(P.printed, prop, "lists3", ["ATOMS", "PREDS"], kind="int", k=3)
    g6 = pool.submit(P.printed, prop, "lists6", ["ATOMS"], kind="float", k=6)
    gs = pool.submit(P.printed, prop, "strs", ["STRS"], kind="text", mstr=3)
    atoms3, preds3 = g3.result()["ATOMS"], g3.result()["PREDS"]
    atoms6 = g6.result()["ATOMS"]
    strs = gs.result()["STRS"]
    a6 = atoms6 if not quick else rnd.sample(atoms6, 70)
    hp3 = atoms3 + rnd.sample([p for p in preds3 if p not in atoms3], 24 if quick else 120)
    hp6 = a6 if quick else atoms6
    c3 = [-1, 0, 1, 2, 3]
    c6 = [-1, 0, 1, 2, 3, 4, 5, 6]
    g = {("int", 3): [], ("int", 6): [], ("float", 6): [], ("text", 0): []}
    for itype in ("zonemap", "bloomfilter"):
        for r in (1, 2, 3):
            g[("int", 3)].append(P.index_universe("int32", c3, r, itype, atoms3, rnd))
        g[("int", 3)] += P.history_scenarios("int32", c3, itype, hp3, rnd)
        for r in ((1, 2) if quick else (1, 2, 3)):
            g[("int", 6)].append(P.index_universe("utf8", c6, r, itype, a6, rnd, limit=None if r < 3 else 128))
    g[("int", 3)].append(P.index_universe("int64", c3, 2, "zonemap", atoms3, rnd, offset=-2))
    for r in (1, 2, 3):
        g[("float", 6)].append(P.index_universe("float32", c6, r, "zonemap", a6, rnd, limit=None if (r < 3 or not quick) else 64))
    g[("float", 6)].append(P.index_universe("float32", c6, 2, "bloomfilter", a6, rnd))
    g[("float", 6)].append(P.index_universe("float64", c6, 2, "zonemap", a6, rnd))
    g[("float", 6)] += P.history_scenarios("float32", c6, "zonemap", hp6, rnd)
    if not quick:
        g[("float", 6)] += P.history_scenarios("float64", c6, "bloomfilter", hp6, rnd)
        g[("int", 6)] += P.history_scenarios("utf8", c6, "zonemap", hp6, rnd)
    strings = strs + [["F", "a", "b"], ["a", "F", "b"], ["a", "b", "a", "b"], ["U", "a", "b", "a"], ["NULL"]]
    queries = strs + [["F", "a"], ["a", "F", "b"], ["a", "e", "b"], ["a", "b", "a", "b"], ["b", "a", "b", "a"], ["a", "b", "U", "a"]]
    g[("text", 0)] += P.ngram_scenarios(strings, queries, rnd, tier)
    # 3. run on the implementation, 4. validate ---------------------------------------------------------------------
    results, build_s = P.run_groups(prop, g)
    mc_info, states, trans, problems = mc.result()
    for name, text in problems:
        out.report({"spec": "Pruning", "run": name}, text, {})
    counts, events, samples, bad_scn, nscn, timing = P.judge(prop, out, results, OWN)
    for key in ("queries", "indexed", "searches", "atmost", "pruned", "zagree", "nontrivial"):
        if counts.get(key, 0) == 0:
            raise vlib.ToolError(f"vacuous run: no {key} events")
    sigs = counts.pop("findings_by_signature", {})
    rc = out.finish()
    vlib.write_evidence(prop, tier, "model_checking", {
        "states": states, "transitions": trans, "traces_validated_against_impl": nscn - len(bad_scn),
        "samples": samples, "evaluations": counts.get("variants", 0) + counts.get("searches", 0),
        "distinct_nontrivial": counts.get("nontrivial", 0),
        "rule": "one q event per (table, predicate): scan with and without the inexact index and the direct ScalarIndex::search answer, "
                "each judged against Sql3VL!Eval / HasSub on the observed table; non-trivial = the predicate selects some but not all rows; "
                "universe tables hold every zone of 1..3 cells over the model values (one real zone each), history tables are seeded",
        "exhaustive": False,
        "exhaustive_parts": "int32 zone universes (all 155 zones of <= 3 cells over {NULL,0..3} x all 70 accepted atoms) and the n-gram "
                            "universe (all strings of <= 3 characters as rows and as queries) are complete; float / utf8 size-3 zones and "
                            "predicate lists are sampled in the quick tier",
        "model_runs": mc_info, "event_counts": counts, "events_validated": events, "scenarios": nscn,
        "scenarios_with_findings": len(bad_scn), "findings_by_signature": sigs, "invariants_of_this_property": sorted(OWN),
        "zone_answers_equal_to_transcription": counts.get("zagree", 0), "zone_answers_different": counts.get("zdiffer", 0),
        "harness_build_s": build_s, "timing": timing,
    }, time.time() - t0, len(out.violations), [
        "cells are small model values carried into int32/int64/utf8/float32/float64 columns by an order-preserving embedding; float order = IEEE "
        "total order (-inf < -1.5 < -0 < +0 < 1.5 < +inf < NaN), calibrated on every run by the unpruned scan (a mismatch is a tool error)",
        "bloom filter: only 'inserted => maybe contains' is a property; the false positive rate is not",
        "n-gram alphabet: a, b, B (case folding), one multibyte character (U+65E5), a few strings with U+00E9 (ASCII folding)",
        "xxhash, roaring and tantivy's tokenizers are trusted"])
    return rc
