"""C21 -- index result combination and row-set masks (spec/IndexAlgebra*.tla)."""
import concurrent.futures as cf
import json
import os
import time

import vlib

MC_MASK = """SPECIFICATION Spec
CONSTANTS
  NF = {nf}
  NR = {nr}
  Deviations = {{}}
  MaxDepth = {depth}
  Mode = "mask"
INVARIANTS TypeOK MaskIsSet
CHECK_DEADLOCK FALSE
"""
MC_EXPR = """SPECIFICATION Spec
CONSTANTS
  NF = {nf}
  NR = {nr}
  Deviations = {{}}
  MaxDepth = {depth}
  Mode = "expr"
INVARIANTS TypeOK GuaranteeKept
CHECK_DEADLOCK FALSE
"""
TRACE_CFG = """SPECIFICATION TraceSpec
CONSTANTS
  NF = {nf}
  NR = {nr}
  Deviations = {{}}
  Dense = {dense}
INVARIANT Report
POSTCONDITION TraceAccepted
CHECK_DEADLOCK FALSE
"""


def n_trees(T, max_leaves):
    by = [0] * (max_leaves + 1)
    for n in range(1, max_leaves + 1):
        plain = 3 * T if n == 1 else 0
        for k in range(1, n):
            plain += 2 * by[k] * by[n - k]
        by[n] = 2 * plain
    return sum(by)


def expected_counts(T, NMask, NU, sections, leaves, a_rng=None, dense=True, per=1):
    e = {}
    if "tm1" in sections:
        for op in ("tm_contains", "tm_len", "tm_is_empty", "tm_iter", "tm_ser"):
            e[op] = T
        e["tm_insert"] = e["tm_remove"] = T * NU
        if dense:  # all pairs of universe points (cross-fragment ones sampled), open lower ends in fragment 0
            e["tm_range"] = T * (NU * NU * 3 + per * 2)
        else:  # only ranges inside one fragment
            e["tm_range"] = T * ((NU // per) * per * per * 3 + per * 2)
    if "tm2" in sections:
        e["tm_or"] = 3 * T * T
        e["tm_and"] = e["tm_sub"] = T * T
        e["tm_mask"] = T * NMask
    if "m1" in sections:
        for op in ("m_sel", "m_not", "m_norm", "m_max_len", "m_iter", "m_arrow"):
            e[op] = NMask
        e["m_selidx"] = NMask - 1
        e["m_also_allow"] = e["m_also_block"] = NMask * T
    if "m2" in sections:
        na = NMask if a_rng is None else a_rng[1] - a_rng[0]
        e["m_and"] = e["m_or"] = na * NMask
    if "ev" in sections:
        e["ev"] = n_trees(T, leaves)
    return e


def run(prop, tier, replay):
    t0 = time.time()
    out = vlib.Outcome(prop)
    assumptions = [
        "membership is probed on the finite universe (NF+1 fragments) x (NR+1 offsets); a Full marker is "
        "distinguished from a bitmap holding all explicit offsets by the extra 'rest' offset",
        "index expression trees are read-once (independent leaves), as ScalarIndexExpr trees are",
        "roaring bitmap internals are trusted",
    ]
    # 1. model-check the design ---------------------------------------------------------------
    if tier == "quick":
        mcs = [("mask", MC_MASK.format(nf=2, nr=1, depth=2)), ("expr", MC_EXPR.format(nf=1, nr=2, depth=3))]
        runs = [dict(nf=nf, nr=nr, embed=e, section=sec, leaves=2)
                for (nf, nr) in ((2, 1), (1, 2)) for e in ("dense", "wide")
                for sec in ("tm1", "tm2", "m1", "m2", "ev")]
    else:
        mcs = [("mask", MC_MASK.format(nf=2, nr=1, depth=3)), ("mask2", MC_MASK.format(nf=1, nr=2, depth=4)),
               ("expr", MC_EXPR.format(nf=1, nr=2, depth=4)), ("expr2", MC_EXPR.format(nf=2, nr=1, depth=3))]
        # (expression trees over 3 leaves on the 2-fragment universe produce 2.6M events per embedding, whose validation
        #  alone takes more than an hour; that universe keeps 2 leaves, the 2-row universe below has 3)
        runs = [dict(nf=2, nr=1, embed=e, section=sec, leaves=2 if sec == "ev" else 3) for e in ("dense", "wide")
                for sec in ("tm1", "tm2", "m1", "m2", "ev")]
        runs += [dict(nf=1, nr=2, embed=e, section=sec, leaves=3) for e in ("dense", "wide")
                 for sec in ("tm1", "tm2", "m1", "m2", "ev")]
        # (the universe with 2 fragments x 2 rows, 37 x 37 row sets per operand pair, does not finish within hours on
        #  this machine -- the costly RoaringBitmap::full() cases dominate -- and is not part of the registered tier)
    states = trans = 0
    mc_info = []
    for name, cfg in mcs:
        r = vlib.tlc_mc(f"{prop}-{name}", "IndexAlgebra", cfg, workers=8, timeout=3000)
        if r["violated"]:
            out.report({"spec": "IndexAlgebra", "invariant": r["violated"]},
                       f"the design-level model violates {r['violated']} (see {r['out']})", {"cfg": cfg})
        zero = [a for a, n in r["coverage"].items() if n == 0 and
                ((name.startswith("mask") and a.startswith("Step")) or (name.startswith("expr") and a[0] == "E"))]
        if zero:
            raise vlib.ToolError(f"vacuous model run: actions never taken {zero}")
        states += r.get("distinct", 0)
        trans += r.get("generated", 0)
        mc_info.append({"cfg": name, "distinct": r.get("distinct"), "generated": r.get("generated"),
                        "depth": r.get("depth"), "wall_s": r["wall_s"]})
    # 2. rebuild the harness from /repo's working tree ------------------------------------------
    binary, build_s = vlib.harness_build("vh_idxalg")
    # 3. drive the implementation, 4. validate ---------------------------------------------------
    wd = vlib.workdir(f"{prop}-traces")

    def one(i_run):
        i, r = i_run
        tf = os.path.join(wd, f"t{i}.ndjson")
        args = ["--nf", r["nf"], "--nr", r["nr"], "--embed", r["embed"], "--section", r["section"],
                "--leaves", r["leaves"], "--out", tf, "--seed", vlib.seed(),
                "--costly-budget", 2 if tier == "quick" else 6]
        if "a_lo" in r:
            args += ["--a-lo", r["a_lo"], "--a-hi", r["a_hi"]]
        vlib.harness_run(binary, args)
        cfg = TRACE_CFG.format(nf=r["nf"], nr=r["nr"], dense="TRUE" if r["embed"] == "dense" else "FALSE")
        v = vlib.tlc_trace(f"{prop}-{i}", "Trace_IndexAlgebra", cfg, tf, timeout=3000, xmx="6g")
        return i, r, tf, v

    results = []
    with cf.ThreadPoolExecutor(max_workers=8) as ex:
        for res in ex.map(one, list(enumerate(runs))):
            results.append(res)
    events = accepted = 0
    skipped_total = {}
    exhaustive_sections = set()
    samples = []
    distinct_ops = set()
    exhaustive = True
    for i, r, tf, v in results:
        if not v["reports"]:
            raise vlib.ToolError(f"no REPORT from trace validation {i}: {v['out']}")
        rep = v["reports"][-1]
        if not v["accepted"]:
            raise vlib.ToolError(f"trace {i} not fully consumed: {v['out']}")
        secs = ("tm1", "tm2", "m1", "m2", "ev") if r["section"] == "all" else (r["section"],)
        exp = expected_counts(rep["T"], rep["NMask"], rep["NU"], secs, r["leaves"],
                              (r["a_lo"], r["a_hi"]) if "a_lo" in r else None,
                              dense=r["embed"] == "dense", per=r["nr"] + 1)
        exp["univ"] = 1
        exhaustive_sections.add((r["nf"], r["nr"], r["embed"], r["section"]))
        got = {k: n for k, n in rep["counts"].items() if n}
        skipped = rep.get("skipped", {})
        for k, n in skipped.items():
            got[k] = got.get(k, 0) + (3 * n if k == "tm_range" else n)
            skipped_total[k] = skipped_total.get(k, 0) + n
        if got != exp:
            exhaustive = False
            out.report({"kind": "incomplete-trace"}, f"event counts differ from the universe size: got {got} expected {exp}",
                       {"run": r})
        events += rep["events"]
        accepted += rep["events"] - len(rep["bad"])
        distinct_ops.update(got.keys())
        lines = None
        for b in rep["bad"]:
            pos, op, cls = b[0], b[1], b[2]
            if lines is None:
                lines = open(tf).read().splitlines()
            ev = json.loads(lines[pos - 1])
            out.report({"op": op, "class": cls},
                       f"{op} {cls}: recorded result is not the set-semantics result (universe {r}) event={ev}",
                       {"run": r, "event": ev})
        if len(samples) < 6:
            with open(tf) as f:
                ls = f.read().splitlines()
            samples.append({"run": r, "events": [json.loads(x) for x in (ls[0], ls[len(ls) // 3], ls[-1])]})
    rc = out.finish()
    vlib.write_evidence(prop, tier, "model_checking", {
        "states": states, "transitions": trans, "traces_validated_against_impl": accepted,
        "samples": samples, "evaluations": events, "distinct_nontrivial": accepted,
        "rule": "every operator call over the complete universe of tree maps / masks / expression trees for the "
                "stated (NF, NR); each event has distinct arguments by construction (counts are checked against the "
                "universe size computed from the spec constants); non-trivial = judged by Trace_IndexAlgebra.OK",
        "exhaustive": exhaustive and not skipped_total, "model_runs": mc_info, "universes": runs[:8],
        "operators_exercised": sorted(distinct_ops), "harness_build_s": build_s,
        "costly_cases_skipped": skipped_total,
        "costly_cases_note": "operator applications that materialise RoaringBitmap::full() (512 MiB, ~1 s each) are "
                             "sampled by a seeded hash (about 8 per operator and universe) instead of enumerated; "
                             "all other cases are enumerated completely",
    }, time.time() - t0, len(out.violations), assumptions)
    return rc
