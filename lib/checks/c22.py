"""C22 -- vector search exactness (partial claim): spec/VectorQueryOps.tla, VectorQuery.tla, Trace_VectorQuery.tla,
harness/src/bin/vh_vector.rs.

1. TLC model-checks the laws of the answer relation (VectorQuery.tla) on every reachable small table and query.
2. TLC generates table histories, the query universe, the execution variants and the vector pools.
3. The driver replays histories + sampled queries (every sampled execution variant) on real lance datasets.
4. TLC judges every recorded answer with VectorQueryOps!Judge (Trace_VectorQuery.tla).
"""
import concurrent.futures as cf
import json
import os
import random
import re
import shutil
import time

import vlib

CFG = """SPECIFICATION Spec
CONSTANTS
  MaxKeys = {maxkeys}
  MaxSteps = {steps}
  PoolId = {pool}
  Metric = "{metric}"
  NParts = {{1, 2, 3}}
  WithQueries = {wq}
  SmallMC = {small}
VIEW view
INVARIANTS {inv}
CHECK_DEADLOCK FALSE
"""
LAWS = "TypeOK Satisfiable TieFree VisibleOnly CountLaw Discriminates AppendedSearched"
TRACE_CFG = """SPECIFICATION TraceSpec
INVARIANT Report
POSTCONDITION TraceAccepted
CHECK_DEADLOCK FALSE
"""
POOLS = [(1, "l2"), (2, "dot"), (3, "cosine"), (4, "l2"), (1, "dot"), (2, "l2"), (3, "l2"), (4, "dot")]
CENTROIDS = [[-1, -1], [1, 1], [2, -2]]
NEGATION_FREE = lambda f: f[0] not in ("not",) and not (f[0] == "cmp" and f[2] == "<>")  # noqa: E731
OWN = {"ReturnedDeleted", "ReturnedUnknownRow", "ReturnedFilteredOut", "ReturnedUnindexedUnderFastSearch", "DuplicateRow",
       "MoreThanK", "DistanceWrong", "NotSorted", "WrongCount", "NotNearest", "PostFilterBeyondTopK", "PostFilterLostRow",
       "QueryFailed", "TableUnreadable", "TableDiverged", "StepFailed", "PurgedRowsStayInIndex"}
REQUIRED = ["flat", "ivf", "ivf-refine", "ivf-partial", "prefilter", "postfilter", "fast", "with_deleted", "with_unindexed",
            "k_exceeds_eligible", "ties_at_boundary", "index", "optimize", "compact", "delete", "append", "nonempty"]


def _pinned():
    """Regression scenarios kept from earlier runs (appended to the TLC-generated ones): default probing
    (minimum_nprobes = 1, no maximum) on a table with stable row ids, a deletion file and rows appended after
    indexing takes the 'fewer matches than k' shortcut of ANNIvfSubIndexExec::late_search."""
    v = lambda **kw: dict({"use_index": True, "probes": "min1", "refine": 0, "prefilter": True, "fast": False}, **kw)  # noqa: E731
    vs = [v(), v(fast=True), v(probes="all"), v(probes="all", fast=True), v(refine=1), v(prefilter=False), v(prefilter=False, fast=True),
          v(probes="all", prefilter=False)]
    out = []
    for i, stable in enumerate((True, False)):
        steps = [{"op": "create", "rows": [[1, 2, -2, 0], [2, 0, 0, 1], [3, -2, 2, 1]], "max_rows_per_file": 3},
                 {"op": "delete", "keys": [2, 3]},
                 {"op": "index", "nparts": 2, "centroids": [[-1, -1], [2, -2]]},
                 {"op": "append", "rows": [[4, 1, 1, -1], [5, 1, 1, 2]], "max_rows_per_file": 3}]
        for k in (1, 3, 9):
            steps.append({"op": "query", "q": [-1, 0], "k": k, "filter": ["true"], "hf": False, "variants": [x for x in vs if x["prefilter"]]})
            steps.append({"op": "query", "q": [-1, 0], "k": k, "filter": ["isnull", "val"], "hf": True, "variants": vs})
        out.append({"id": 9001 + i, "stable": stable, "metric": "l2", "scalar": False, "steps": steps})
    # delete + compaction after indexing: with stable row ids the index keeps entries of physically removed rows
    w = lambda **kw: dict({"use_index": True, "probes": "all", "refine": 0, "prefilter": True, "fast": False}, **kw)  # noqa: E731
    ws = [w(), w(fast=True), w(refine=1), w(use_index=False), w(probes="min1")]
    for i, stable in enumerate((True, False)):
        steps = [{"op": "create", "rows": [[1, 2, -2, 0], [2, 0, 0, 1], [3, -2, 2, 1], [4, 1, 1, -1], [5, 1, 1, 2]], "max_rows_per_file": 1 << 20},
                 {"op": "index", "nparts": 2, "centroids": [[-1, -1], [2, -2]]},
                 {"op": "delete", "keys": [4, 5]}, {"op": "compact"}]
        for k in (2, 9):
            steps.append({"op": "query", "q": [1, 1], "k": k, "filter": ["true"], "hf": False, "variants": ws})
        steps.append({"op": "query", "q": [1, 1], "k": 2, "filter": ["cmp", "id", "<=", 4], "hf": True, "variants": ws + [w(prefilter=False)]})
        out.append({"id": 9003 + i, "stable": stable, "metric": "l2", "scalar": False, "steps": steps})
    return out


def printed(out, tag):
    """Values printed by PrintT(<<tag, ToJson(x)>>), also when TLC wraps the tuple over several lines."""
    vals = []
    for m in re.finditer(r'<<\s*"%s",\s*"((?:[^"\\]|\\.)*)"\s*>>' % tag, out):
        vals.append(json.loads(json.loads('"' + m.group(1) + '"')))
    return vals


def _gen(name, pool, metric, steps, inv, timeout=1500):
    """One generation run; returns {tag: [values]} for every tag printed."""
    cfg = CFG.format(maxkeys=8, steps=steps, pool=pool, metric=metric, wq="FALSE", small="TRUE", inv=inv)
    vals, stats = vlib.tlc_gen(name, "VectorQuery", cfg, tag="SCN", workers=4, timeout=timeout)
    out = open(os.path.join(vlib.WORK, "gen-" + name, "out.txt")).read()
    res = {"stats": stats}
    for tag in ("SCN", "QRY", "POOL", "VAR"):
        res[tag] = printed(out, tag)
    return res


def build_scenario(sid, hist, pool_rows, metric, queries, variants, rnd, nq, nvar):
    """TLC history + sampled queries -> driver scenario."""
    stable = rnd.random() < 0.5
    mrpf = rnd.choice([2, 3, 1 << 20])
    scalar = rnd.random() < 0.25
    qs = [q for q in queries if not scalar or not q["hasFilter"] or NEGATION_FREE(q["filter"])]
    steps = []
    has_index = False

    small = [q for q in qs if q["k"] <= 3]

    def add_queries():
        for _ in range(nq):
            # tables hold 3..8 rows: favour k below the table size so that top-k selection (and ties) matter
            q = rnd.choice(small if rnd.random() < 0.6 else qs)
            vs = variants["indexed"] if has_index else variants["flat"]
            vs = [v for v in vs if q["hasFilter"] or v["prefilter"]]
            partial = [v for v in vs if v["probes"] in ("min1", "one")]
            vs = rnd.sample(vs, min(nvar, len(vs)))
            if partial and not any(v in partial for v in vs):
                vs[-1] = rnd.choice(partial)
            steps.append({"op": "query", "q": q["q"], "k": q["k"], "filter": q["filter"], "hf": q["hasFilter"], "variants": vs})

    for st in hist:
        op = st["op"]
        if op in ("create", "append"):
            steps.append({"op": op, "rows": [pool_rows[k - 1] for k in st["keys"]], "max_rows_per_file": mrpf})
            if op == "create" and scalar:
                steps.append({"op": "scalar_index"})
        elif op == "delete":
            steps.append({"op": "delete", "keys": st["keys"]})
        elif op == "index":
            n = st["nparts"]
            s = {"op": "index", "nparts": n}
            if n > 1 or rnd.random() < 0.5:
                s["centroids"] = rnd.sample(CENTROIDS, n)
            steps.append(s)
            has_index = True
        elif op == "optimize":
            steps.append({"op": "optimize", "mode": rnd.choice(["append", "merge", "default"])})
        elif op == "compact":
            steps.append({"op": "compact"})
        else:
            raise vlib.ToolError("unknown history step " + op)
        add_queries()
    return {"id": sid, "stable": stable, "metric": metric, "scalar": scalar, "steps": steps}


def run_traces(prop, scenarios, shards, mutate=None, timeout=3000):
    binary, build_s = vlib.harness_build("vh_vector")
    wd = vlib.workdir(f"{prop}-traces")
    scn_file = os.path.join(wd, "scenarios.ndjson")
    with open(scn_file, "w") as f:
        for s in scenarios:
            f.write(json.dumps(s) + "\n")
    scratch = f"/dev/shm/lance-verif-{prop}-{os.getpid()}"

    def one(k):
        tf = os.path.join(wd, f"trace{k}.ndjson")
        args = ["--scenarios", scn_file, "--out", tf, "--scratch", f"{scratch}-{k}", "--shard", k, "--shards", shards]
        if mutate:
            args += ["--mutate", mutate]
        t0 = time.time()
        vlib.harness_run(binary, args, timeout=timeout)
        hs = time.time() - t0
        shutil.rmtree(f"{scratch}-{k}", ignore_errors=True)
        v = vlib.tlc_trace(f"{prop}-{k}", "Trace_VectorQuery", TRACE_CFG, tf, timeout=timeout, xmx="4g")
        if not v["reports"] or not v["accepted"]:
            raise vlib.ToolError(f"trace validation did not complete: {v['out']}")
        return tf, v["reports"][-1], hs, v["wall_s"]

    with cf.ThreadPoolExecutor(max_workers=shards) as ex:
        return list(ex.map(one, range(shards))), scn_file, build_s


def run(prop, tier, replay):
    t0 = time.time()
    out = vlib.Outcome(prop)
    rnd = random.Random(vlib.seed())
    quick = tier == "quick"
    mutate = os.environ.get("VERIF_MUTATE") or None
    assumptions = [
        "vectors are points of the integer grid {-2..2}^2 stored as float32, 2 dimensions, <= 8 rows (duplicates and the zero "
        "vector included): L2 (squared) and dot (1 - <a,q>) distances are exactly representable and compared exactly",
        "cosine is only exercised with non-zero vectors and compared with tolerance 1e-6 (model distance in units of 1e-7 from a "
        "table of floor(sqrt(P)*1e7))",
        "exact modes = flat search (no index / use_index(false)) and IVF_FLAT with nprobes >= number of partitions, with and without "
        "refine; minimum_nprobes(1) / nprobes(1) on an index with several partitions are judged for visibility, distinctness "
        "and |result| <= k only",
        "the query metric equals the index metric; fast_search is only combined with use_index on a table that has an index",
        "NOT decided: float16/float64 vectors, SIMD tails, high dimensions, approximate modes (PQ/SQ/HNSW recall), multivectors, "
        "distance_range, NULL vectors",
        "pre-filters under a btree scalar index are restricted to negation-free predicates (negation over NULL with a scalar index "
        "is the known C12/C19 finding)",
    ]
    # 1. model-check the laws (runs in the background while the scenarios are generated and replayed) ----
    mcs = []
    mc_pool = cf.ThreadPoolExecutor(max_workers=3)
    mc_futs = []
    if replay is None:
        # (pool, metric, history steps, keys, reduced query universe)
        plan = [(1, "l2", 2, 5, True), (3, "cosine", 1, 5, True), (2, "dot", 1, 5, True)] if quick else \
               [(1, "l2", 3, 6, True), (2, "dot", 2, 6, False), (3, "cosine", 2, 6, False), (4, "l2", 2, 7, False)]

        def mc(p):
            pool, metric, steps, maxkeys, small = p
            cfg = CFG.format(maxkeys=maxkeys, steps=steps, pool=pool, metric=metric, wq="TRUE", small="TRUE" if small else "FALSE", inv=LAWS)
            return p, vlib.tlc_mc(f"{prop}-mc-{pool}-{metric}", "VectorQuery", cfg, workers=4, timeout=1500 if quick else 3000, xmx="4g")

        mc_futs = [mc_pool.submit(mc, p) for p in plan]

    def collect_mc():
        for f in mc_futs:
            p, r = f.result()
            if r["violated"]:
                out.report({"spec": "VectorQuery", "invariant": r["violated"]},
                           f"the answer relation violates law {r['violated']} (see {r['out']})", {"cfg": p})
            zero = [a for a in ("N_Append", "N_Delete", "N_Index", "N_Optimize", "N_Compact", "N_Query")
                    if r["coverage"].get(a, 0) == 0 and not (a == "N_Optimize" and p[2] < 2)]
            if zero:
                raise vlib.ToolError(f"vacuous model run {p}: actions never taken {zero}")
            mcs.append({"pool": p[0], "metric": p[1], "steps": p[2], "max_keys": p[3], "reduced_query_universe": p[4], "distinct": r.get("distinct"),
                        "generated": r.get("generated"), "depth": r.get("depth"), "wall_s": r["wall_s"]})
    # 2. scenarios ---------------------------------------------------------------------------------
    gen_info = {}
    if replay is not None:
        payload = json.load(open(replay))
        scenarios = [payload["case"]["scenario"]]
    else:
        steps = 3 if quick else 4
        gen = _gen(f"{prop}-gen", 1, "l2", steps, "GenPrint QryPrint PoolPrint VarPrint")
        hists = sorted(gen["SCN"], key=json.dumps)
        variants = {k: sorted(v, key=lambda x: json.dumps(x, sort_keys=True)) for k, v in gen["VAR"][0].items()}
        pools = {i + 1: p for i, p in enumerate(gen["POOL"][0])}
        qsets = {m: sorted(q, key=lambda x: json.dumps(x, sort_keys=True)) for m, q in gen["QRY"][0].items()}
        if not hists or not variants["indexed"] or any(len(q) < 100 for q in qsets.values()):
            raise vlib.ToolError("scenario generation produced nothing")
        useful = [h for h in hists if any(s["op"] == "index" for s in h)]
        plain = [h for h in hists if not any(s["op"] == "index" for s in h)]
        nscn = (108 if quick else 800)

        def after_index(h, op):
            i = next((j for j, s in enumerate(h) if s["op"] == "index"), None)
            return i is not None and any(s["op"] == op for s in h[i + 1:])

        # strata: every kind of step after the index was built must be well represented
        picked = []
        for op in ("optimize", "compact", "append", "delete"):
            stratum = [h for h in useful if after_index(h, op) and h not in picked]
            picked += rnd.sample(stratum, min(len(stratum), nscn // 6))
        def purge(h):
            i = next((j for j, s in enumerate(h) if s["op"] == "index"), None)
            if i is None:
                return False
            d = next((j for j in range(i + 1, len(h)) if h[j]["op"] == "delete"), None)
            return d is not None and any(s["op"] == "compact" for s in h[d + 1:])

        stratum = [h for h in useful if purge(h) and h not in picked]
        picked += rnd.sample(stratum, min(len(stratum), nscn // 9))
        both = [h for h in useful if after_index(h, "append") and h[-1]["op"] == "optimize" and h not in picked]
        picked += rnd.sample(both, min(len(both), nscn // 12))
        rest = [h for h in useful if h not in picked]
        picked += rnd.sample(rest, max(0, min(len(rest), nscn * 5 // 6 - len(picked))))
        picked += rnd.sample(plain, min(len(plain), nscn // 6))
        rnd.shuffle(picked)
        scenarios = []
        for i, h in enumerate(picked):
            pool, metric = POOLS[(i + vlib.seed()) % len(POOLS)]
            scenarios.append(build_scenario(i + 1, h, pools[pool], metric, qsets[metric], variants, rnd,
                                            nq=2 if quick else 3, nvar=6 if quick else 10))
        scenarios += _pinned()
        gen_info = {"histories_generated_by_tlc": len(hists), "histories_with_index": len(useful), "histories_replayed": len(picked),
                    "query_universe": {m: len(q) for m, q in qsets.items()}, "variants": {k: len(v) for k, v in variants.items()},
                    "history_steps": steps, "gen_stats": gen["stats"]}
    # 3. drive + 4. validate --------------------------------------------------------------------------
    reports, scn_file, build_s = run_traces(prop, scenarios, shards=4 if quick else 8, mutate=mutate)
    collect_mc()
    by_id = {s["id"]: s for s in scenarios}
    counts = {}
    events = 0
    bad_scn = set()
    samples = []
    distinct = set()
    observations = {}
    for tf, rep, hs, vs in reports:
        events += rep["events"]
        for k, v in rep["counts"].items():
            counts[k] = counts.get(k, 0) + v
        lines = open(tf).read().splitlines()
        for b in rep["bad"]:
            pos, scn, i, j, clause, mode = b
            if clause not in OWN:
                raise vlib.ToolError(f"unknown clause {clause}")
            bad_scn.add(scn)
            ev = json.loads(lines[pos - 1])
            result = ev["extra"]["results"][j - 1] if j >= 1 else None
            if clause == "PurgedRowsStayInIndex":   # one defect, many modes: a mode-independent signature
                sig = {"invariant": "ExactAnswer", "deviation": "PurgedRowsStayInIndex"}
            else:
                sig = {"invariant": clause, "mode": mode[0], "filter": mode[1], "search": mode[2]}
            out.report(sig, f"{clause} in mode {mode}: scenario {scn} step {i} {json.dumps(ev['step'])[:200]} -> "
                            f"{json.dumps(result)[:300] if result else ev['res'] + ' ' + ev.get('text', '')[:200]} table={json.dumps(ev['tbl'])[:300]}",
                       {"scenario": by_id.get(scn), "step": i, "variant": j, "clause": clause, "mode": mode, "event": ev})
        for b in rep.get("info", []):
            pos, scn, i, j, clause, mode = b
            ev = json.loads(lines[pos - 1])
            key = (clause, tuple(mode))
            if key not in observations:
                observations[key] = {"clause": clause, "mode": mode, "count": 0, "scenario": by_id.get(scn), "step": i,
                                     "query": {k: v for k, v in ev["step"].items() if k != "variants"},
                                     "result": ev["extra"]["results"][j - 1], "table": ev["tbl"]}
            observations[key]["count"] += 1
        for ln in lines:
            ev = json.loads(ln)
            if ev.get("ev") == "step" and ev["step"]["op"] == "query" and "rows" in ev["tbl"]:
                tkey = json.dumps([r[:4] + r[5:] for r in ev["tbl"]["rows"]])
                for r in ev["extra"].get("results", []):
                    if r["res"] == "ok" and r["rows"]:
                        distinct.add((tkey, json.dumps([ev["step"]["q"], ev["step"]["k"], ev["step"]["filter"], ev["step"]["hf"], r["variant"]],
                                                       sort_keys=True)))
        if len(samples) < 3:
            qs = [json.loads(x) for x in lines if '"op":"query"' in x]
            qs = [e for e in qs if any(len(r["rows"]) >= 2 for r in e["extra"]["results"])]
            if qs:
                e = qs[len(qs) // 2]
                samples.append({"scenario": e["scn"], "step": e["step"], "table_rows": e["tbl"].get("rows"),
                                "results": [{"variant": r["variant"], "res": r["res"], "rows": r["rows"]} for r in e["extra"]["results"][:3]]})
    if replay is None and not mutate:
        missing = [c for c in REQUIRED if counts.get(c, 0) == 0]
        if missing or counts.get("judged", 0) < 200:
            raise vlib.ToolError(f"vacuous run: nothing exercised for {missing} (judged={counts.get('judged', 0)})")
    for o in observations.values():
        print(f"INFO property={prop} not judged (mode does not claim exactness): {o['clause']} in mode {o['mode']} x{o['count']}, "
              f"e.g. scenario {o['scenario']['id'] if o['scenario'] else '?'} step {o['step']}: {json.dumps(o['result'])[:200]}")
    rc = out.finish()
    vlib.write_evidence(prop, tier, "model_checking", {
        "states": sum(m["distinct"] or 0 for m in mcs), "transitions": sum(m["generated"] or 0 for m in mcs),
        "traces_validated_against_impl": len(scenarios) - len(bad_scn), "samples": samples,
        "evaluations": counts.get("judged", 0), "distinct_nontrivial": len(distinct),
        "rule": "evaluations = answers (one per query and execution variant) judged by VectorQueryOps!Judge; distinct_nontrivial = "
                "distinct (table contents + index coverage, query point, k, filter, execution variant) combinations whose answer was non-empty",
        "exhaustive": False, "model_runs": mcs, "event_counts": counts, "events_validated": events,
        "scenarios": len(scenarios), "harness_build_s": build_s,
        "observations_not_judged": [{k: v for k, v in o.items() if k != "scenario"} for o in observations.values()],
        "harness_s": [round(r[2], 1) for r in reports], "validation_s": [r[3] for r in reports], **gen_info,
    }, time.time() - t0, len(out.violations), assumptions)
    return rc
