"""C23 -- full-text search matches the tokenised documents (partial claim): spec/TextQueryOps.tla, TextQuery.tla,
Trace_TextQuery.tla, harness/src/bin/vh_text.rs.

1. TLC model-checks laws of the matching semantics (TextQuery.tla) on every reachable small table and query.
2. TLC generates table histories, the query universe and the document pools.
3. The driver replays histories + sampled queries on real lance datasets (inverted index: whitespace tokenizer,
   lower-casing, no stemming / stop words / ascii folding, with positions).
4. TLC judges every recorded answer with TextQueryOps!Judge (Trace_TextQuery.tla).
"""
import concurrent.futures as cf
import json
import os
import random
import shutil
import time

import vlib
from checks.c22 import printed

CFG = """SPECIFICATION Spec
CONSTANTS
  MaxKeys = {maxkeys}
  MaxSteps = {steps}
  PoolId = {pool}
  WithQueries = {wq}
VIEW view
INVARIANTS {inv}
CHECK_DEADLOCK FALSE
"""
LAWS = "TypeOK Satisfiable VisibleOnly Hierarchy BoolLaw Discriminates"
TRACE_CFG = """SPECIFICATION TraceSpec
INVARIANT Report
POSTCONDITION TraceAccepted
CHECK_DEADLOCK FALSE
"""
OWN = {"MatchSetExact", "Distinct", "ScoreOrdered", "LimitSubset", "LimitCount", "QueryFailed", "TableUnreadable",
       "TableDiverged", "StepFailed"}
# classes of matching-set errors that describe one named deviation of the as-built code (see TextQueryOps.tla)
DEVIATION = {
    ("and-ignored-absent-term", "indexed"): "AndDropsAbsentTerm",
    ("must-not-and-ignored-absent-term", "indexed"): "AndDropsAbsentTerm",
    ("and-matched-on-some-terms", "unindexed"): "FlatAndIsOr",
    ("must-not-and-matched-on-some-terms", "unindexed"): "FlatAndIsOr",
    ("phrase-missed", "unindexed"): "PhraseSkipsUnindexed",
    ("must-not-phrase-missed", "unindexed"): "PhraseSkipsUnindexed",
    ("missed-beside-repeated-term", "unindexed"): "FlatDropsNonPositiveScores",
    ("must-not-missed-beside-repeated-term", "unindexed"): "FlatDropsNonPositiveScores",
    ("missed-beside-empty-documents", "unindexed"): "FlatDropsNonPositiveScores",
    ("purged-row-in-index", ""): "PurgedRowsStayInIndex",
}
REQUIRED = ["match-or", "match-and", "phrase", "bool", "limit", "upper", "with_deleted", "with_unindexed", "unindexed_match",
            "index", "optimize", "compact", "delete", "append", "nonempty", "multi_fragment"]


def _pinned():
    """Regression scenarios kept from earlier runs (appended to the TLC-generated ones), one per deviation."""
    v0 = [{"limit": 0, "upper": False}]
    m = lambda ts, op: ["match", ts, op]  # noqa: E731
    rows = [[1, [1, 2]], [2, [2, 1]], [3, [1, 1, 2]]]
    out = []
    # AndDropsAbsentTerm: no indexed document contains word 4
    out.append({"id": 9001, "stable": False, "steps": [
        {"op": "create", "rows": rows, "max_rows_per_file": 1 << 20}, {"op": "index", "with_position": True},
        {"op": "query", "q": m([1, 4], "and"), "variants": v0},
        {"op": "query", "q": ["bool", [], [m([1], "or")], [m([1, 4], "and")]], "variants": v0}]})
    # FlatAndIsOr, PhraseSkipsUnindexed, FlatScorerCountsOccurrences: rows appended after indexing
    out.append({"id": 9002, "stable": False, "steps": [
        {"op": "create", "rows": rows, "max_rows_per_file": 1 << 20}, {"op": "index", "with_position": True},
        {"op": "append", "rows": [[4, [3, 1]], [5, [1, 2, 3]], [6, [2, 2, 2, 1]]], "max_rows_per_file": 1 << 20},
        {"op": "query", "q": m([1, 2], "and"), "variants": v0},
        {"op": "query", "q": ["phrase", [1, 2]], "variants": v0},
        {"op": "query", "q": m([2], "or"), "variants": v0},
        {"op": "query", "q": ["bool", [m([1], "or")], [], [["phrase", [1, 2]]]], "variants": v0},
        {"op": "optimize", "mode": "merge"},
        {"op": "query", "q": m([1, 2], "and"), "variants": v0},
        {"op": "query", "q": ["phrase", [1, 2]], "variants": v0},
        {"op": "query", "q": m([2], "or"), "variants": v0}]})
    # rows appended after indexing must be found: no empty documents and no repeated tokens anywhere, so none of the
    # deviations above applies and a miss here is a new violation
    out.append({"id": 9005, "stable": False, "steps": [
        {"op": "create", "rows": [[1, [1, 2]], [2, [2, 3]], [3, [3]]], "max_rows_per_file": 1 << 20}, {"op": "index", "with_position": True},
        {"op": "append", "rows": [[4, [1, 3]], [5, [2]]], "max_rows_per_file": 1 << 20},
        {"op": "query", "q": m([1], "or"), "variants": v0}, {"op": "query", "q": m([2, 3], "or"), "variants": v0},
        {"op": "query", "q": m([1, 3], "and"), "variants": v0},
        {"op": "query", "q": ["bool", [], [m([1], "or"), m([2], "or")], [m([3], "or")]], "variants": v0},
        {"op": "delete", "keys": [4]},
        {"op": "query", "q": m([1], "or"), "variants": v0}, {"op": "query", "q": m([2], "or"), "variants": v0}]})
    # PurgedRowsStayInIndex: stable row ids, delete + compaction after indexing
    for i, stable in enumerate((True, False)):
        out.append({"id": 9003 + i, "stable": stable, "steps": [
            {"op": "create", "rows": rows + [[4, [2]], [5, [1, 3, 2]]], "max_rows_per_file": 1 << 20},
            {"op": "index", "with_position": True}, {"op": "delete", "keys": [4, 5]}, {"op": "compact"},
            {"op": "query", "q": m([2], "or"), "variants": v0 + [{"limit": 2, "upper": False}]},
            {"op": "query", "q": m([3], "or"), "variants": v0},
            {"op": "query", "q": ["phrase", [1, 2]], "variants": v0}]})
    return out


def _gen(name, pool, steps, inv, timeout=1500):
    cfg = CFG.format(maxkeys=8, steps=steps, pool=pool, wq="FALSE", inv=inv)
    _, stats = vlib.tlc_gen(name, "TextQuery", cfg, tag="SCN", workers=4, timeout=timeout)
    out = open(os.path.join(vlib.WORK, "gen-" + name, "out.txt")).read()
    res = {"stats": stats}
    for tag in ("SCN", "QRY", "POOL"):
        res[tag] = printed(out, tag)
    return res


def kind(q):
    return ("match-" + q[2]) if q[0] == "match" else q[0]


def build_scenario(sid, hist, pool_rows, by_kind, rnd, nq):
    stable = rnd.random() < 0.5
    mrpf = rnd.choice([2, 3, 1 << 20])
    with_position = rnd.random() < 0.9
    steps = []
    has_index = False

    def add_queries():
        if not has_index:
            return
        for i in range(nq):
            k = ["match-or", "match-and", "phrase", "bool"][(sid + i + len(steps)) % 4]
            q = rnd.choice(by_kind[k])
            vs = [{"limit": 0, "upper": False}]
            if rnd.random() < 0.5:
                vs.append({"limit": 0, "upper": True})
            if rnd.random() < 0.5:
                vs.append({"limit": rnd.choice([1, 2, 3]), "upper": False})
            steps.append({"op": "query", "q": q, "variants": vs})

    for st in hist:
        op = st["op"]
        if op in ("create", "append"):
            steps.append({"op": op, "rows": [pool_rows[k - 1] for k in st["keys"]], "max_rows_per_file": mrpf})
        elif op == "delete":
            steps.append({"op": "delete", "keys": st["keys"]})
        elif op == "index":
            steps.append({"op": "index", "with_position": with_position})
            has_index = True
        elif op == "optimize":
            steps.append({"op": "optimize", "mode": rnd.choice(["append", "merge", "default"])})
        elif op == "compact":
            steps.append({"op": "compact"})
        else:
            raise vlib.ToolError("unknown history step " + op)
        add_queries()
    return {"id": sid, "stable": stable, "steps": steps}


def run_traces(prop, scenarios, shards, mutate=None, timeout=3000):
    binary, build_s = vlib.harness_build("vh_text")
    wd = vlib.workdir(f"{prop}-traces")
    scn_file = os.path.join(wd, "scenarios.ndjson")
    with open(scn_file, "w") as f:
        for s in scenarios:
            f.write(json.dumps(s) + "\n")
    scratch = f"/dev/shm/lance-verif-{prop}-{os.getpid()}"

    def one(k):
        tf = os.path.join(wd, f"trace{k}.ndjson")
        args = ["--scenarios", scn_file, "--out", tf, "--scratch", f"{scratch}-{k}", "--shard", k, "--shards", shards]
        if mutate:
            args += ["--mutate", mutate]
        t0 = time.time()
        vlib.harness_run(binary, args, timeout=timeout)
        hs = time.time() - t0
        shutil.rmtree(f"{scratch}-{k}", ignore_errors=True)
        v = vlib.tlc_trace(f"{prop}-{k}", "Trace_TextQuery", TRACE_CFG, tf, timeout=timeout, xmx="4g")
        if not v["reports"] or not v["accepted"]:
            raise vlib.ToolError(f"trace validation did not complete: {v['out']}")
        return tf, v["reports"][-1], hs, v["wall_s"]

    with cf.ThreadPoolExecutor(max_workers=shards) as ex:
        return list(ex.map(one, range(shards))), scn_file, build_s


def run(prop, tier, replay):
    t0 = time.time()
    out = vlib.Outcome(prop)
    rnd = random.Random(vlib.seed())
    quick = tier == "quick"
    mutate = os.environ.get("VERIF_MUTATE") or None
    assumptions = [
        "documents are sequences of <= 4 tokens over the words ant/bee/cat plus the non-ASCII word 'ñandú', the empty string, a "
        "white-space-only string and NULL; the driver renders them with varying letter case and white space",
        "tokenizer configuration under test: base 'whitespace', lower_case, no stemming, no stop-word removal, no ascii folding, "
        "no token length limit, with positions (a phrase query on an index built without positions may decline with an error)",
        "queries: MatchQuery (operator And / Or, 1..3 terms), PhraseQuery (1..3 tokens, slop 0), BooleanQuery (must / should / "
        "must_not of <= 3 single-term, phrase or AND leaves); fuzziness, boost, slop > 0, multi-match and prefilters are not covered",
        "a scanner limit L is judged as: result is a subset of the matching rows of size min(L, matching), ordered by "
        "non-increasing score (that they are the L best is not judged)",
        "NOT decided: that score VALUES equal BM25 (real arithmetic is outside TLC); only that results arrive in "
        "non-increasing order of the reported score",
    ]
    mcs = []
    mc_pool = cf.ThreadPoolExecutor(max_workers=3)
    mc_futs = []
    if replay is None:
        plan = [(1, 2, 5), (2, 1, 5), (3, 1, 5)] if quick else [(1, 3, 6), (2, 3, 6), (3, 2, 7)]

        def mc(p):
            pool, steps, maxkeys = p
            cfg = CFG.format(maxkeys=maxkeys, steps=steps, pool=pool, wq="TRUE", inv=LAWS)
            return p, vlib.tlc_mc(f"{prop}-mc-{pool}", "TextQuery", cfg, workers=4, timeout=1500 if quick else 3000, xmx="4g")

        mc_futs = [mc_pool.submit(mc, p) for p in plan]

    def collect_mc():
        for f in mc_futs:
            p, r = f.result()
            if r["violated"]:
                out.report({"spec": "TextQuery", "invariant": r["violated"]},
                           f"the matching semantics violates law {r['violated']} (see {r['out']})", {"cfg": p})
            zero = [a for a in ("N_Append", "N_Delete", "N_Index", "N_Optimize", "N_Compact", "N_Query")
                    if r["coverage"].get(a, 0) == 0 and not (a == "N_Optimize" and p[1] < 2)]
            if zero:
                raise vlib.ToolError(f"vacuous model run {p}: actions never taken {zero}")
            mcs.append({"pool": p[0], "steps": p[1], "max_keys": p[2], "distinct": r.get("distinct"),
                        "generated": r.get("generated"), "depth": r.get("depth"), "wall_s": r["wall_s"]})
    gen_info = {}
    if replay is not None:
        payload = json.load(open(replay))
        scenarios = [payload["case"]["scenario"]]
    else:
        steps = 3 if quick else 4
        gen = _gen(f"{prop}-gen", 1, steps, "GenPrint QryPrint PoolPrint")
        hists = sorted(gen["SCN"], key=json.dumps)
        queries = sorted(gen["QRY"][0], key=json.dumps)
        pools = {i + 1: p for i, p in enumerate(gen["POOL"][0])}
        by_kind = {}
        for q in queries:
            by_kind.setdefault(kind(q), []).append(q)
        if not hists or len(queries) < 100 or set(by_kind) != {"match-or", "match-and", "phrase", "bool"}:
            raise vlib.ToolError("scenario generation produced nothing")
        useful = [h for h in hists if any(s["op"] == "index" for s in h)]
        nscn = 120 if quick else 1000

        def after_index(h, op):
            i = next((j for j, s in enumerate(h) if s["op"] == "index"), None)
            return i is not None and any(s["op"] == op for s in h[i + 1:])

        # strata: every kind of step after the index was built must be well represented
        picked = []
        for op in ("optimize", "compact", "append", "delete"):
            stratum = [h for h in useful if after_index(h, op) and h not in picked]
            picked += rnd.sample(stratum, min(len(stratum), nscn // 5))
        both = [h for h in useful if after_index(h, "append") and h[-1]["op"] == "optimize" and h not in picked]
        picked += rnd.sample(both, min(len(both), nscn // 10))
        rest = [h for h in useful if h not in picked]
        picked += rnd.sample(rest, max(0, min(len(rest), nscn - len(picked))))
        rnd.shuffle(picked)
        scenarios = [build_scenario(i + 1, h, pools[1 + (i + vlib.seed()) % 3], by_kind, rnd, nq=4 if quick else 6)
                     for i, h in enumerate(picked)]
        scenarios += _pinned()
        gen_info = {"histories_generated_by_tlc": len(hists), "histories_with_index": len(useful),
                    "histories_replayed": len(picked), "query_universe": {k: len(v) for k, v in by_kind.items()},
                    "history_steps": steps, "gen_stats": gen["stats"]}
    reports, scn_file, build_s = run_traces(prop, scenarios, shards=4 if quick else 8, mutate=mutate)
    collect_mc()
    by_id = {s["id"]: s for s in scenarios}
    counts = {}
    events = 0
    bad_scn = set()
    samples = []
    distinct = set()
    for tf, rep, hs, vs in reports:
        events += rep["events"]
        for k, v in rep["counts"].items():
            counts[k] = counts.get(k, 0) + v
        lines = open(tf).read().splitlines()
        for b in rep["bad"]:
            pos, scn, i, j, clause, cls = b
            if clause not in OWN:
                raise vlib.ToolError(f"unknown clause {clause}")
            bad_scn.add(scn)
            ev = json.loads(lines[pos - 1])
            result = ev["extra"]["results"][j - 1] if j >= 1 else None
            if tuple(cls) in DEVIATION:
                sig = {"invariant": "MatchSetExact", "deviation": DEVIATION[tuple(cls)]}
            else:
                sig = {"invariant": clause, "class": cls[0]}
                if cls[1]:
                    sig["where"] = cls[1]
            out.report(sig, f"{clause} {cls}: scenario {scn} step {i} {json.dumps(ev['step'], ensure_ascii=False)[:200]} -> "
                            f"{json.dumps(result)[:300] if result else ev['res'] + ' ' + ev.get('text', '')[:200]} table={json.dumps(ev['tbl'])[:200]}",
                       {"scenario": by_id.get(scn), "step": i, "variant": j, "clause": clause, "class": cls, "event": ev})
        for ln in lines:
            ev = json.loads(ln)
            if ev.get("ev") == "step" and ev["step"]["op"] == "query" and "rows" in ev["tbl"]:
                tkey = json.dumps([[r[0], r[2]] for r in ev["tbl"]["rows"]])
                for r in ev["extra"].get("results", []):
                    if r["res"] == "ok" and r["rows"]:
                        distinct.add((ev["scn"] % 3, tkey, json.dumps([ev["step"]["q"], r["variant"]], sort_keys=True)))
        if len(samples) < 3:
            qs = [json.loads(x) for x in lines if '"op":"query"' in x]
            qs = [e for e in qs if any(len(r["rows"]) >= 2 for r in e["extra"]["results"])]
            if qs:
                e = qs[len(qs) // 2]
                samples.append({"scenario": e["scn"], "step": e["step"], "table_rows": e["tbl"].get("rows"),
                                "results": [{"variant": r["variant"], "res": r["res"], "rows": r["rows"]} for r in e["extra"]["results"][:3]]})
    if replay is None and not mutate:
        missing = [c for c in REQUIRED if counts.get(c, 0) == 0]
        if missing or counts.get("judged", 0) < 200:
            raise vlib.ToolError(f"vacuous run: nothing exercised for {missing} (judged={counts.get('judged', 0)})")
    rc = out.finish()
    vlib.write_evidence(prop, tier, "model_checking", {
        "states": sum(m["distinct"] or 0 for m in mcs), "transitions": sum(m["generated"] or 0 for m in mcs),
        "traces_validated_against_impl": len(scenarios) - len(bad_scn), "samples": samples,
        "evaluations": counts.get("judged", 0), "distinct_nontrivial": len(distinct),
        "rule": "evaluations = answers (one per query and variant) judged by TextQueryOps!Judge; distinct_nontrivial = distinct "
                "(document pool, live keys + index coverage, query, variant) combinations whose answer was non-empty",
        "exhaustive": False, "model_runs": mcs, "event_counts": counts, "events_validated": events,
        "scenarios": len(scenarios), "harness_build_s": build_s,
        "harness_s": [round(r[2], 1) for r in reports], "validation_s": [r[3] for r in reports], **gen_info,
    }, time.time() - t0, len(out.violations), assumptions)
    return rc
