"""C24 -- index coverage is never claimed for data the index did not see: index creation (also on a stale handle, i.e.
concurrent with updates, upserts, deletes, appends and compaction) followed by indexed queries for every value."""
from checks import table_common as T

FAMILIES = [dict(name="idx", ids=[1, 2, 3, 4], vals=[5], maxv=8, maxops=3, maxops_thorough=4, stable=[True, False],
                 opkinds=["index", "colupdate", "update", "upsert", "delete", "append", "compact", "checkout"])]
Q = lambda p: {"op": "query", "pred": p, "variants": [{"name": "base"}, {"use_scalar_index": False}]}
TAIL = [Q(["cmp", "val", "=", 5]), Q(["cmp", "val", "=", 1]), Q(["cmp", "val", "=", 2]), Q(["isnull", "val"]),
        Q(["cmp", "val", "<", 5]), Q(["cmp", "val", ">=", 2]), Q(["in", "val", [1, 5]]), Q(["between", "val", 2, 5]),
        {"op": "optimize_indices", "h": "main"}, Q(["cmp", "val", "=", 5]), Q(["isnull", "val"]), Q(["cmp", "val", "<=", 2])]


def run(prop, tier, replay):
    return T.run(prop, tier, FAMILIES, {"IndexedScanEqualsEval", "IndexedCountEqualsEval"}, replay=replay, tail_steps=TAIL, quick_cap=1000,
                 assumptions=["btree index on the nullable int column; predicates without negation (the negation-over-NULL defect is "
                              "a known finding of C19/C12)", "in-place column rewrites (partial-schema merge_insert) and DataReplacement are not generated",
                              "the design model checks IndexCoverageSound (fragment bitmap vs snapshot of indexed values) with the "
                              "CreateIndex/Rewrite conflict rules transcribed"])
