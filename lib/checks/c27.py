"""C27 -- repetition / definition levels encode nesting losslessly (spec/RepDef*.tla).

Pipeline
  1. TLC model-checks RepDef.tla (intended design, Deviations = {}) on several sub-universes in parallel
     and prints every filled column once (<<"SCN", json>>): the scenario universe comes from the spec.
     Two more runs use TLC's simulator for pairs of larger batches.
  2. harness/src/bin/vh_repdef.rs feeds every scenario to the real RepDefBuilder / control words /
     RepDefSlicer / (Composite)RepDefUnraveler ("api" events) and writes single-batch scenarios as
     Lance 2.1 files that are read back by row range / row list ("file" events, plain and tiled).
  3. Trace_RepDef.tla judges every event (TLC, several processes in parallel).
"""
import concurrent.futures as cf
import json
import os
import time

import vlib

MC = """SPECIFICATION Spec
CONSTANTS
  Dim = 2
  Deviations = {{}}
  Depths = {depths}
  Tops = {{"L","S","F","I"}}
  MaxF = 2
  MaxRows = {rows}
  MaxLen = 2
  MaxGarbage = {garbage}
  MaxTotal = {total}
  Validity = "{validity}"
  ZeroLenBitmaps = {zero}
  Mode = "{mode}"
  PrintScn = TRUE
INVARIANTS TypeOK NoDebugAssert LevelsMatchScheme ConcatIsConcat RowTranslation RoundTrip NoLostNulls TileIsRepeat Scenario
CHECK_DEADLOCK FALSE
"""
TRACE_CFG = """SPECIFICATION TraceSpec
CONSTANTS
  Dim = 2
INVARIANT Report
POSTCONDITION TraceAccepted
CHECK_DEADLOCK FALSE
"""

# name, cfg parameters, simulate ("num=N" or None)
QUICK = [
    ("single-d012", dict(depths="{0,1,2}", rows=4, total=5, garbage=1, validity="any", zero="TRUE", mode="single"), None),
    ("single-d3", dict(depths="{3}", rows=4, total=4, garbage=1, validity="any", zero="FALSE", mode="single"), None),
    ("pair-allvalid", dict(depths="{2}", rows=2, total=9, garbage=0, validity="none", zero="FALSE", mode="pair"), None),
    ("pair-small", dict(depths="{1,2}", rows=1, total=5, garbage=0, validity="any", zero="FALSE", mode="pair"), None),
    ("pair-sim", dict(depths="{1,2,3}", rows=3, total=12, garbage=1, validity="any", zero="FALSE", mode="pair"), "num=1500"),
    # explicit columns RepDefOps!DirectedCols (rows of 5..7 items): also written tiled to files of several
    # mini-block chunks and read back systematically (scan, long range, strided takes, short ranges)
    ("directed", dict(depths="{0}", rows=1, total=1, garbage=1, validity="any", zero="FALSE", mode="directed"), None),
]
THOROUGH = [
    ("single-d012", dict(depths="{0,1,2}", rows=6, total=6, garbage=1, validity="any", zero="TRUE", mode="single"), None),
    ("single-d3", dict(depths="{3}", rows=6, total=5, garbage=1, validity="any", zero="FALSE", mode="single"), None),
    ("pair-allvalid", dict(depths="{2,3}", rows=2, total=9, garbage=0, validity="none", zero="FALSE", mode="pair"), None),
    ("pair-small", dict(depths="{1,2}", rows=1, total=6, garbage=0, validity="any", zero="FALSE", mode="pair"), None),
    # (the simulator computes all successors of a Fill state before it picks one: keep the slot budget moderate)
    ("pair-sim", dict(depths="{1,2,3}", rows=3, total=12, garbage=1, validity="any", zero="FALSE", mode="pair"), "num=5000"),
    ("single-sim", dict(depths="{1,2,3}", rows=5, total=10, garbage=1, validity="any", zero="TRUE", mode="single"), "num=4000"),
    # explicit columns RepDefOps!DirectedCols (rows of 5..7 items): also written tiled to files of several
    # mini-block chunks and read back systematically (scan, long range, strided takes, short ranges)
    ("directed", dict(depths="{0}", rows=1, total=1, garbage=1, validity="any", zero="FALSE", mode="directed"), None),
]


def _scenarios(out_path):
    with open(out_path, errors="replace") as f:
        return vlib._printed(f.read(), "SCN")


def _chunks(lines, n):
    k = max(1, (len(lines) + n - 1) // n)
    return [lines[i:i + k] for i in range(0, len(lines), k)]


def run(prop, tier, replay):
    t0 = time.time()
    out = vlib.Outcome(prop)
    assumptions = [
        "a nested column is modelled layer by layer (validity bits + list lengths); leaf values are abstracted to their "
        "slot number; everything below a null is unobservable (Arrow semantics), so round trips are compared on the "
        "logical tree",
        "builder inputs follow the contract of add_offsets and what the structural encoders do (a list slot under a null "
        "struct has no children: StructArrayExt::pushdown_nulls + filter_garbage_nulls)",
        "structural fixed-size lists (add_fsl / unravel_fsl_validity) are only exercised without list layers: "
        "RepDefUnraveler::decimate is todo!() when repetition levels exist and no encoder calls add_fsl",
        "zero-row pages are not generated",
        "TLC and the Arrow crates are trusted",
    ]
    plan = QUICK if tier == "quick" else THOROUGH
    workers = 3 if tier == "quick" else 4

    # 1. model-check the design + generate the universe -------------------------------------------------------
    def mc(item):
        name, par, sim = item
        cfg = MC.format(**par)
        if sim:
            r = vlib.tlc_mc(f"{prop}-{name}", "RepDef", cfg, workers=workers, timeout=3000, simulate=sim, xmx="4g",
                            coverage=False)
        else:
            # -coverage makes these enumeration-heavy runs ~5x slower; vacuity is excluded below from the
            # depth of the state graph instead (a full path pick/fill*/start/ser*/unr*/done was walked)
            r = vlib.tlc_mc(f"{prop}-{name}", "RepDef", cfg, workers=workers, timeout=6000, xmx="6g", coverage=False)
        return name, par, sim, cfg, r

    with cf.ThreadPoolExecutor(max_workers=len(plan)) as ex:
        mcs = list(ex.map(mc, plan))
    states = trans = 0
    mc_info = []
    scenarios = []          # (run name, scenario json with id)
    seen = set()
    for name, par, sim, cfg, r in mcs:
        if r["violated"]:
            out.report({"spec": "RepDef", "invariant": r["violated"]},
                       f"the design-level model violates {r['violated']} in run {name} (see {r['out']})", {"cfg": cfg})
            continue
        if not sim:
            nmax = max(int(d) for d in par["depths"].strip("{}").split(",")) + 1   # layers incl. the leaf
            full_path = 3 * nmax + 5 if par["mode"] == "single" else 4 * nmax + 6
            if par["mode"] == "directed":
                full_path = 11    # init, pick, start, serialize x 4, unravel x 4 (three layers)
            if r.get("depth") != full_path:
                raise vlib.ToolError(f"vacuous model run {name}: state graph depth {r.get('depth')} != {full_path} "
                                     f"(pick, fill x layers, start, serialize x layers+1, unravel x layers+1)")
            states += r.get("distinct", 0)
            trans += r.get("generated", 0)
        scns = _scenarios(r["out"])
        fresh = 0
        for s in scns:
            key = json.dumps(s, sort_keys=True)
            if key in seen:
                continue
            seen.add(key)
            s["id"] = len(scenarios)
            scenarios.append((name, s))
            fresh += 1
        if fresh == 0:
            raise vlib.ToolError(f"model run {name} produced no scenario")
        mc_info.append({"run": name, "simulate": sim, "params": par, "distinct": r.get("distinct"),
                        "generated": r.get("generated"), "depth": r.get("depth"), "scenarios_printed": len(scns),
                        "scenarios_new": fresh, "wall_s": r["wall_s"]})
    if not scenarios:
        rc = out.finish()
        return rc
    t_mc = time.time() - t0

    # 2. rebuild the harness and drive the implementation -----------------------------------------------------
    binary, build_s = vlib.harness_build("vh_repdef")
    wd = vlib.workdir(f"{prop}-traces")
    lines = [json.dumps(s) for _, s in scenarios]
    singles = [json.dumps(s) for _, s in scenarios if s["how"] == "one"]
    file_cap = 12000 if tier == "quick" else 60000
    file_stride = max(1, (len(singles) + file_cap - 1) // file_cap)
    file_scns = singles[vlib.seed() % file_stride::file_stride]
    tiled_every = 150 if tier == "quick" else 40
    tiled = singles[vlib.seed() % tiled_every::tiled_every]
    directed = [json.dumps(s) for name, s in scenarios if name == "directed"]
    if len(directed) < 5:
        raise vlib.ToolError(f"only {len(directed)} directed columns were generated")
    jobs = []   # (label, mode, scenario lines, extra driver arguments)
    # tiled files of several mini-block chunks / a long full-zip page, one page, systematic reads
    # (a) leaf value = slot number inside a copy: few distinct values, dictionary + mini-block chunks
    # (b) leaf values unique over the file, full-zip requested (the writer still chose mini-block chunks for
    #     these narrow values when this was measured -- both go through DecodeMiniBlockTask::map_range)
    jobs.append(("sweep-dict", "tiled", directed, ["--sweep", 1, "--fullzip", 0, "--two-batches", 0, "--tiny-pages", 0]))
    jobs.append(("sweep-unique", "tiled", directed, ["--sweep", 1, "--unique", 1, "--fullzip", 1, "--two-batches", 0,
                                                    "--tiny-pages", 0]))
    for i, ch in enumerate(_chunks(lines, 10 if tier == "quick" else 24)):
        jobs.append((f"api{i}", "api", ch, []))
    for i, ch in enumerate(_chunks(file_scns, 6 if tier == "quick" else 16)):
        jobs.append((f"file{i}", "file", ch, []))
    for i, ch in enumerate(_chunks(tiled, 3 if tier == "quick" else 8)):
        jobs.append((f"tiled{i}", "tiled", ch, []))

    def drive_and_validate(job):
        label, mode, ch, extra = job
        inp = os.path.join(wd, f"{label}.scn.ndjson")
        tf = os.path.join(wd, f"{label}.trace.ndjson")
        with open(inp, "w") as f:
            f.write("\n".join(ch) + "\n")
        t1 = time.time()
        vlib.harness_run(binary, ["--in", inp, "--out", tf, "--mode", mode, "--seed", vlib.seed()] + extra, timeout=3000)
        t2 = time.time()
        v = vlib.tlc_trace(f"{prop}-{label}", "Trace_RepDef", TRACE_CFG, tf, timeout=3000, xmx="4g")
        return label, mode, ch, tf, v, round(t2 - t1, 1), round(time.time() - t2, 1)

    with cf.ThreadPoolExecutor(max_workers=8) as ex:
        results = list(ex.map(drive_and_validate, jobs))

    # 3. collect ---------------------------------------------------------------------------------------------
    totals = {}
    classes = {}
    samples = []
    accepted = 0
    events = 0
    harness_s = validate_s = 0.0
    skipped_f = 0
    for label, mode, ch, tf, v, hs, vs in results:
        harness_s += hs
        validate_s += vs
        if not v["reports"]:
            raise vlib.ToolError(f"no REPORT from trace validation {label}: {v['out']}")
        if not v["accepted"]:
            raise vlib.ToolError(f"trace {label} not fully consumed: {v['out']}")
        rep = v["reports"][-1]
        expected = len(ch)
        if mode != "api":
            # structural fixed-size-list shapes cannot be written as files
            expected = sum(1 for x in ch if '"F"' not in x)
            skipped_f += len(ch) - expected
        if rep["events"] != expected:
            raise vlib.ToolError(f"{label}: {rep['events']} events recorded for {expected} scenarios")
        for k, n in rep["counts"].items():
            totals[k] = totals.get(k, 0) + n
        events += rep["events"]
        accepted += rep["counts"]["ok"]
        for c in rep["classes"]:
            key = (c["k"][0], c["k"][1])
            classes[key] = classes.get(key, 0) + c["n"]
        tl = None
        reported = set()
        for b in rep["bad"]:
            pos, sid, check, cls = b[0], b[1], b[2], b[3]
            if (check, cls) in reported:
                continue
            reported.add((check, cls))
            if tl is None:
                with open(tf) as f:
                    tl = f.read().splitlines()
            ev = json.loads(tl[pos - 1])
            short = {k: ev[k] for k in ev if k not in ("cw", "slice", "reads")}
            if "reads" in ev:
                picked = [r for r in ev["reads"] if r["error"] or len(r["got"]) != len(r["rows"])][:2] or ev["reads"][:2]
                short["reads"] = [{"kind": r["kind"], "error": r["error"], "rows_requested": len(r["rows"]),
                                   "rows_returned": len(r["got"]), "rows": r["rows"][:20], "got": r["got"][:20]}
                                  for r in picked]
            if check == "input":
                raise vlib.ToolError(f"{label}: malformed scenario echoed by the driver: {short}")
            out.report({"check": check, "class": cls},
                       f"{mode} event of scenario {sid}: check '{check}' failed, class '{cls}': {json.dumps(short)[:1500]}",
                       {"mode": mode, "event": short})
        if len(samples) < 6 and rep["events"]:
            with open(tf) as f:
                every = f.read().splitlines()
            first = json.loads(every[(2 * len(every)) // 3])
            first = {k: first[k] for k in first if k not in ("cw", "slice")}
            if "reads" in first:
                first["reads"] = [{**r, "rows": r["rows"][:12], "got": r["got"][:12], "rows_requested": len(r["rows"])}
                                  for r in first["reads"][:2]]
            samples.append({"job": label, "event": first})
    for need in ("api", "file", "one", "concat", "pages", "reads"):
        if totals.get(need, 0) == 0:
            raise vlib.ToolError(f"vacuous run: no '{need}' events were validated")
    rc = out.finish()
    by_run = {}
    for name, _ in scenarios:
        by_run[name] = by_run.get(name, 0) + 1
    vlib.write_evidence(prop, tier, "model_checking", {
        "states": states, "transitions": trans, "traces_validated_against_impl": accepted,
        "samples": samples, "evaluations": events, "distinct_nontrivial": totals.get("nontrivial", 0),
        "rule": "scenarios are the filled columns printed by TLC from RepDef.tla (deduplicated by value; exhaustive runs "
                "print each reachable column once, simulation runs are random samples); every scenario is one 'api' event "
                "and, for single-batch scenarios without structural fixed-size lists, one 'file' event (a sample also "
                "'tiled'); non-trivial = the column contains a null, an empty list or garbage behind a null list, counted "
                "by Trace_RepDef",
        "exhaustive": all(not m["simulate"] for m in mc_info),
        "exhaustive_note": "the runs without 'simulate' enumerate their sub-universe completely; runs with 'simulate' are "
                           "random samples of a larger universe",
        "model_runs": mc_info, "scenarios_by_run": by_run, "event_counts": totals,
        "failure_classes": [{"check": k[0], "class": k[1], "events": n} for k, n in sorted(classes.items())],
        "file_mode_skipped_fsl_shapes": skipped_f, "file_mode_scenarios": len(file_scns), "file_mode_stride": file_stride,
        "tiled_scenarios": len(tiled), "directed_tiled_files": 2 * len(directed),
        "harness_build_s": build_s, "harness_s_sum": round(harness_s, 1), "validate_s_sum": round(validate_s, 1),
        "model_check_wall_s": round(t_mc, 1),
        "not_covered": "list layers combined with structural fixed-size-list layers (decimate is todo!()); zero-row pages; "
                       "blob / dictionary / packed-struct leaf layouts; explanation of multi-page file failures is by the "
                       "single-page deviations only",
    }, time.time() - t0, len(out.violations), assumptions)
    return rc
