"""C29 -- statistics-based pruning is conservative: a page / zone skipped because of min, max, null count or NaN count
holds no row that satisfies the predicate, so pruning never changes a query result.

spec/Pruning.tla (laws PageStatsSound / PageStatsWideningSound for the legacy page statistics + interval simplification,
ZoneMapSound for zone-map zones, over all zones of <= MaxZone cells and all predicates), spec/Trace_Pruning.tla
(StatsScanEqualsEval for legacy tables scanned with use_stats(true / false), IndexedScanEqualsEval / SearchSuperset for the
zone map), harness vh_pruning."""
import concurrent.futures as cf
import random
import time

import vlib
from checks import pruning_common as P

OWN = {"StatsScanEqualsEval", "IndexedScanEqualsEval", "SearchSuperset"}
MACHINE = ["N_Append", "N_Delete", "N_Build", "N_Optimize", "N_Query"]


def run(prop, tier, replay):
    if replay:
        return P.replay(prop, replay, OWN)
    t0 = time.time()
    out = vlib.Outcome(prop)
    rnd = random.Random(vlib.seed())
    quick = tier == "quick"
    inv = "TypeOK LawsC29 IndexedScanEqualsFullScan"
    runs = [
        ("laws-int", dict(kind="int", k=3, mz=3, inv=inv), None, []),
        ("laws-str6", dict(kind="str", k=6, mz=2 if quick else 3, inv=inv), None, []),
        ("laws-float", dict(kind="float", k=6, mz=2 if quick else 3, inv=inv), None, []),
        ("machine-zonemap", dict(mode="zone", itype="zonemap", k=0, mz=1, rz=2, mf=2, mr=3 if quick else 5, inv=inv), None, MACHINE),
    ] + ([] if quick else [
        ("machine-zonemap-k1", dict(mode="zone", itype="zonemap", k=1, mz=1, rz=2, mf=2, mr=4, inv=inv), None, MACHINE),
    ]) + [
        ("asbuilt-float-nan", dict(kind="float", k=6, mz=2, dev='{"StatsIgnoreNaN"}', inv=inv), "LawsC29", []),
        ("asbuilt-constant-page", dict(kind="int", k=3, mz=2, dev='{"ConstantPageIgnoresNulls"}', inv=inv), "LawsC29", []),
    ]
    # the model runs go on in the background while the scenarios are generated, executed and validated
    pool = cf.ThreadPoolExecutor(max_workers=3)
    mc = pool.submit(P.model_check, prop, runs)
    g3 = pool.submit(P.printed, prop, "lists3", ["ATOMS", "PREDS"], kind="int", k=3)
    g6 = pool.submit(P.printed, prop, "lists6", ["ATOMS", "PREDS"], kind="float", k=6)
    atoms3, preds3 = g3.result()["ATOMS"], g3.result()["PREDS"]
    atoms6, preds6 = g6.result()["ATOMS"], g6.result()["PREDS"]
    p3 = preds3 if not quick else rnd.sample(preds3, 60)
    p6 = preds6 if not quick else rnd.sample(preds6, 60)
    a6 = atoms6 if not quick else rnd.sample(atoms6, 50)
    g = {("int", 3): [], ("int", 6): [], ("float", 6): []}
    # legacy page statistics: the legacy format stores no nulls for primitives and reads the empty string as NULL,
    # so int / float pages have no NULL cells and string pages no "" (token 0)
    i3 = [0, 1, 2, 3]
    f6 = [0, 1, 2, 3, 4, 5, 6]
    s6 = [-1, 1, 2, 3, 4, 5, 6]
    for r in (1, 2, 3):
        g[("int", 3)].append(P.legacy_universe("int32", i3, r, p3, rnd))
        g[("float", 6)].append(P.legacy_universe("float64", f6, r, p6, rnd, limit=None if (r < 3 or not quick) else 48))
        if r > 1 or not quick:
            g[("int", 6)].append(P.legacy_universe("utf8", s6, r, p6, rnd, limit=None if (r < 3 or not quick) else 48))
    g[("float", 6)].append(P.legacy_universe("float32", f6, 2, p6, rnd))
    g[("int", 6)].append(P.legacy_universe("utf8long", s6, 2, p6, rnd))
    if not quick:
        g[("int", 3)].append(P.legacy_universe("int64", i3, 2, p3, rnd))
    # legacy histories: several fragments, deletions (deleted rows are nulled while the page is filtered)
    rows = lambda vs, start=1: [[start + i, v] for i, v in enumerate(vs)]
    a, b = [rnd.choice(i3) for _ in range(8)], [rnd.choice(i3) for _ in range(5)]
    g[("int", 3)].append({"kind": "int32", "storage": "legacy", "hist": "legacy-delete-append", "steps": [
        {"op": "write", "rows": rows(a), "group": 2}, {"op": "write", "mode": "append", "rows": rows(b, 9), "group": 2},
        {"op": "delete", "ids": [2, 5, 10]}, P.q_step(p3, "none", "legacy-delete-append", 2, False, [P.BASE, P.STATS], False)]})
    # zone-map zones (the statistics of the zone map index)
    c3 = [-1, 0, 1, 2, 3]
    c6 = [-1, 0, 1, 2, 3, 4, 5, 6]
    for r in (1, 2, 3):
        g[("int", 3)].append(P.index_universe("int32", c3, r, "zonemap", atoms3, rnd))
    for r in ((2,) if quick else (1, 2, 3)):
        g[("float", 6)].append(P.index_universe("float32", c6, r, "zonemap", a6, rnd))
    results, build_s = P.run_groups(prop, g)
    mc_info, states, trans, problems = mc.result()
    for name, text in problems:
        out.report({"spec": "Pruning", "run": name}, text, {})
    counts, events, samples, bad_scn, nscn, timing = P.judge(prop, out, results, OWN)
    for key in ("queries", "pushdown", "indexed", "searches", "pruned", "zagree", "nontrivial"):
        if counts.get(key, 0) == 0:
            raise vlib.ToolError(f"vacuous run: no {key} events")
    sigs = counts.pop("findings_by_signature", {})
    rc = out.finish()
    vlib.write_evidence(prop, tier, "model_checking", {
        "states": states, "transitions": trans, "traces_validated_against_impl": nscn - len(bad_scn),
        "samples": samples, "evaluations": counts.get("variants", 0) + counts.get("searches", 0),
        "distinct_nontrivial": counts.get("nontrivial", 0),
        "rule": "one q event per (table, predicate): legacy tables (one page = one zone of the universe, max_rows_per_group = zone size) scanned "
                "with use_stats(false) and use_stats(true) (plan checked to contain LancePushdownScan), zone-map tables scanned with and without the "
                "index plus the direct search answer; every result judged against Sql3VL!Eval on the observed table; non-trivial = the predicate "
                "selects some but not all rows",
        "exhaustive": False,
        "exhaustive_parts": "int32 legacy pages: all 84 pages of <= 3 cells over {0..3}; int32 zone-map zones: all 155 zones over {NULL,0..3}; "
                            "predicate lists and float / utf8 pages of 3 cells are sampled in the quick tier",
        "model_runs": mc_info, "event_counts": counts, "events_validated": events, "scenarios": nscn,
        "scenarios_with_findings": len(bad_scn), "findings_by_signature": sigs, "invariants_of_this_property": sorted(OWN),
        "pushdown_scans_observed": counts.get("pushdown", 0),
        "zone_answers_equal_to_transcription": counts.get("zagree", 0), "zone_answers_different": counts.get("zdiffer", 0),
        "harness_build_s": build_s, "timing": timing,
    }, time.time() - t0, len(out.violations), [
        "cells are small model values carried into int32/int64/utf8/float32/float64 columns by an order-preserving embedding; float order = IEEE "
        "total order with NaN largest and -0 < +0, calibrated on every run by the scan without statistics (a mismatch is a tool error)",
        "legacy format preconditions: primitive columns hold no NULL, string columns no empty string (it reads back as NULL)",
        "lance-encoding/src/statistics.rs (block statistics that choose encodings) prunes nothing and is not part of the check; 2.x files have no "
        "page statistics used for pruning",
        "truncated string bounds (values longer than 64 bytes) are exercised through the utf8long embedding and, in the model, as arbitrary widenings"])
    return rc
