"""C30 -- the I/O scheduler returns exactly the requested bytes and always completes
(spec/IoSchedOps.tla, spec/IoSched.tla, spec/Trace_IoSched.tla, harness/src/bin/vh_iosched.rs).

pure half : TLC checks the coalesce / split / un-coalesce theorem on the complete universe of range
            lists (IoSched, Mode = "ops"); the driver calls FileScheduler::submit_request and
            LanceEncodingsIo::submit_request on the same universe; Trace_IoSched judges every call.
conc half : TLC checks the queue machine (invariants, deadlock freedom, liveness under fairness),
            generates the schedules of the eager machine, the driver forces them onto a real
            ScanScheduler through an object store it owns, Trace_IoSched replays the recorded events.
"""
import concurrent.futures as cf
import json
import os
import random
import time

import vlib

COMMON = """CONSTANTS
  FileLen = {filelen}
  Deviations = {dev}
  Mode = "{mode}"
  Capacities = {caps}
  Budgets = {budgets}
  ReqCodes = {codes}
  AllowClose = {close}
  AllowAbandon = {abandon}
  OrderedSubmit = {ordered}
  Record = {record}
  MaxRanges = {maxranges}
  ListClass = "{cls}"
  Blocks = {blocks}
  MaxIops = {maxiops}
  Chunks = {chunks}
"""
DEFAULTS = dict(filelen=1, dev="{}", mode="queue", caps="{1}", budgets="{1}", codes="{}", close="TRUE", abandon="FALSE",
                ordered="FALSE", record="FALSE", maxranges=0, cls="all", blocks="{}", maxiops="{}", chunks="{}")
QUEUE_INVS = "TypeOK NoOverIssue EachRequestOnce Accounting PrioBag BudgetRespectedExceptBypass CloseCancelsPending"
BIG_IOP = 16 * 1024 * 1024      # DEFAULT_MAX_IOP_SIZE when LANCE_MAX_IOP_SIZE is unset


def tset(xs):
    return "{" + ", ".join(str(x) for x in xs) + "}"


def cfg(head, tail, **kw):
    d = dict(DEFAULTS)
    d.update(kw)
    return head + "\n" + COMMON.format(**d) + tail


def n_lists(L, n, cls):
    """Number of range lists of length <= n over a file of L bytes (same formula as the driver's enumeration)."""
    per = [L - s + 1 for s in range(L + 1)]
    R = sum(per)
    memo = {}

    def f(k, smin):
        if k == 0:
            return 1
        if (k, smin) not in memo:
            memo[(k, smin)] = sum(per[s] * f(k - 1, s) for s in range(smin, L + 1))
        return memo[(k, smin)]
    srt = sum(f(k, 0) for k in range(n + 1))
    allc = sum(R ** k for k in range(n + 1))
    return {"sorted": srt, "all": allc, "unsorted": allc - srt}[cls]


def decode(code):
    sizes = [(code // 100) % 10, (code // 10) % 10, code % 10]
    return [code // 10000, (code // 1000) % 10, [0 if x == 9 else x for x in sizes if x]]      # digit 9 = zero-length range


# request sets: id*10000 + prio*1000 + s1*100 + s2*10 + s3
SETS = {
    "mixed":   [11230, 20400, 31200],        # equal priorities 1 and 3, a lower one in between
    "desc":    [12300, 21220, 30300],        # later requests are more urgent
    "equal":   [10220, 20300, 30140],        # one priority for all
    # zero-length ranges (size digit 9 = 0 bytes): an all-empty request (submit_single(x..x)), a request mixing an
    # empty and a non-empty range, then a less urgent request larger than the small budget (3)
    "empty":   [10900, 21920, 32400],
}
SETS_THOROUGH = {
    "two2":    [10330, 21220],               # two requests of two iops
    "empty2":  [11990, 20400, 32300],        # an all-empty request of two iops between a more and a less urgent one
    "three2":  [11220, 20310, 31130],        # three requests of two iops
    "iops3":   [10123, 21210],               # a three-iop request
    "asc":     [10200, 21320, 32200],
}


def run(prop, tier, replay):
    t0 = time.time()
    out = vlib.Outcome(prop)
    quick = tier == "quick"
    assumptions = [
        "file contents and offsets are scaled down (files of 6..12 bytes, block sizes 0/2/4, max_iop_size 3/5, "
        "read_chunk_size 4): the arithmetic of coalesce/split/un-coalesce depends only on the order relations "
        "between range ends, block size and iop size",
        "max_iop_size is process-wide (env LANCE_MAX_IOP_SIZE): one driver process per value",
        "the byte budget is set through SchedulerConfig.io_buffer_size_bytes and the iops capacity through the "
        "store's io_parallelism; the process-wide iops quota (LANCE_PROCESS_IO_THREADS_LIMIT, default 128) is never "
        "reached and is not modelled",
        "concurrent half: single current-thread tokio runtime, the driver's object store decides when a read "
        "finishes; 'never completes' = still unresolved after every read was completed and every future polled, "
        "with a bounded number of executor turns after each step (no wall-clock timeout)",
        "reads that fail at the object store (error results, retries) are not exercised",
        "requests in the concurrent half have 1..3 far apart ranges (no coalescing) of 0..8 bytes, priorities 0..9; "
        "zero-length ranges never reach the object store: their pop/completion is inferred by Trace_IoSched",
    ]
    # ------------------------------------------------------------------------------------------
    # universes of the pure half: (file_len, max_ranges, class, blocks)
    if quick:
        universes = [dict(L=6, n=3, cls="sorted", blocks=[0, 2, 4], parts=1),
                     dict(L=12, n=2, cls="all", blocks=[0, 2, 4], parts=1)]
    else:
        universes = [dict(L=12, n=3, cls="sorted", blocks=[0, 2, 4], parts=6),
                     dict(L=6, n=4, cls="sorted", blocks=[0, 2, 4], parts=3),
                     dict(L=6, n=3, cls="all", blocks=[0, 2, 4], parts=1),
                     dict(L=12, n=2, cls="all", blocks=[0, 2, 4, 64], parts=1)]
    maxiops = [3, 5, 0]           # 0 = default (16 MiB)
    chunks = [4, 0]               # 0 = default (8 MiB)
    sets = dict(SETS)
    if not quick:
        sets.update(SETS_THOROUGH)
    caps = [1, 2]
    budgets = [3, 100] if quick else [1, 3, 100]
    qconfigs = [dict(name=sn, codes=codes, caps=caps, budgets=budgets) for sn, codes in sets.items()]
    max_scn = 250 if quick else 5000     # schedules replayed per (request set, capacity, budget); seeded sample beyond

    # 1. model-check the design ------------------------------------------------------------------
    def mc_ops(u):
        c = cfg("SPECIFICATION Spec", "INVARIANTS TypeOK OpsTheorem OpsReadsWellFormed\n"
                "CHECK_DEADLOCK FALSE\n", mode="ops", filelen=u["L"], maxranges=u["n"], cls=u["cls"],
                blocks=tset(u["blocks"]), maxiops=tset([m or BIG_IOP for m in maxiops]), chunks=tset(chunks))
        big = n_lists(u["L"], u["n"], "sorted" if u["cls"] == "sorted" else "all") > 100000
        r = vlib.tlc_mc(f"{prop}-ops-{u['L']}-{u['n']}-{u['cls']}", "IoSched", c, workers=8 if big else 3, timeout=3000, xmx="6g")
        return ("ops", u, c, r)

    def mc_queue(q):
        c = cfg("SPECIFICATION Spec", f"INVARIANTS {QUEUE_INVS} NoStuck\nPROPERTIES Live\nCHECK_DEADLOCK TRUE\n",
                caps=tset(q["caps"]), budgets=tset(q["budgets"]), codes=tset(q["codes"]))
        r = vlib.tlc_mc(f"{prop}-q-{q['name']}", "IoSched", c, workers=1, timeout=3000, xmx="3g")
        return ("queue", q, c, r)

    def mc_asbuilt():
        u = dict(L=6, n=2, cls="sorted", blocks=[0, 2])
        c = cfg("SPECIFICATION Spec", "INVARIANTS OpsTheorem\nCHECK_DEADLOCK FALSE\n", mode="ops", dev='{"AsBuilt"}',
                filelen=6, maxranges=2, cls="sorted", blocks=tset([0, 2]), maxiops=tset([3, BIG_IOP]), chunks=tset([4, 0]))
        r = vlib.tlc_mc(f"{prop}-asbuilt", "IoSched", c, workers=1, timeout=600, xmx="2g", coverage=False, expect_violation=True)
        return ("asbuilt", u, c, r)

    def mc_classes():
        # what the as-built transcription gets wrong is confined to the named classes
        u = dict(L=6, n=2, cls="all", blocks=[0, 2, 4])
        c = cfg("SPECIFICATION Spec", "INVARIANTS AsBuiltFailsOnlyInNamedClasses\nCHECK_DEADLOCK FALSE\n", mode="ops",
                filelen=6, maxranges=2 if quick else 3, cls="all", blocks=tset([0, 2, 4]),
                maxiops=tset([3, 5, BIG_IOP]), chunks=tset([4, 0]))
        r = vlib.tlc_mc(f"{prop}-classes", "IoSched", c, workers=2, timeout=3000, xmx="3g", coverage=False)
        return ("classes", u, c, r)

    def mc_abandon():
        # environment outside the property (a consumer drops a request future): expected to break NoStuck
        c = cfg("SPECIFICATION Spec", "INVARIANTS NoStuck\nCHECK_DEADLOCK FALSE\n", caps="{2}", budgets="{5}",
                codes=tset([10500, 21300]), close="FALSE", abandon="TRUE")
        r = vlib.tlc_mc(f"{prop}-abandon", "IoSched", c, workers=1, timeout=600, xmx="2g", coverage=False, expect_violation=True)
        return ("abandon", None, c, r)

    def gen(q):
        c = cfg("SPECIFICATION GenSpec", "INVARIANT GenPrint\nCHECK_DEADLOCK FALSE\n", caps=tset(q["caps"]),
                budgets=tset(q["budgets"]), codes=tset(q["codes"]), ordered="TRUE", record="TRUE")
        scns, st = vlib.tlc_gen(f"{prop}-{q['name']}", "IoSched", c, timeout=3000, xmx="4g")
        seen, uniq = set(), []
        for s in scns:
            k = json.dumps(s)
            if k not in seen:
                seen.add(k)
                uniq.append(s)
        return ("gen", q, uniq, st)

    states = trans = 0
    mc_info = []
    schedules = {}
    jobs = [lambda u=u: mc_ops(u) for u in universes] + [mc_asbuilt, mc_classes, mc_abandon]
    jobs += [lambda q=q: mc_queue(q) for q in qconfigs] + [lambda q=q: gen(q) for q in qconfigs]
    if replay:
        jobs = []       # --replay re-runs one stored case on the implementation only
    with cf.ThreadPoolExecutor(max_workers=5) as ex:
        results = list(ex.map(lambda j: j(), jobs))
    abandon_model = None
    for kind, what, c, r in results:
        if kind == "gen":
            schedules[what["name"]] = c
            if not c:
                raise vlib.ToolError(f"no schedules generated for {what['name']}")
            continue
        if kind == "asbuilt":
            if r["violated"] != "OpsTheorem":
                raise vlib.ToolError("the as-built transcription no longer violates OpsTheorem: spec is vacuous")
            continue
        if kind == "abandon":
            abandon_model = r["violated"]
            continue
        if kind == "classes":
            if r["violated"]:
                out.report({"spec": "IoSched", "mode": "ops", "invariant": r["violated"]},
                           f"the as-built transcription fails outside the named classes (see {r['out']})", {"cfg": c})
            states += r.get("distinct", 0)
            trans += r.get("generated", 0)
            continue
        if r["violated"]:
            out.report({"spec": "IoSched", "mode": kind, "invariant": r["violated"]},
                       f"the design-level model violates {r['violated']} (see {r['out']})", {"cfg": c})
        need = ["DoOps"] if kind == "ops" else ["DoSubmit", "DoPop", "DoComplete", "DoConsume", "DoClose"]
        zero = [a for a in need if not r["coverage"].get(a)]
        if zero and not r["violated"]:
            raise vlib.ToolError(f"vacuous model run ({kind} {what}): actions never taken {zero}")
        if kind == "ops":
            want = n_lists(what["L"], what["n"], "all" if what["cls"] != "sorted" else "sorted") * \
                len(what["blocks"]) * len(maxiops) * (1 + len(chunks))
            if r.get("distinct") != want and not r["violated"]:
                raise vlib.ToolError(f"ops universe {what}: TLC explored {r.get('distinct')} cases, expected {want}")
        states += r.get("distinct", 0)
        trans += r.get("generated", 0)
        mc_info.append({"mode": kind, "what": {k: v for k, v in what.items() if k != "parts"},
                        "distinct": r.get("distinct"), "generated": r.get("generated"), "depth": r.get("depth"),
                        "wall_s": r["wall_s"]})

    # 2. rebuild the harness from /repo's working tree -------------------------------------------
    binary = os.environ.get("VERIF_C30_BIN")
    build_s = 0.0
    if not binary:
        binary, build_s = vlib.harness_build("vh_iosched")
    mutate = os.environ.get("VERIF_C30_MUTATE", "")       # binding demonstration only
    wd = vlib.workdir(f"{prop}-traces")

    # 3. drive the implementation, 4. validate ----------------------------------------------------
    def pure_job(u, m, part):
        name = f"p-{u['L']}-{u['n']}-{u['cls']}-m{m}-{part}"
        tf = os.path.join(wd, name + ".ndjson")
        args = ["--mode", "pure", "--file-len", u["L"], "--max-ranges", u["n"], "--class", u["cls"],
                "--blocks", ",".join(map(str, u["blocks"])), "--chunks", ",".join(map(str, chunks)),
                "--part", part, "--parts", u["parts"], "--out", tf]
        if mutate.startswith("pure:"):
            args += ["--mutate", mutate[5:]]
        _run_clean(binary, args, {"LANCE_MAX_IOP_SIZE": str(m)} if m else None)
        c = cfg("SPECIFICATION TraceSpec", f"  AgreeEvery = {8 if quick else 16}\nINVARIANTS Report\nPOSTCONDITION TraceAccepted\n"
                "CHECK_DEADLOCK FALSE\n", mode="trace", filelen=u["L"])
        v = vlib.tlc_trace(f"{prop}-{name}", "Trace_IoSched", c, tf, timeout=3000, xmx="4g")
        nl = n_lists(u["L"], u["n"], u["cls"])
        mine = len(range(part, nl, u["parts"]))
        return ("pure", dict(u=u, maxiop=m, part=part, expect=mine * len(u["blocks"]) * (1 + len(chunks))), tf, v)

    def conc_job(q):
        name = "c-" + q["name"]
        allscn = schedules[q["name"]]
        total = len(allscn)
        scns = []
        rnd = random.Random(vlib.seed() * 7919 + len(q["name"]))
        for cp in q["caps"]:
            for b in q["budgets"]:
                grp = [s for s in allscn if s["cap"] == cp and s["budget"] == b]
                scns += rnd.sample(grp, max_scn) if len(grp) > max_scn else grp
        sf = os.path.join(wd, name + ".scn.ndjson")
        with open(sf, "w") as f:
            for s in scns:
                f.write(json.dumps({"cap": s["cap"], "budget": s["budget"], "reqs": [decode(c) for c in q["codes"]],
                                    "steps": s["steps"]}) + "\n")
        tf = os.path.join(wd, name + ".ndjson")
        args = ["--mode", "conc", "--scenarios", sf, "--out", tf]
        if mutate.startswith("conc:"):
            args += ["--mutate", mutate[5:]]
        _run_clean(binary, args)
        c = cfg("SPECIFICATION TraceSpec", f"  AgreeEvery = 8\nINVARIANTS Report {QUEUE_INVS}\nPOSTCONDITION TraceAccepted\n"
                "CHECK_DEADLOCK FALSE\n", mode="trace", filelen=128, caps=tset(q["caps"]), budgets=tset(q["budgets"]),
                codes=tset(q["codes"]), abandon="TRUE")
        v = vlib.tlc_trace(f"{prop}-{name}", "Trace_IoSched", c, tf, timeout=3000, xmx="4g")
        return ("conc", dict(q=q, generated=total, replayed=len(scns), scn_file=sf), tf, v)

    def abandon_job():
        # beyond the property: a consumer drops a request future, a later request must still complete
        sf = os.path.join(wd, "abandon.scn.ndjson")
        with open(sf, "w") as f:
            f.write(json.dumps({"cap": 2, "budget": 5, "reqs": [[1, 0, [5]], [2, 1, [3]]],
                                "steps": [["S", 1], ["A", 1], ["C", 1], ["S", 2]]}) + "\n")
        tf = os.path.join(wd, "abandon.ndjson")
        _run_clean(binary, ["--mode", "conc", "--scenarios", sf, "--out", tf])
        c = cfg("SPECIFICATION TraceSpec", "  AgreeEvery = 8\nINVARIANTS Report\nPOSTCONDITION TraceAccepted\nCHECK_DEADLOCK FALSE\n",
                mode="trace", filelen=128, caps="{2}", budgets="{5}", codes=tset([10500, 21300]), abandon="TRUE")
        v = vlib.tlc_trace(f"{prop}-abandon", "Trace_IoSched", c, tf, timeout=600, xmx="2g")
        return ("abandon", None, tf, v)

    if replay:
        rp = json.load(open(replay))["case"]
        if rp.get("family") == "pure":
            ev = rp["event"]
            u = dict(L=rp["file_len"], n=len(ev[4]), cls="all", blocks=[ev[2]], parts=1)
            name = "replay"
            tf = os.path.join(wd, "replay.ndjson")
            args = ["--mode", "pure", "--file-len", u["L"], "--blocks", ev[2], "--chunks", ",".join(map(str, chunks)),
                    "--ranges", json.dumps(ev[4]), "--out", tf]
            m = rp["maxiop"]
            _run_clean(binary, args, {"LANCE_MAX_IOP_SIZE": str(m)} if m and m != BIG_IOP else None)
            c = cfg("SPECIFICATION TraceSpec", "  AgreeEvery = 1\nINVARIANTS Report\nPOSTCONDITION TraceAccepted\nCHECK_DEADLOCK FALSE\n",
                    mode="trace", filelen=u["L"])
            v = vlib.tlc_trace(f"{prop}-replay", "Trace_IoSched", c, tf, timeout=600, xmx="2g")
            tjobs_results = [("pure", dict(u=u, maxiop=m, part=0, expect=1 + len(chunks)), tf, v)]
        else:
            q = rp["q"]
            schedules[q["name"]] = [rp["scenario"]]
            tjobs_results = [conc_job(q)]
    else:
        tjobs = [lambda u=u, m=m, p=p: pure_job(u, m, p) for u in universes for m in maxiops for p in range(u["parts"])]
        tjobs += [lambda q=q: conc_job(q) for q in qconfigs] + [abandon_job]
        with cf.ThreadPoolExecutor(max_workers=6) as ex:
            tjobs_results = list(ex.map(lambda j: j(), tjobs))

    # 5. classify --------------------------------------------------------------------------------
    events = 0
    pure_events = pure_good = sampled = agree = ragree = nontrivial_pure = 0
    scen = scen_ok = 0
    feat = {}
    ccounts = {}
    samples = []
    exhaustive_pure = True
    conc_sampled = []
    beyond = {}
    findings_seen = {}
    for kind, info, tf, v in tjobs_results:
        if not v["reports"]:
            raise vlib.ToolError(f"no REPORT from trace validation of {tf}: {v['out']}")
        rep = v["reports"][-1]
        lines = None

        def line(n):
            nonlocal lines
            if lines is None:
                lines = open(tf).read().splitlines()
            return json.loads(lines[n - 1])

        if kind == "abandon":
            hung = [b for b in rep["bad"] if b[0][0] == "End"]
            beyond = {"what": "a consumer drops a request future (outside the property's statement): the bytes of its reads "
                              "are never given back (on_bytes_consumed runs only when the future yields), so a later "
                              "request of a less urgent priority that does not fit the remaining budget is never issued",
                      "model_NoStuck_with_AllowAbandon": "violated" if abandon_model else "holds",
                      "implementation": "later request never completes" if hung else "later request completes",
                      "scenario": {"cap": 2, "budget": 5, "reqs": [[1, 0, [5]], [2, 1, [3]]],
                                   "steps": [["S", 1], ["A", 1], ["C", 1], ["S", 2]]},
                      "trace": [json.loads(x) for x in open(tf).read().splitlines()]}
            continue
        if v["violated"]:
            out.report({"half": kind, "invariant": v["violated"]},
                       f"invariant {v['violated']} violated on the state inferred from an implementation trace ({v['out']})",
                       {"family": kind, "trace": tf, "info": info})
            continue
        if not v["accepted"]:
            raise vlib.ToolError(f"trace {tf} not fully consumed: {v['out']}")
        cn = rep["counts"]
        events += rep["events"]
        if kind == "pure":
            if cn["req"] != info["expect"] or cn["univ"] != 1 or cn["end"] != 1:
                exhaustive_pure = False
                out.report({"half": "pure", "kind": "incomplete-trace"},
                           f"{tf}: {cn['req']} calls recorded, universe part has {info['expect']}", {"family": "pure-meta", "info": info})
            pure_events += cn["req"]
            pure_good += cn["good"]
            sampled += cn["sampled"]
            agree += cn["agree"]
            ragree += cn["readsagree"]
            nontrivial_pure += cn["nontrivial"]
            for (k, sig), count, first, _s in rep["bad"]:
                if k != "req":
                    out.report({"half": "pure", "kind": k, "class": sig}, f"{tf}: {k} {sig}", {"family": "pure-meta", "info": info})
                    continue
                cls, api, how = sig
                ev = line(first)
                key = (cls, api, how)
                fs = findings_seen.setdefault(cls, {})
                fs[f"{api}:{how}"] = fs.get(f"{api}:{how}", 0) + count
                out.report({"half": "pure", "class": cls},
                           f"submit_request over ranges of class '{cls}' does not return one buffer per range holding the "
                           f"file's bytes: api={api} outcome={how} block_size={ev[2]} max_iop_size={info['maxiop'] or BIG_IOP} "
                           f"read_chunk_size={ev[3] or 'default'} ranges={ev[4]} -> {ev[5]} {ev[6]} {ev[8]}",
                           {"family": "pure", "event": ev, "file_len": info["u"]["L"], "maxiop": info["maxiop"] or BIG_IOP,
                            "first_line": first, "trace": tf, "key": list(key)})
            if len(samples) < 3:
                samples.append({"family": "pure", "universe": info["u"], "max_iop_size": info["maxiop"] or BIG_IOP,
                                "events": [line(1)[:8], line(max(2, rep["events"] // 2)), line(rep["events"] - 1)]})
        else:
            scen += cn["Begin"]
            scen_ok += cn["End"]
            for k, n in cn.items():
                ccounts[k] = ccounts.get(k, 0) + n
            for k in ("sc_bypass", "sc_blocked", "sc_close", "sc_cancel", "sc_partial", "sc_zero", "sc_zerobypass", "sc_fuzzy"):
                feat[k] = feat.get(k, 0) + cn[k]
            if info["replayed"] < info["generated"]:
                conc_sampled.append({"config": info["q"]["name"], "generated": info["generated"], "replayed": info["replayed"]})
            for (k, sig), count, first, sc in rep["bad"]:
                cls = sig if isinstance(sig, str) else sig[0]
                scenario = json.loads(open(info["scn_file"]).read().splitlines()[sc - 1]) if sc >= 1 else None
                ctx = [line(i) for i in range(max(1, first - 12), first + 1)]
                out.report({"half": "conc", "event": k, "class": cls},
                           f"scheduler trace not explained by the queue machine: {k} {sig} in config {info['q']['name']} "
                           f"({count} scenarios); events up to the rejected one: {ctx}",
                           {"family": "conc", "q": info["q"], "scenario": scenario, "rejected": line(first), "trace": tf})
            if len(samples) < 6 and cn["sc_blocked"]:
                ls = open(tf).read().splitlines()
                i0 = max(i for i, x in enumerate(ls) if x.startswith('["Begin"'))
                samples.append({"family": "conc", "config": info["q"], "events": [json.loads(x) for x in ls[i0:]]})
    # vacuity is judged only on a run without rejected events (a rejected scenario is skipped from the
    # rejection on, which may itself starve a counter)
    if not replay and not out.violations:
        for k, what in (("Issue", "no read was issued"), ("Resolved", "no request resolved"), ("Close", "no close"),
                        ("Pending", "no pending observation"), ("sc_bypass", "priority bypass never taken"),
                        ("sc_blocked", "backpressure never held a read back"), ("sc_cancel", "no request cancelled by close"),
                        ("sc_partial", "no request cancelled while partly in flight"),
                        ("Silent", "no zero-byte iop"), ("sc_zero", "no all-empty request resolved"),
                        ("sc_zerobypass", "no over-budget admission after a zero-byte request was consumed")):
            if not ccounts.get(k):
                raise vlib.ToolError(f"vacuous concurrent replay: {what}")
        if not sampled or not nontrivial_pure:
            raise vlib.ToolError("vacuous pure replay")
    rc = out.finish()
    cov = {
        "states": states, "transitions": trans,
        "traces_validated_against_impl": pure_good + scen_ok,
        "samples": samples,
        "evaluations": pure_events + scen,
        "distinct_nontrivial": nontrivial_pure + feat.get("sc_blocked", 0),
        "rule": "pure: every (api, block_size, max_iop_size, read_chunk_size, range list) of the enumerated universes is one "
                "call, distinct by construction (counts checked against the universe size); non-trivial = the reads that "
                "reached the object store differ from the requested ranges (coalesced, split, or empty ranges dropped). "
                "conc: every distinct schedule of environment steps generated by TLC from the eager queue machine is one "
                "scenario; non-trivial = the byte budget held a queued read back at some quiescent point (counted by "
                "Trace_IoSched)",
        "exhaustive": bool(exhaustive_pure and not conc_sampled and not replay),
        "pure": {"universes": [{k: v for k, v in u.items()} for u in universes], "max_iop_sizes": [m or BIG_IOP for m in maxiops],
                 "read_chunk_sizes": [c or 8 * 1024 * 1024 for c in chunks], "calls": pure_events, "calls_correct": pure_good,
                 "exhaustive": exhaustive_pure, "failing_classes": findings_seen,
                 "asbuilt_transcription": {"sampled_calls": sampled, "outcome_predicted": agree, "reads_predicted": ragree}},
        "conc": {"configs": len(qconfigs), "scenarios": scen, "scenarios_accepted": scen_ok, "events": ccounts,
                 "scenarios_with": feat, "sampled_configs": conc_sampled,
                 "request_sets": {k: [decode(c) for c in v] for k, v in sets.items()}, "capacities": caps, "budgets": budgets},
        "beyond_property": beyond,
        "model_runs": mc_info, "harness_build_s": build_s, "events_validated": events,
    }
    vlib.write_evidence(prop, tier, "model_checking", cov, time.time() - t0, len(out.violations), assumptions)
    return rc


def _run_clean(binary, args, extra=None):
    """Run the driver without LANCE_MAX_IOP_SIZE / LANCE_IO_THREADS / process limit overrides from the caller's environment."""
    import subprocess
    e = {k: v for k, v in os.environ.items() if k not in ("LANCE_MAX_IOP_SIZE", "LANCE_IO_THREADS", "LANCE_PROCESS_IO_THREADS_LIMIT")}
    if extra:
        e.update(extra)
    try:
        p = subprocess.run([binary] + [str(a) for a in args], stdout=subprocess.PIPE, stderr=subprocess.PIPE, text=True,
                           timeout=3600, env=e)
    except subprocess.TimeoutExpired as ex:
        raise vlib.ToolError(f"harness timeout: {binary} {args}") from ex
    if p.returncode != 0:
        raise vlib.ToolError(f"harness failed rc={p.returncode}: {binary} {args}\n{p.stderr[-3000:]}")
    return p.stdout
