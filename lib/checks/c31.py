"""C31 -- object writes persist exactly the bytes written (spec/ObjectWriter*.tla).

1. TLC model-checks ObjectWriter.tla (intended design, Deviations = {}) for every configuration
   (upload concurrency, reset-retry budget, store semantics); a run with the as-built deviations is
   made too and its outcome recorded.
2. TLC prints one scenario per distinct closed model state (GenPrint); a seeded, stratified subset is
   replayed by harness/src/bin/vh_objwriter.rs on the real ObjectWriter over a scripted mock store.
3. Trace_ObjectWriter.tla explains every recorded step with the model and evaluates the C31
   invariants on the implementation's states.
"""
import concurrent.futures as cf
import json
import os
import random
import time

import vlib

PART = 5 * 1024 * 1024
Q = PART // 4
INVS = "InvNothingVisibleBeforeDone InvDoneEqualsConcat InvFailLeavesNothing InvAbortLeavesNothing InvPendingCanProgress TypeOK"
AS_BUILT = ["RetryAppendsPart"]

CFG = """SPECIFICATION Spec
CONSTANTS
  Part = {part}
  MaxPar = {maxpar}
  MaxResets = {maxresets}
  StoreMode = "{mode}"
  Deviations = {dev}
  WriteSizes = {{1, {q}, {part}, {p15}}}
  MaxWrites = {maxwrites}
  MaxTotal = {maxtotal}
  MaxFaults = {maxfaults}
  PartFaults = {{"fail", "reset"}}
  Plans = {{{{}}, {{"mpu"}}, {{"put"}}, {{"complete"}}, {{"mpu", "complete"}}, {{"put", "complete"}}}}
{what}
VIEW StateView
CHECK_DEADLOCK FALSE
"""
TRACE_CFG = """SPECIFICATION TraceSpec
CONSTANT AsBuilt = {"RetryAppendsPart"}
INVARIANT Report
POSTCONDITION TraceAccepted
CHECK_DEADLOCK FALSE
"""


def cfg_text(c, dev, what):
    return CFG.format(part=PART, q=Q, p15=PART + PART // 2, maxpar=c["maxpar"], maxresets=c["maxresets"],
                      mode=c["mode"], dev=dev, maxwrites=c["maxwrites"], maxtotal=PART * 5 // 2 + 1,
                      maxfaults=c["maxfaults"], what=what)


def has_reset(sc):
    return any(st[2] == "reset" for st in sc["steps"])


def pick(scs, c, rng):
    """Seeded, stratified choice: all classes (terminal writer state, error, done, faults) are kept."""
    plain = [s for s in scs if not has_reset(s)]
    resets = [s for s in scs if has_reset(s)]

    def strat(items, cap):
        if len(items) <= cap:
            return list(items)
        by = {}
        for s in items:
            by.setdefault(json.dumps([s["fin"][:4], sorted(s["plan"])]), []).append(s)
        out = []
        keys = sorted(by)
        for k in keys:
            rng.shuffle(by[k])
        while len(out) < cap:
            moved = False
            for k in keys:
                if by[k] and len(out) < cap:
                    out.append(by[k].pop())
                    moved = True
            if not moved:
                break
        return out

    # scenarios that retry a part cost 2-8 s of real sleep each (rand jitter inside lance): keep them few,
    # and prefer the ones in which the upload completes after the retry
    rdone = [s for s in resets if s["fin"][2]]
    rother = [s for s in resets if not s["fin"][2]]
    rng.shuffle(rdone)
    chosen_r = rdone[: c["cap_reset"] * 2 // 3]
    chosen_r += strat(rother, c["cap_reset"] - len(chosen_r))
    return strat(plain, c["cap_plain"]), chosen_r


def run_config(prop, tier, c, binary, wd):
    name = c["name"]
    mc = vlib.tlc_mc(f"{prop}-{name}", "ObjectWriter", cfg_text(c, "{}", "INVARIANTS " + INVS), workers=4,
                     timeout=900, coverage=False, xmx="4g")
    scs, gstats = vlib.tlc_gen(f"{prop}-{name}", "ObjectWriter", cfg_text(c, "{}", "INVARIANTS GenPrint"),
                               timeout=900, xmx="4g")
    # the as-built behaviour of the reset retry is only reachable with the deviation enabled
    scs_dev, _ = vlib.tlc_gen(f"{prop}-{name}-dev", "ObjectWriter",
                              cfg_text(c, '{"RetryAppendsPart"}', "INVARIANTS GenPrint"), timeout=900, xmx="4g")
    rng = random.Random(vlib.seed() * 1000 + sum(map(ord, name)))
    seen = set()
    allscs = []
    for s in scs + scs_dev:
        k = json.dumps([s["steps"], sorted(s["plan"])])
        if k not in seen:
            seen.add(k)
            allscs.append(s)
    plain, resets = pick(allscs, c, rng)
    chosen = plain + resets
    for i, s in enumerate(chosen):
        s["id"] = i
    sf = os.path.join(wd, f"scn-{name}.ndjson")
    with open(sf, "w") as f:
        for s in chosen:
            f.write(json.dumps(s) + "\n")
    tf = os.path.join(wd, f"trace-{name}.ndjson")
    env = {"LANCE_UPLOAD_CONCURRENCY": str(c["maxpar"]), "LANCE_CONN_RESET_RETRIES": str(c["maxresets"])}
    t0 = time.time()
    vlib.harness_run(binary, ["--scenarios", sf, "--out", tf, "--threads", 16], env=env, timeout=1500)
    hs = time.time() - t0
    v = vlib.tlc_trace(f"{prop}-{name}", "Trace_ObjectWriter", TRACE_CFG, tf, timeout=900, xmx="4g")
    return dict(c=c, mc=mc, gen=len(allscs), gstats=gstats, chosen=chosen, trace=tf, v=v, harness_s=round(hs, 1),
                n_plain=len(plain), n_reset=len(resets))


def configs(tier):
    q = tier == "quick"
    base = dict(maxwrites=3 if q else 4, maxfaults=1 if q else 2)
    return [
        dict(name="par2-order", maxpar=2, maxresets=1, mode="order", cap_plain=300 if q else 3000,
             cap_reset=24 if q else 96, **base),
        dict(name="par2-strict", maxpar=2, maxresets=1, mode="strict", cap_plain=60 if q else 600,
             cap_reset=12 if q else 64, **base),
        dict(name="par1-noretry", maxpar=1, maxresets=0, mode="order", cap_plain=150 if q else 2000,
             cap_reset=60 if q else 600, **base),   # resets=0: a reset is an immediate error, no sleep
        dict(name="default", maxpar=10, maxresets=20, mode="order", cap_plain=80 if q else 1500,
             cap_reset=8 if q else 48, **base),
    ]


def run(prop, tier, replay):
    t0 = time.time()
    out = vlib.Outcome(prop)
    assumptions = [
        "the store is a mock of object_store::ObjectStore/MultipartUpload: parts are numbered by put_part call order, "
        "nothing is visible before put/complete succeeds, a failed call has no effect (no lost responses)",
        "put_multipart / put / complete / abort resolve immediately; put_part resolves when the scenario says so",
        "after an API call returned an error, and after shutdown, only abort / drop follow (AsyncWrite contract)",
        "part size is the 5 MiB minimum the code accepts; tokio JoinSet, Vec capacity and the mock are trusted",
    ]
    binary, build_s = vlib.harness_build("vh_objwriter")
    wd = vlib.workdir(f"{prop}-traces")
    if replay:
        case = json.load(open(replay))["case"]
        sc = case["scenario"]
        sc["id"] = 0
        sf, tf = os.path.join(wd, "replay.ndjson"), os.path.join(wd, "replay-trace.ndjson")
        open(sf, "w").write(json.dumps(sc) + "\n")
        vlib.harness_run(binary, ["--scenarios", sf, "--out", tf, "--threads", 1],
                         env={"LANCE_UPLOAD_CONCURRENCY": str(sc["maxpar"]), "LANCE_CONN_RESET_RETRIES": str(sc["maxresets"])})
        v = vlib.tlc_trace(f"{prop}-replay", "Trace_ObjectWriter", TRACE_CFG, tf)
        results = [dict(c=dict(name="replay"), mc=None, gen=1, chosen=[sc], trace=tf, v=v, harness_s=0, n_plain=1, n_reset=0)]
    else:
        with cf.ThreadPoolExecutor(max_workers=4) as ex:
            results = list(ex.map(lambda c: run_config(prop, tier, c, binary, wd), configs(tier)))
    states = trans = 0
    mc_info, samples = [], []
    agg = dict(scenarios=0, steps=0, explained=0, done_ok=0, multipart_done=0, single_done=0, pending=0, retries=0,
               blocked_on_parallelism=0, orphan_uploads=0, deviated=0)
    sets = dict(errs=set(), ops=set(), part_outcomes=set(), closed=set())
    nontrivial = accepted = 0
    for r in results:
        name = r["c"]["name"]
        mc = r["mc"]
        if mc is not None:
            if mc["violated"]:
                out.report({"spec": "ObjectWriter", "invariant": mc["violated"], "cfg": name},
                           f"the intended design violates {mc['violated']} ({mc['out']})", {"cfg": r["c"]})
            states += mc.get("distinct", 0)
            trans += mc.get("generated", 0)
            mc_info.append({"cfg": name, "distinct": mc.get("distinct"), "generated": mc.get("generated"),
                            "depth": mc.get("depth"), "wall_s": mc["wall_s"], "closed_states": r["gen"],
                            "replayed": len(r["chosen"]), "replayed_with_retry": r["n_reset"], "harness_s": r["harness_s"]})
        v = r["v"]
        if not v["reports"] or not v["accepted"]:
            raise vlib.ToolError(f"trace validation did not finish for {name}: {v['out']}")
        rep = v["reports"][-1]
        st = rep["stats"]
        for k in agg:
            agg[k] += st[k]
        for k in sets:
            sets[k].update(json.dumps(x) if isinstance(x, list) else x for x in st[k])
        lines = open(r["trace"]).read().splitlines()
        by_sc = {}
        for ln in lines:
            e = json.loads(ln)
            by_sc.setdefault(e["sc"], []).append(e)
        badsc = set()
        for b in rep["bad"]:
            badsc.add(b["sc"])
            sc = r["chosen"][b["sc"]]
            payload = {"scenario": sc, "trace": by_sc.get(b["sc"], []), "judgement": b, "cfg": name}
            if b["kind"] == "invariant":
                for inv in b["class"]:
                    sig = {"invariant": inv, "deviation": sorted(b["dev"])}
                    out.report(sig, f"{inv} violated on the implementation's trace (deviation {b['dev']}, cfg {name}): "
                                    f"steps {sc['steps']}", payload)
            elif b["kind"] == "illegal-step":
                raise vlib.ToolError(f"scenario step not enabled in the model ({name}): {b}")
            else:
                sig = {"kind": b["kind"], "class": b["class"]}
                out.report(sig, f"{b['kind']} {b['class']}: recorded step is not a behaviour of ObjectWriter.tla "
                                f"(cfg {name}) event={lines[b['pos'] - 1][:400]}", payload)
        for sc in r["chosen"]:
            evs = by_sc.get(sc["id"], [])
            if sc["id"] not in badsc:
                accepted += 1
                if any(e.get("calls") for e in evs):
                    nontrivial += 1
        if len(samples) < 4 and r["chosen"]:
            long = max(r["chosen"], key=lambda s: (s["id"] not in badsc, len(s["steps"])))
            samples.append({"cfg": name, "scenario": {k: long[k] for k in ("steps", "plan", "maxpar", "maxresets", "mode")},
                            "trace": by_sc.get(long["id"], [])})
    if not replay and not out.violations:
        need = {"ops": {"write", "shutdown", "done", "abort", "drop"}, "part_outcomes": {"ok", "fail", "reset"},
                "errs": {"err_part", "err_mpu", "err_put", "err_complete", "err_reset_max", "err_missing"}}
        for k, want in need.items():
            if not want <= sets[k]:
                raise vlib.ToolError(f"vacuous run: {k} exercised {sorted(sets[k])}, missing {sorted(want - sets[k])}")
        for k in ("multipart_done", "single_done", "pending", "retries", "blocked_on_parallelism"):
            if agg[k] == 0:
                raise vlib.ToolError(f"vacuous run: no event of class {k}")
    rc = out.finish()
    total = sum(len(r["chosen"]) for r in results)
    vlib.write_evidence(prop, tier, "model_checking", {
        "states": states, "transitions": trans, "traces_validated_against_impl": accepted,
        "samples": samples, "evaluations": total, "distinct_nontrivial": nontrivial,
        "rule": "one scenario per distinct closed state of ObjectWriter.tla (TLC, VIEW = writer+store state, shortest history), "
                "seeded stratified subset per configuration; distinct by construction; non-trivial = fully explained by the "
                "model and at least one store call happened",
        "exhaustive": False, "model_runs": mc_info, "steps_validated": agg["explained"], "stats": agg,
        "classes": {k: sorted(v) for k, v in sets.items()}, "harness_build_s": build_s,
        "orphan_uploads_note": "informational: scenarios in which a created multipart upload was neither completed nor aborted "
                               "(complete() failed; the writer drops the upload without abort). Nothing is visible at the "
                               "destination, so C31 is not affected.",
    }, time.time() - t0, len(out.violations), assumptions)
    return rc


def selftest():
    """Binding demonstration (not part of the check): python3 -c 'import sys; sys.path.insert(0,"lib");
    from checks import c31; c31.selftest()'.  (a) corrupt recorded fields of an accepted trace, (b) run the
    scenarios on the scratch copy of ObjectWriter inside the driver with seeded mutations."""
    wd = os.path.join(vlib.WORK, "C31-traces")
    binary, _ = vlib.harness_build("vh_objwriter")
    src = os.path.join(wd, "trace-par2-order.ndjson")
    scn = os.path.join(wd, "scn-par2-order.ndjson")
    st = vlib.workdir("objwriter-selftest")
    lines = open(src).read().splitlines()

    def judge(name, text):
        tf = os.path.join(st, name + ".ndjson")
        open(tf, "w").write("\n".join(text) + "\n")
        v = vlib.tlc_trace("objwriter-self-" + name, "Trace_ObjectWriter", TRACE_CFG, tf)
        bad = [b for b in v["reports"][-1]["bad"] if not (b["kind"] == "invariant" and b["dev"])]
        return bad

    print("baseline (findings other than the known deviation):", judge("base", lines))
    evs = [json.loads(x) for x in lines]
    i_done = next(i for i, e in enumerate(evs) if e["k"] == "step" and e["api"][0] == "ok" and e["vis"]
                  and e["dest"] and not any(st_[2] == "reset" for st_ in [e["step"]]) and len(e["dest"]) == 1)
    i_part = next(i for i, e in enumerate(evs) if e["k"] == "step" and any(c[0] == "put_part" for c in e["calls"]))
    i_pend = next(i for i, e in enumerate(evs) if e["k"] == "step" and e["api"] == ["pending"])

    def corrupt(i, f):
        e = json.loads(lines[i])
        f(e)
        return lines[:i] + [json.dumps(e)] + lines[i + 1:]

    cases = {
        "dest_len": corrupt(i_done, lambda e: e["dest"][0].__setitem__(1, e["dest"][0][1] - 1)),
        "api_size": corrupt(i_done, lambda e: e["api"].__setitem__(1, e["api"][1] + 1)),
        "part_segment": corrupt(i_part, lambda e: [c for c in e["calls"] if c[0] == "put_part"][0][2][0].__setitem__(0, 4)),
        "early_visible": corrupt(i_pend, lambda e: (e.__setitem__("vis", True), e.__setitem__("dest", [[0, 1]]))),
        "dropped_event": lines[:i_part] + lines[i_part + 1:],
    }
    for k, text in cases.items():
        bad = judge(k, text)
        print(f"corruption {k}: rejected={bool(bad)} first={bad[:1]}")
    env = {"LANCE_UPLOAD_CONCURRENCY": "2", "LANCE_CONN_RESET_RETRIES": "1"}
    for m in ("none", "no_final_flush", "complete_early", "swallow_part_error", "parallelism_plus_one", "drop_no_abort"):
        tf = os.path.join(st, f"mut-{m}.ndjson")
        if m == "parallelism_plus_one":   # the limit only binds when one upload may be in flight
            scn_m, env_m = os.path.join(wd, "scn-par1-noretry.ndjson"), {"LANCE_UPLOAD_CONCURRENCY": "1", "LANCE_CONN_RESET_RETRIES": "0"}
        else:
            scn_m, env_m = scn, env
        vlib.harness_run(binary, ["--scenarios", scn_m, "--out", tf, "--threads", 16, "--mutate", m], env=env_m)
        v = vlib.tlc_trace("objwriter-self-mut-" + m, "Trace_ObjectWriter", TRACE_CFG, tf)
        bad = [b for b in v["reports"][-1]["bad"] if not (b["kind"] == "invariant" and b["dev"])]
        kinds = sorted({json.dumps([b["kind"], b["class"]]) for b in bad})
        print(f"mutation {m}: caught={bool(bad)} findings={len(bad)} classes={kinds[:6]}")
