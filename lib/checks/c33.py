"""C33 -- manifest naming and latest-version discovery (spec/ManifestNaming*.tla)."""
import concurrent.futures as cf
import json
import os
import time
from math import comb, factorial

import vlib

EMBEDDINGS = ["low", "dec", "mid", "top", "wide"]
EMB_VALUES = {
    "low": "attached 0,1,2; detached 2^63, 2^63+1",
    "dec": "attached 9,10,11; detached 2^63+9, 10^19",
    "mid": "attached 2^32-1, 2^32, 2^32+1; detached 2^63+2^32, u64::MAX-1",
    "top": "attached 2^63-3, 2^63-2, 2^63-1; detached 2^63, u64::MAX",
    "wide": "attached 1, 2^32, 2^63-1; detached 2^63, u64::MAX",
}
# universe of spec/ManifestNamingOps.tla (Universe): 18 entries, the last one (multipart leftover)
# exists on a file system only; the "big" kinds are the entries of a pure V2 world
NE, NE_MEM = 18, 17
NBIG, NBIG_MEM = 10, 9
BIG_KINDS = "v2,det,stg2,stgd,tmp,mp"

MC = """SPECIFICATION Spec
CONSTANTS
  EmbName = "{emb}"
  Deviations = {devs}
  MaxEntries = {k}
  Stores = {{"lex", "unord", "local"}}
INVARIANTS TypeOK NamingLaws ResolveExact ListExact MigratePreserves LexListing
CHECK_DEADLOCK FALSE
"""
TRACE_CFG = """SPECIFICATION TraceSpec
CONSTANTS
  EmbName = "{emb}"
  Deviations = {{}}
INVARIANT Report
POSTCONDITION TraceAccepted
CHECK_DEADLOCK FALSE
"""
# (Open is taken whenever ExamineListed is; TLC reports it under a sub-expression location)
ACTIONS = ("Add", "DoMigrate", "ExamineListed", "ExamineLocal", "Finish", "FallbackAny")


def expected_counts(k, big_k):
    """Number of resolve / list / migrate events the driver must record for one embedding."""
    def subsets(n, nb):
        return sum(comb(n, j) for j in range(0, k + 1)) + sum(comb(nb, j) for j in range(k + 1, big_k + 1))

    def perms(n, nb):
        return sum(comb(n, j) * factorial(j) for j in range(0, k + 1)) + \
            sum(comb(nb, j) * factorial(j) for j in range(k + 1, big_k + 1))
    s_all, s_mem, p_mem = subsets(NE, NBIG), subsets(NE_MEM, NBIG_MEM), perms(NE_MEM, NBIG_MEM)
    return {"resolve": s_mem + p_mem + s_all, "list": 2 * s_mem + p_mem + 2 * s_all, "migrate": s_mem + s_all,
            "univ": 1, "entry": NE, "fmt": 48, "cmp": 2 * 24 * 24,
            "e2e_commit": 18, "e2e_latest": 21, "e2e_detached": 3}


def run(prop, tier, replay):
    t0 = time.time()
    out = vlib.Outcome(prop)
    seed = vlib.seed()
    assumptions = [
        "version numbers are decimal numerals in the specification (u64::MAX - v, 20 digit padding, the detached bit "
        "2^63 and name order are computed digit-wise); the driver uses the five embeddings listed in `embeddings`",
        "the exactness claim covers directories that hold one naming scheme (V1, or V2 with detached manifests) plus "
        "staging / temporary / multipart files; junk names, mixed V1+V2 directories (only legal during the "
        "non-concurrent migration) and detached manifests in V1 directories (rejected by the commit path) are "
        "recorded and counted under `out_of_scope` but not judged",
        "the listing order of the non-lexical store is forced by the harness object store; the readdir order of the "
        "local directory cannot be forced (the design model covers every order, the driver one per directory)",
        "object_store::memory::InMemory, LocalFileSystem and TLC are trusted",
    ]
    rot = ["dec", "low", "mid", "top", "wide"]
    if tier == "quick":
        k, big_k = 3, 4
        mc_runs = [(rot[seed % 5], 3)]
    else:
        k, big_k = 4, 5
        deep = {rot[seed % 5]}                 # 2.0 M states; the others at 3 entries (123 k states each)
        mc_runs = [(e, 4 if e in deep else 3) for e in rot]
    embs = list(EMBEDDINGS)
    if replay:
        case = json.load(open(replay)).get("case", {})
        embs = [case.get("embed", "low")]
        mc_runs = []
    # 1. model-check the design -------------------------------------------------------------------
    states = trans = 0
    mc_info = []

    def mc_one(run_):
        emb, mk = run_
        return emb, mk, vlib.tlc_mc(f"{prop}-mc-{emb}", "ManifestNaming", MC.format(emb=emb, devs="{}", k=mk),
                                    workers=6 if mk == 4 or len(mc_runs) == 1 else 2, timeout=3000, xmx="6g")

    def mc_asbuilt():
        # the code as found: the named deviation must break ResolveExact in the model (documents the finding)
        r = vlib.tlc_mc(f"{prop}-asbuilt", "ManifestNaming",
                        MC.format(emb="low", devs='{"V2InScanArm"}', k=2), workers=2, timeout=900, xmx="4g",
                        coverage=False, expect_violation=True)
        return {"deviation": "V2InScanArm", "violated_invariant": r["violated"], "wall_s": r["wall_s"]}
    # (the model runs proceed in the background while the implementation is driven and validated)
    mc_pool = cf.ThreadPoolExecutor(max_workers=6)
    mc_futs = [mc_pool.submit(mc_one, r) for r in mc_runs]
    asbuilt_fut = None if replay else mc_pool.submit(mc_asbuilt)
    # 2. rebuild the harness from /repo's working tree ----------------------------------------------
    binary, build_s = vlib.harness_build("vh_naming")
    # 3. drive the implementation, 4. validate ------------------------------------------------------
    wd = vlib.workdir(f"{prop}-traces")

    def one(emb):
        tf = os.path.join(wd, f"t_{emb}.ndjson")
        t1 = time.time()
        vlib.harness_run(binary, ["--out", tf, "--embed", emb, "--max-entries", k, "--big-max-entries", big_k,
                                  "--big-kinds", BIG_KINDS, "--seed", seed], timeout=1500)
        hs = time.time() - t1
        v = vlib.tlc_trace(f"{prop}-{emb}", "Trace_ManifestNaming", TRACE_CFG.format(emb=emb), tf,
                           timeout=3000, xmx="6g")
        return emb, tf, v, round(hs, 1)
    with cf.ThreadPoolExecutor(max_workers=5) as ex:
        results = list(ex.map(one, embs))
    exp = expected_counts(k, big_k)
    events = accepted = nontrivial = 0
    samples, per_emb, info_total, shapes_total = [], [], {}, {}
    exhaustive = True
    for emb, tf, v, hs in results:
        if not v["reports"]:
            raise vlib.ToolError(f"no REPORT from trace validation {emb}: {v['out']}")
        if not v["accepted"]:
            raise vlib.ToolError(f"trace {emb} not fully consumed: {v['out']}")
        rep = v["reports"][-1]
        cnt = rep["counts"]
        got = {o: cnt.get(o, 0) for o in exp}
        if got != exp or cnt.get("unknown", 0):
            exhaustive = False
            out.report({"kind": "incomplete-trace"},
                       f"event counts differ from the universe size ({emb}): got {got} expected {exp}", {"embed": emb})
        for o in ("parse", "detect", "detect_stg"):
            if cnt.get(o, 0) < 100:
                raise vlib.ToolError(f"operator probes missing in trace {emb}: {o}={cnt.get(o)}")
        for store, sh in rep["shapes"].items():
            for shape, n in sh.items():
                if n == 0:
                    raise vlib.ToolError(f"vacuous: no in-scope resolution on store {store} for a '{shape}' directory ({emb})")
                shapes_total[f"{store}/{shape}"] = shapes_total.get(f"{store}/{shape}", 0) + n
        events += rep["events"]
        accepted += cnt["scoped"] - cnt["bad"]
        nontrivial += cnt["scoped"] - cnt["bad"]
        for o, scopes in rep["info"].items():
            for s, pf in scopes.items():
                for verdict, n in pf.items():
                    key = f"{o}/{s}/{verdict}"
                    info_total[key] = info_total.get(key, 0) + n
        per_emb.append({"embedding": emb, "values": EMB_VALUES[emb], "events": rep["events"], "bad": cnt["bad"],
                        "harness_s": hs, "validation_s": v["wall_s"]})
        lines = open(tf).read().splitlines()
        for b in rep["bad"]:
            pos, op, cls, via = b[0], b[1], b[2], b[3]
            ev = json.loads(lines[pos - 1])
            out.report({"op": op, "store": cls[0], "via": via},
                       f"{op} on store '{cls[0]}' ({'/'.join(str(c) for c in cls[1:])}, embedding {emb}) does not return the "
                       f"highest published version; explained by deviation '{via}'; event={json.dumps(ev)[:400]}",
                       {"embed": emb, "event": ev, "class": cls, "via": via})
        if cnt["bad"] > len(rep["bad"]):
            print(f"  note: {cnt['bad']} failing events in trace {emb}, first {len(rep['bad'])} classified")
        if len(samples) < 5:
            pick = [x for x in lines if x.startswith('["resolve"')]
            samples.append({"embedding": emb, "events": [json.loads(x) for x in
                                                         (lines[0], pick[len(pick) // 2], pick[-1])]})
    mc_results = [f.result() for f in mc_futs]
    asbuilt = asbuilt_fut.result() if asbuilt_fut else None
    mc_pool.shutdown()
    for emb, mc_k, r in mc_results:
        if r["violated"]:
            out.report({"spec": "ManifestNaming", "invariant": r["violated"]},
                       f"the design-level model violates {r['violated']} for embedding {emb} (see {r['out']})",
                       {"embed": emb})
        zero = [a for a in ACTIONS if r["coverage"].get(a, 0) == 0]
        if zero and not r["violated"]:
            raise vlib.ToolError(f"vacuous model run ({emb}): actions never taken {zero}")
        states += r.get("distinct", 0)
        trans += r.get("generated", 0)
        mc_info.append({"embedding": emb, "max_entries": mc_k, "distinct": r.get("distinct"),
                        "generated": r.get("generated"), "depth": r.get("depth"), "wall_s": r["wall_s"]})
    rc = out.finish()
    vlib.write_evidence(prop, tier, "model_checking", {
        "states": states, "transitions": trans, "traces_validated_against_impl": accepted,
        "samples": samples, "evaluations": events, "distinct_nontrivial": nontrivial,
        "rule": "one event per (operation, store, directory content, listing order) or operator probe; arguments are "
                "distinct by construction (resolve/list/migrate counts are checked against the universe size computed "
                "from the spec constants); non-trivial = inside the scope of the claim and judged OK by "
                "Trace_ManifestNaming (out-of-scope events are counted separately)",
        "exhaustive": exhaustive,
        "bounds": {"entries_in_universe": NE, "max_entries_all_kinds": k, "max_entries_v2_world": big_k,
                   "listing_orders": "all permutations on the non-lexical store; store order on the lexical store; "
                                     "one readdir order per local directory",
                   "model_max_entries": max([mk for _, mk in mc_runs] or [0])},
        "embeddings": per_emb, "model_runs": mc_info, "asbuilt_model": asbuilt,
        "in_scope_resolutions_by_store_and_shape": shapes_total, "out_of_scope": info_total,
        "harness_build_s": build_s,
    }, time.time() - t0, len(out.violations), assumptions)
    return rc
