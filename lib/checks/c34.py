"""C34 -- row id sequences and the row id index (spec/RowIdSeq*.tla), plus the OffsetMap operator that
C15 reuses (spec/OffsetMapOps.tla; reported separately in the evidence, not part of C34's claim)."""
import concurrent.futures as cf
import hashlib
import itertools
import json
import os
import time
from math import comb, perm

import vlib

MC = """SPECIFICATION Spec
CONSTANTS
  Deviations = {{}}
  CostHole = {ch}
  CostBitDen = {cb}
  CostArr = {ca}
  K = {k}
  MaxLen = {maxlen}
  MaxPart = {maxpart}
  MaxSegs = {maxsegs}
  MaxDepth = {depth}
  QLen = {qlen}
  NP = {np}
  Mode = "{mode}"
INVARIANTS {invs}
CHECK_DEADLOCK FALSE
"""
INVS = {"seq": "TypeOK IterIsGhost QueriesAgree RechunkAgrees ChoiceSound",
        "index": "TypeOK IndexIsInverse",
        "offmap": "MapIsNthUndeleted"}
TRACE_CFG = """SPECIFICATION TraceSpec
CONSTANTS
  Deviations = {{}}
  CostHole = 4
  CostBitDen = 8
  CostArr = 2
  K = {k}
  EmbClass = "{cls}"
INVARIANT Report
POSTCONDITION TraceAccepted
CHECK_DEADLOCK FALSE
"""

U64 = 2 ** 64
# Order-preserving run embeddings of the abstract ids 0..7 into u64: id i stands for `widths[i]`
# consecutive ids starting at `starts[i]`.  u64::MAX itself is the tombstone value and not a legal row
# id, so no embedding reaches it.  force_hb: spans are small enough to build RangeWithHoles /
# RangeWithBitmap segments by hand.
EMBEDDINGS = {
    # every list is dense: Range / RangeWithBitmap / Array
    "dense": dict(starts=list(range(8)), widths=[1] * 8, force_hb=1, cls="plain"),
    # the same, straddling 2^32 (row-address fragment boundary, u32 offset encodings)
    "u32edge": dict(starts=[2 ** 32 - 3 + i for i in range(8)], widths=[1] * 8, force_hb=1, cls="plain"),
    # the last legal ids: top id is u64::MAX - 1
    "u64top": dict(starts=[U64 - 9 + i for i in range(8)], widths=[1] * 8, force_hb=1, cls="plain"),
    # stride 8: bitmaps with several bytes;  stride 32: sparse enough for SortedArray
    "stride8": dict(starts=[8 * i for i in range(8)], widths=[1] * 8, force_hb=1, cls="plain"),
    "stride32": dict(starts=[32 * i for i in range(8)], widths=[1] * 8, force_hb=1, cls="plain"),
    # adjacent ids, a u16-overflowing gap, a u32-overflowing gap: U16 / U32 / U64 array encodings
    "mixed": dict(starts=[0, 1, 2, 65541, 65542, 2 ** 40, 2 ** 40 + 1, 2 ** 40 + 2 ** 33], widths=[1] * 8,
                  force_hb=0, cls="plain"),
    # spans of 2^62 and more (size estimates near overflow)
    "huge": dict(starts=[0, 1, 2 ** 62, 2 ** 62 + 1, 2 ** 63, 2 ** 63 + 2, U64 - 3, U64 - 2], widths=[1] * 8,
                 force_hb=0, cls="huge"),
    # one id is a run of 40 consecutive ids (a second one of 60 when K = 8): long lists with few holes,
    # the only way to make from_slice pick RangeWithHoles
    "fat": dict(starts=[0, 1, 2, 42, 43, 44, 45, 105], widths=[1, 1, 40, 1, 1, 1, 60, 1], force_hb=1, cls="plain"),
}


# ------------------------------------------------------------------------------------------------
# the universes, mirrored from harness/src/bin/vh_rowidseq.rs (used only to know how many events a
# complete trace has)
def inj_lists(k, l):
    out = []

    def rec(cur):
        out.append(tuple(cur))
        if len(cur) == l:
            return
        for x in range(k):
            if x not in cur:
                cur.append(x)
                rec(cur)
                cur.pop()
    rec([])
    return out


def splits(xs):
    n = len(xs)
    out = [[xs]]
    for c in range(n + 1):
        out.append([xs[:c], xs[c:]])
    for c1 in range(n + 1):
        for c2 in range(c1, n + 1):
            out.append([xs[:c1], xs[c1:c2], xs[c2:]])
    return out


def ascending(xs):
    return all(a < b for a, b in zip(xs, xs[1:]))


def contiguous(emb, xs):
    return all(emb["starts"][a] + emb["widths"][a] == emb["starts"][b] for a, b in zip(xs, xs[1:]))


def n_nondec(vals, l):
    return sum(comb(vals + j - 1, j) for j in range(l + 1))


def n_del_lists(k):
    return 2 ** k + k * (k - 1) // 2 + k + k * (k - 1)


def add(d, op, n=1):
    d[op] = d.get(op, 0) + n


def query_counts(d, n, sel_max, rc_max, nparts, capped):
    add(d, "len")
    add(d, "get", n + 2)
    add(d, "serde")
    add(d, "slice", (n + 1) * (n + 2) // 2)
    add(d, "select", n_nondec(n + 2, sel_max))
    for j in range(rc_max + 1):
        for sizes in itertools.product(range(n + 2), repeat=j):
            s = sum(sizes)
            if capped and (s > n + 1 or s + 1 < n or (j == 3 and s != n)):
                continue
            for allow in (False, True):
                if capped and j == 3 and allow:
                    continue
                add(d, "rechunk")
                if nparts >= 2 and not allow:
                    add(d, "rechunk")


def expected_single(emb, k, l, sel_max, rc_max, full, shard, shards):
    d = {"univ": 1}
    for si, xs in enumerate(inj_lists(k, l)):
        if si % shards != shard:
            continue
        nv = 1
        if xs and ascending(xs):
            nv += (1 if contiguous(emb, xs) else 0) + (2 if emb["force_hb"] else 0) + 2
        n = len(xs)
        for _ in range(nv):
            add(d, "new")
            query_counts(d, n, sel_max, rc_max, 1, False)
            add(d, "delete", n_del_lists(k) if full else 2 ** k)
            add(d, "mask", sum(perm(n, j) for j in range(n + 1)))
    return d


def expected_multi(emb, k, l, sel_max, rc_max, shard, shards, only_full3=0):
    d = {"univ": 1}
    states = [[]]
    for xs in inj_lists(k, l):
        states.extend(splits(xs))
    for si, parts in enumerate(states):
        if si % shards != shard:
            continue
        if only_full3 and not (len(parts) == 3 and all(parts)):
            continue
        nv = 1 + (1 if any(p and ascending(p) for p in parts) else 0) + (1 if any(p for p in parts) else 0)
        n = sum(len(p) for p in parts)
        for _ in range(nv):
            add(d, "new")
            query_counts(d, n, sel_max, rc_max, len(parts), True)
            nd = 2 ** k
            nm = 2 ** n + n * (n - 1) // 2
            add(d, "delete", nd)
            add(d, "mask", nm)
            add(d, "rechunk", nd + nm)
    return d


def expected_index(k, p, l):
    opts = []
    for xs in inj_lists(k, p):
        for m in range(2 ** len(xs)):
            dv = [i for i in range(len(xs)) if (m >> i) & 1]
            opts.append((xs, frozenset(x for i, x in enumerate(xs) if i not in dv)))
    # explicit stack walk (same pruning as the driver)
    total = 0
    stack = [(0, 0, frozenset(), False)]
    while stack:
        depth, used, lives, has_split = stack.pop()
        total += 2 if has_split else 1
        if depth == 3:
            continue
        for xs, live in opts:
            if used + len(xs) > l or (live & lives):
                continue
            stack.append((depth + 1, used + len(xs), lives | live, has_split or len(xs) >= 2))
    return {"univ": 1, "index": total}


def expected_offmap(np_):
    total = 0
    for k in range(np_ + 1):          # |dv| = k
        live = np_ - k
        nsub = 2 ** live
        reprs = 3 if k == 0 else 2
        dups = live * 2 ** (live - 1) if live > 0 else 0
        total += comb(np_, k) * (nsub * reprs + dups)
    return {"univ": 1, "map_offset": total}


# ------------------------------------------------------------------------------------------------
def plan(tier):
    """Model-checking configurations and driver runs of a tier."""
    if tier == "quick":
        mcs = [("seq", dict(mode="seq", k=3, maxlen=3, maxpart=2, maxsegs=3, depth=3, np=4, ch=4, cb=8, ca=2)),
               ("seq-altcost", dict(mode="seq", k=3, maxlen=3, maxpart=3, maxsegs=2, depth=3, np=4, ch=2, cb=2, ca=1)),
               ("index", dict(mode="index", k=3, maxlen=3, maxpart=2, maxsegs=2, depth=3, np=4, ch=4, cb=8, ca=2)),
               ("offmap", dict(mode="offmap", k=3, maxlen=3, maxpart=2, maxsegs=2, depth=7, np=6, ch=4, cb=8, ca=2))]
        runs = [dict(section="single", emb="dense", k=6, maxlen=4, sel_max=2, rc_max=1, full=1, shard=sh, shards=2)
                for sh in range(2)]
        for e in EMBEDDINGS:
            if e != "dense":
                runs.append(dict(section="single", emb=e, k=5, maxlen=4, sel_max=2, rc_max=1, full=0, shard=0, shards=1))
        for e in ("dense", "fat"):
            for sh in range(2):
                runs.append(dict(section="multi", emb=e, k=4, maxlen=3, sel_max=2, rc_max=3, shard=sh, shards=2))
        runs.append(dict(section="multi", emb="dense", k=4, maxlen=4, sel_max=2, rc_max=3, shard=0, shards=1, only_full3=1))
        for e in ("dense", "fat", "mixed", "u64top"):
            runs.append(dict(section="chain", emb=e, k=6, maxlen=5, chains=600))
        for e, fids in (("dense", "0,1,2"), ("u32edge", "7,4294967294,3"), ("huge", "2,0,1")):
            runs.append(dict(section="index", emb=e, k=4, maxlen=4, maxpart=2, fids=fids))
        runs.append(dict(section="offmap", emb="dense", k=4, np=8))
    else:
        mcs = [("seq", dict(mode="seq", k=4, maxlen=4, maxpart=3, maxsegs=3, depth=3, np=4, ch=4, cb=8, ca=2)),
               ("seq-altcost", dict(mode="seq", k=4, maxlen=4, maxpart=3, maxsegs=3, depth=3, np=4, ch=2, cb=2, ca=1)),
               ("seq-deep", dict(mode="seq", k=4, maxlen=4, maxpart=2, maxsegs=3, depth=4, np=4, ch=4, cb=8, ca=2)),
               ("index", dict(mode="index", k=3, maxlen=3, maxpart=2, maxsegs=3, depth=3, np=4, ch=4, cb=8, ca=2)),
               ("offmap", dict(mode="offmap", k=3, maxlen=3, maxpart=2, maxsegs=2, depth=9, np=8, ch=4, cb=8, ca=2))]
        runs = []
        for e in EMBEDDINGS:
            full = e in ("dense", "fat")
            big = e == "dense"
            for sh in range(8 if big else 3):
                runs.append(dict(section="single", emb=e, k=7 if big else 6, maxlen=5, sel_max=3 if full else 2,
                                 rc_max=2 if full else 1, full=int(full), shard=sh, shards=8 if big else 3))
        for e in ("dense", "fat", "stride32"):
            for sh in range(4):
                runs.append(dict(section="multi", emb=e, k=4, maxlen=4, sel_max=2, rc_max=3, shard=sh, shards=4))
        for e in EMBEDDINGS:
            runs.append(dict(section="chain", emb=e, k=7, maxlen=6, chains=3000))
        for e, fids in (("dense", "0,1,2"), ("u32edge", "7,4294967294,3"), ("huge", "2,0,1"), ("stride32", "1,0,9")):
            runs.append(dict(section="index", emb=e, k=4, maxlen=5, maxpart=3, fids=fids))
        runs.sort(key=lambda r: 0 if r["section"] == "single" else 1)   # longest first
        runs.append(dict(section="offmap", emb="dense", k=4, np=8))
    return mcs, runs


def expected(r):
    emb = EMBEDDINGS[r["emb"]]
    s = r["section"]
    if s == "single":
        return expected_single(emb, r["k"], r["maxlen"], r["sel_max"], r["rc_max"], r["full"], r["shard"], r["shards"])
    if s == "multi":
        return expected_multi(emb, r["k"], r["maxlen"], r["sel_max"], r["rc_max"], r["shard"], r["shards"],
                              r.get("only_full3", 0))
    if s == "index":
        return expected_index(r["k"], r["maxpart"], r["maxlen"])
    if s == "offmap":
        return expected_offmap(r["np"])
    return None


OFFMAP_OPS = ("map_offset",)
KIND_NAMES = ["Range", "RangeWithHoles", "RangeWithBitmap", "SortedArray", "Array"]


def run(prop, tier, replay):
    t0 = time.time()
    # many JVMs run side by side on a shared machine: keep their helper thread pools small
    os.environ.setdefault("JAVA_TOOL_OPTIONS", "-XX:ParallelGCThreads=2 -XX:CICompilerCount=2")
    mutate = os.environ.get("C34_MUTATE")   # binding demonstration only (driver-side emulated mutations)
    out = vlib.Outcome(prop)
    assumptions = [
        "row ids are distinct and < u64::MAX (u64::MAX is the tombstone value); the sequence API's documented "
        "preconditions are respected: select() gets sorted offsets, slice() stays inside the sequence",
        "the implementation's u64 domain is reached through the listed order-preserving run embeddings of a small "
        "abstract id universe; results are mapped back to abstract ids by the driver (an id outside the embedding or a "
        "broken run is reported as -2 and rejected by the specification)",
        "protobuf encode/decode (prost) and roaring bitmaps are trusted",
    ]
    mcs, runs = plan(tier)
    binary, build_s = vlib.harness_build("vh_rowidseq")
    wd = vlib.workdir(f"{prop}-traces")

    # 1. model-check the design and 2.-4. drive + validate the implementation, side by side ---------
    def model(name_cfg):
        name, c = name_cfg
        cfg = MC.format(invs=INVS[c["mode"]], qlen=2 if tier == "quick" else 3, **c)
        r = vlib.tlc_mc(f"{prop}-{name}", "RowIdSeq", cfg, workers=3 if tier == "quick" else 4, timeout=3000 if tier != "quick" else 900, xmx="6g")
        return name, c, cfg, r

    def one(i_run):
        i, r = i_run
        emb = EMBEDDINGS[r["emb"]]
        tf = os.path.join(wd, f"t{i}.ndjson")
        k = r["k"]
        args = ["--section", r["section"], "--k", k, "--maxlen", r.get("maxlen", 4), "--emb", r["emb"],
                "--class", emb["cls"], "--starts", ",".join(str(x) for x in emb["starts"]),
                "--widths", ",".join(str(x) for x in emb["widths"]), "--force-hb", emb["force_hb"],
                "--out", tf, "--seed", vlib.seed() * 1000 + i]
        for a in ("sel_max", "rc_max", "shard", "shards", "full", "chains", "maxpart", "fids", "np", "only_full3"):
            if a in r:
                args += ["--" + a.replace("_", "-"), r[a]]
        if mutate:
            args += ["--mutate", mutate]
        vlib.harness_run(binary, args)
        cfg = TRACE_CFG.format(k=k, cls=emb["cls"])
        v = vlib.tlc_trace(f"{prop}-{i}", "Trace_RowIdSeq", cfg, tf, timeout=3000, xmx="5g" if tier == "quick" else "6g")
        return i, r, tf, v

    states = trans = 0
    mc_info = []
    with cf.ThreadPoolExecutor(max_workers=2) as mex, cf.ThreadPoolExecutor(max_workers=7) as tex:
        mfut = [mex.submit(model, m) for m in mcs]
        results = list(tex.map(one, list(enumerate(runs))))
        for f in mfut:
            name, c, cfg, r = f.result()
            if r["violated"]:
                out.report({"spec": "RowIdSeq", "mode": c["mode"], "invariant": r["violated"]},
                           f"the design-level model violates {r['violated']} (see {r['out']})", {"cfg": cfg})
            want = {"seq": ("Next",), "index": ("Next",), "offmap": ("Next",)}[c["mode"]]
            zero = [a for a in want if r["coverage"].get(a, 0) == 0]
            if zero or r.get("distinct", 0) < 10:
                raise vlib.ToolError(f"vacuous model run {name}: {zero} distinct={r.get('distinct')}")
            info = {"cfg": name, "constants": c, "distinct": r.get("distinct"), "generated": r.get("generated"),
                    "depth": r.get("depth"), "wall_s": r["wall_s"]}
            mc_info.append(info)
            if c["mode"] != "offmap":
                states += r.get("distinct", 0)
                trans += r.get("generated", 0)

    # 5. classify ---------------------------------------------------------------------------------
    events = accepted = nontrivial = 0
    off_events = off_accepted = 0
    exhaustive = True
    samples, off_samples = [], []
    ops_seen = {}
    kinds_seen = [0] * 5
    kinds_by_emb = {}
    chain_lines = set()
    chain_total = 0
    per_run = []
    for i, r, tf, v in results:
        if not v["reports"]:
            raise vlib.ToolError(f"no REPORT from trace validation {i}: {v['out']}")
        if not v["accepted"]:
            raise vlib.ToolError(f"trace {i} not fully consumed: {v['out']}")
        rep = v["reports"][-1]
        got = {k_: n for k_, n in rep["counts"].items() if n}
        exp = expected(r)
        if exp is not None:
            exp = {k_: n for k_, n in exp.items() if n}
            if got != exp:
                exhaustive = False
                out.report({"kind": "incomplete-trace", "section": r["section"]},
                           f"event counts differ from the universe size: got {got} expected {exp}", {"run": r})
        elif got.get("new", 0) != r["chains"]:
            out.report({"kind": "incomplete-trace", "section": r["section"]},
                       f"{got.get('new', 0)} scenarios recorded, {r['chains']} requested", {"run": r})
        nbad = sum(b[2] for b in rep["bad"])
        is_off = r["section"] == "offmap"
        if is_off:
            off_events += rep["events"]
            off_accepted += rep["events"] - nbad
        else:
            events += rep["events"]
            accepted += rep["events"] - nbad
            nontrivial += rep["nontrivial"]
        for k_, n in got.items():
            ops_seen[k_] = ops_seen.get(k_, 0) + n
        kinds_seen = [a | b for a, b in zip(kinds_seen, rep["kinds"])]
        kb = kinds_by_emb.setdefault(r["emb"], [0] * 5)
        kinds_by_emb[r["emb"]] = [a | b for a, b in zip(kb, rep["kinds"])]
        per_run.append({"run": r, "events": rep["events"], "rejected": nbad, "validate_s": v["wall_s"]})
        lines = None
        for op, cls, count, pos in rep["bad"]:
            if lines is None:
                lines = open(tf).read().splitlines()
            # the scenario: from the last "new" before the event up to the event
            j = pos - 1
            while j > 0 and not lines[j].startswith('["new"'):
                j -= 1
            scen = [json.loads(x) for x in lines[max(j, pos - 12):pos]]
            out.report({"op": op, "class": cls},
                       f"{op} {cls}: {count} recorded result(s) differ from the plain-list semantics "
                       f"(embedding {r['emb']}, section {r['section']}); first: {lines[pos - 1]}",
                       {"run": r, "embedding": EMBEDDINGS[r["emb"]] | {"starts": [str(x) for x in EMBEDDINGS[r["emb"]]["starts"]]},
                        "scenario": scen, "count": count})
        if r["section"] == "chain":   # random scenarios: count the distinct ones
            with open(tf) as f:
                for line in f:
                    if line.startswith('["univ"'):
                        continue
                    chain_total += 1
                    chain_lines.add(hashlib.blake2b((r["emb"] + line).encode(), digest_size=8).digest())
        want = 3 if r["section"] in ("single", "multi", "chain") else 2
        tgt = off_samples if is_off else samples
        if len([s for s in tgt if s["run"]["section"] == r["section"]]) < 1:
            with open(tf) as f:
                ls = f.read().splitlines()
            picks = [ls[0]] + [ls[(len(ls) * q) // (want + 1)] for q in range(1, want + 1)]
            tgt.append({"run": r, "events": [json.loads(x) for x in picks]})
    # vacuity: every operator class and every encoding must have been exercised
    need = {"new", "len", "get", "slice", "select", "serde", "rechunk", "extend", "delete", "mask", "index", "map_offset"}
    missing = sorted(need - set(ops_seen))
    if missing:
        raise vlib.ToolError(f"vacuous run: operators never exercised: {missing}")
    if not all(kinds_seen):
        raise vlib.ToolError(f"vacuous run: segment encodings never observed: "
                             f"{[KIND_NAMES[i] for i, x in enumerate(kinds_seen) if not x]}")
    rc = out.finish()
    # the non-trivial count: exhaustive sections have distinct arguments by construction; for the random chains
    # only distinct lines are counted
    distinct_nontrivial = nontrivial - (chain_total - len(chain_lines))
    vlib.write_evidence(prop, tier, "model_checking", {
        "states": states, "transitions": trans, "traces_validated_against_impl": accepted,
        "samples": samples, "evaluations": events, "distinct_nontrivial": max(distinct_nontrivial, 0),
        "rule": "sections single / multi / index enumerate their universe completely (every event has distinct "
                "arguments by construction; the per-operator counts are checked against the universe size computed "
                "independently in lib/checks/c34.py); section chain is seeded-random (duplicates are subtracted by "
                "hashing the recorded lines). Non-trivial = the value operated on is non-empty (index: at least one live id), "
                "as counted by Trace_RowIdSeq",
        "exhaustive": exhaustive, "model_runs": mc_info,
        "embeddings": {n: {"starts": [str(x) for x in e["starts"]], "widths": e["widths"], "class": e["cls"]}
                       for n, e in EMBEDDINGS.items()},
        "encodings_observed": {KIND_NAMES[i]: bool(x) for i, x in enumerate(kinds_seen)},
        "encodings_observed_by_embedding": {e: [KIND_NAMES[i] for i, x in enumerate(ks) if x] for e, ks in kinds_by_emb.items()},
        "operators_exercised": ops_seen, "runs": per_run, "harness_build_s": build_s,
        "random_scenarios": {"events": chain_total, "distinct_events": len(chain_lines)},
        "offset_map_C15a": {"note": "OffsetMapper::map_offset vs OffsetMapOps!NthUndeleted: every deletion vector over 8 "
                                    "physical rows x every increasing offset list (plus every list with one repeated "
                                    "offset) x Set/Bitmap/NoDeletions representations; not part of C34's claim",
                            "evaluations": off_events, "accepted": off_accepted, "exhaustive": True,
                            "samples": off_samples,
                            "model_run": [m for m in mc_info if m["cfg"] == "offmap"]},
        "mutation": mutate,
    }, time.time() - t0, len(out.violations), assumptions)
    return rc
