"""C36 -- the namespace catalog behaves as a hierarchical map
(spec/Namespace.tla, spec/Trace_Namespace.tla, harness/src/bin/vh_namespace.rs).

 1. TLC model-checks the intended design (Deviations = {}): the manifest-row design answers exactly as the
    map for every history up to the bound, per name set and mode.
 2. Each as-built deviation is confirmed to break the named property on the model; its counterexample is
    exported as a witness scenario.
 3. TLC generates histories (one per distinct final state of the exhaustive runs; seeded simulation of the
    as-built model for longer ones); they are replayed on a real DirectoryNamespace in dir / manifest /
    dual mode and every step is judged by Trace_Namespace.
"""
import concurrent.futures as cf
import itertools
import json
import os
import random
import re
import shutil
import time

import vlib

MC_CFG = """SPECIFICATION Spec
CONSTANTS
  NameSet = "{names}"
  Mode = "{mode}"
  MaxSteps = {steps}
  MaxLen = {maxlen}
  OpKinds = {ops}
  Deviations = {devs}
VIEW view
{invs}
{props}
CHECK_DEADLOCK FALSE
"""
ALL_INVS = "INVARIANTS TypeOK CatalogIsMap UnfaithfulNamesRejected PagingCoversOnce"
ALL_PROPS = "PROPERTIES OperationsAreLocal"
TRACE_CFG = """SPECIFICATION TraceSpec
INVARIANT Report
POSTCONDITION TraceAccepted
CHECK_DEADLOCK FALSE
"""
MUT = ["ns", "table", "register"]
ALL_OPS = ["ns", "table", "register", "read", "list", "reopen"]
OP_ACTIONS = {"ns": ("CreateNs", "DropNs"), "table": ("CreateTable", "DropTable"), "register": ("RegisterTable",),
              "read": ("Read",), "list": ("List",), "reopen": ("Reopen",)}
AS_BUILT_DEVS = ["DelimiterNameAccepted", "QuoteNameInterpolated", "KindBlindLookup", "PageTruncatedNoToken", "PathEncodingMismatch"]
# (deviation, property it must break on the model (witness-printing variant), name set, mode, op kinds, steps)
AS_BUILT = [
    ("DelimiterNameAccepted", "CatalogIsMapW", "dollar", "manifest", MUT, 3),
    ("DelimiterNameAccepted", "OperationsAreLocalW", "dollar", "manifest", MUT, 3),
    ("DelimiterNameAccepted", "UnfaithfulNamesRejectedW", "dollar", "manifest", MUT, 3),
    ("QuoteNameInterpolated", "CatalogIsMapW", "quote", "manifest", MUT, 3),
    ("QuoteNameInterpolated", "OperationsAreLocalW", "quote", "manifest", MUT, 3),
    ("KindBlindLookup", "CatalogIsMapW", "plain", "manifest", ["ns", "table"], 3),
    ("PageTruncatedNoToken", "PagingCoversOnceW", "plain", "dual", ["table", "list"], 3),
    ("PathEncodingMismatch", "UnfaithfulNamesRejectedW", "path", "dir", ["table"], 2),
    ("PathEncodingMismatch", "CatalogIsMapW", "uni", "manifest", ["table"], 2),
]
TOKEN = {"U+00E9": "é"}


def tla_set(xs):
    return "{" + ", ".join(json.dumps(x) for x in xs) + "}"


def cfg(names, mode, steps, ops, devs=(), maxlen=2, invs=ALL_INVS, props=ALL_PROPS):
    return MC_CFG.format(names=names, mode=mode, steps=steps, maxlen=maxlen, ops=tla_set(ops), devs=tla_set(devs),
                         invs=invs, props=props)


# ---------------------------------------------------------------------------------------------
# histories -> driver scenarios

def name_of(tokens):
    return "".join(TOKEN.get(t, t) for t in tokens)


def id_of(ident):
    return [name_of(n) for n in ident]


PLAIN = re.compile(r"^[a-z0-9_]+$")


def hist_to_scenario(hist, sid, mode, source, rnd):
    steps = []
    names = set()
    for st in hist:
        s = {"op": st["op"]}
        if "id" in st and st["op"] != "reopen":
            s["id"] = id_of(st["id"])
            names.update(s["id"])
        if "src" in st:
            s["src"] = id_of(st["src"])
            names.update(s["src"])
        if "limit" in st:
            s["limit"] = st["limit"]
        steps.append(s)
    names = sorted(names)
    # ids whose "$"-joined text coincides (the delimiter of ManifestNamespace::build_object_id)
    universe = [list(t) for k in (1, 2, 3) for t in itertools.product(names, repeat=k)]
    by_text = {}
    for ident in universe:
        by_text.setdefault("$".join(ident), []).append(ident)
    alias = [[a, b] for grp in by_text.values() if len(grp) > 1 for a in grp for b in grp if a != b]
    mentioned = []
    for s in steps:
        for key in ("id", "src"):
            if key in s and s[key] and s[key] not in mentioned:
                mentioned.append(s[key])
    partners = [b for a, b in alias if a in mentioned]
    roots = [[n] for n in names]
    probe_ids = []
    for ident in mentioned + partners + roots:
        if ident not in probe_ids:
            probe_ids.append(ident)
    probe_ids = probe_ids[:9]
    paths = [[]]
    for ident in probe_ids:
        for p in (ident[:-1], ident if len(ident) <= 2 else None):
            if p is not None and p not in paths:
                paths.append(p)
    list_paths = [s["id"] for s in steps if s["op"] in ("list_tables", "list_ns")]
    paths = [p for p in paths if p in list_paths or p == []] + [p for p in paths if p not in list_paths and p != []]
    paths = paths[:4]
    meta = {"special": [n for n in names if not PLAIN.match(n)],
            "quoted": [n for n in names if "'" in n], "dollar": [n for n in names if "$" in n],
            "slashed": [n for n in names if "/" in n], "nonascii": [n for n in names if not n.isascii()],
            "alias": alias}
    return {"id": sid, "source": source, "mode": mode, "opt": rnd.random() < 0.15, "meta": meta,
            "probe": {"tables": probe_ids, "ns": [i for i in probe_ids if len(i) <= 2], "paths": paths},
            "steps": steps}


def features(hist):
    fs = set()
    for st in hist:
        ident = st.get("id", [])
        kinds = set()
        for n in ident:
            kinds.add("$" if "$" in n else "'" if "'" in n else "/" if "/" in n else "." if "." in n else
                      "u" if any(t in TOKEN for t in n) else "p")
        fs.add((st["op"], len(ident), "".join(sorted(kinds))))
    return fs


def pick(hists, cap, rnd):
    """Feature-covering sample: histories that add an unseen (feature, feature) pair first, then random fill."""
    if len(hists) <= cap:
        return list(hists), True
    order = list(range(len(hists)))
    rnd.shuffle(order)
    seen, chosen, rest = set(), [], []
    for i in order:
        fs = features(hists[i])
        pairs = {(a, b) for a in fs for b in fs if a <= b}
        if pairs - seen and len(chosen) < cap * 2 // 3:
            seen |= pairs
            chosen.append(i)
        else:
            rest.append(i)
    chosen += rest[: cap - len(chosen)]
    return [hists[i] for i in chosen], False


# ---------------------------------------------------------------------------------------------

def run(prop, tier, replay):
    t0 = time.time()
    rnd = random.Random(vlib.seed())
    out = vlib.Outcome(prop)
    quick = tier == "quick"
    assumptions = [
        "names are drawn from {a, b, a$b, a'b, a' OR 'a'='a, a.b, a/b, e-acute}; namespace paths of depth <= 2; page limits {1, 2, none}",
        "local file system store; one mode per scenario (no migration between modes); inline optimisation of the __manifest table is a "
        "seeded per-scenario choice (15% on)",
        "listings are paged by the protocol documented on ListTablesRequest::page_token (follow the response's token until it is absent); "
        "a page longer than `limit` is counted, not reported",
        "left open by the property and accepted either way (counted): create / register under a missing parent namespace; refusal of a name "
        "with special characters when nothing changes; idempotent create of an existing table / drop of an absent one; listing a path that "
        "is not a namespace; in dual mode a deregistered root table stays visible through the directory fallback",
        "table locations are compared relative to the catalog root; describe_table must return the location the create / register call returned",
    ]
    pool = cf.ThreadPoolExecutor(max_workers=6)
    phases = {}
    # 0. harness build (other phases run meanwhile) ---------------------------------------------------
    fut_build = pool.submit(vlib.harness_build, "vh_namespace")

    # 1. model-check the intended design ------------------------------------------------------------------
    if quick:
        mc_runs = [("dollar-manifest", cfg("dollar", "manifest", 3, MUT), MUT),
                   ("quote-dual", cfg("quote", "dual", 3, MUT), MUT),
                   ("path-dir", cfg("path", "dir", 3, ["table", "list", "reopen"]), ["table", "list", "reopen"]),
                   ("uni-dual-list", cfg("uni", "dual", 3, ["table", "list", "reopen"]), ["table", "list", "reopen"]),
                   ("plain-manifest-all", cfg("plain", "manifest", 3, ALL_OPS), ALL_OPS)]
        gen_from_mc = {"dollar-manifest": 60, "quote-dual": 40, "path-dir": 30, "uni-dual-list": 40, "plain-manifest-all": 40}
    else:
        mc_runs = [("dollar-manifest", cfg("dollar", "manifest", 4, MUT), MUT),
                   ("dollar-dual", cfg("dollar", "dual", 4, MUT), MUT),
                   ("quote-manifest", cfg("quote", "manifest", 4, MUT), MUT),
                   ("quote-dual", cfg("quote", "dual", 3, ALL_OPS), ALL_OPS),
                   ("path-dir", cfg("path", "dir", 4, ["table", "list", "reopen"]), ["table", "list", "reopen"]),
                   ("path-dual", cfg("path", "dual", 4, ["table", "register", "list"]), ["table", "register", "list"]),
                   ("uni-dual-list", cfg("uni", "dual", 4, ["table", "list", "reopen"]), ["table", "list", "reopen"]),
                   ("uni-manifest", cfg("uni", "manifest", 4, MUT), MUT),
                   ("plain-manifest-all", cfg("plain", "manifest", 4, ALL_OPS), ALL_OPS),
                   ("plain-deep", cfg("plain", "manifest", 4, MUT, maxlen=3), MUT),
                   ("mixed-manifest", cfg("mixed", "manifest", 3, MUT), MUT)]
        gen_from_mc = {n: 250 for n, _, _ in mc_runs}

    def with_gen(c):
        return c.replace(ALL_INVS, ALL_INVS + " GenPrint")
    fut_mc = {name: pool.submit(vlib.tlc_mc, f"{prop}-{name}", "Namespace", with_gen(c), 4, 2400, True, None, "6g")
              for name, c, _ in mc_runs}

    # 1b. the as-built deviations break the named property on the model ---------------------------------------
    fut_dev = {}
    for dev, inv, names, mode, ops, steps in AS_BUILT:
        isprop = inv == "OperationsAreLocalW"
        c = cfg(names, mode, steps, ops, devs=[dev], invs="INVARIANTS TypeOK" + ("" if isprop else " " + inv),
                props="PROPERTIES " + inv if isprop else "")
        fut_dev[(dev, inv)] = pool.submit(vlib.tlc_mc, f"{prop}-dev-{dev}-{inv}", "Namespace", c, 1, 900, False, None, "4g")

    # 2. longer histories: seeded simulation of the as-built model (no property attached: generation only) --------
    def gen(name, c, simulate):
        g = c.replace(ALL_INVS, "INVARIANTS GenPrint").replace(ALL_PROPS, "")
        return vlib.tlc_gen(f"{prop}-{name}", "Namespace", g, tag="SCN", workers=1, timeout=1500, simulate=simulate, xmx="4g")
    depth = 5 if quick else 7
    nsim = 45 if quick else 400
    sims = []
    for names, modes in (("dollar", ("manifest", "dual")), ("quote", ("manifest", "dual")), ("path", ("dir", "dual", "manifest")),
                         ("uni", ("dir", "dual", "manifest")), ("mixed", ("manifest", "dual")), ("plain", ("dir", "dual"))):
        for mode in modes:
            ops = ["table", "list", "reopen", "read"] if mode == "dir" else ALL_OPS
            sims.append((f"s-{names}-{mode}", cfg(names, mode, depth, ops, devs=AS_BUILT_DEVS, maxlen=2 if quick else 3),
                         f"num={nsim}", mode, nsim))
    fut_gen = {name: pool.submit(gen, name, c, sim) for name, c, sim, _, _ in sims}

    # 3. collect scenarios ------------------------------------------------------------------------------------------
    mc_results = {name: fut_mc[name].result() for name, _, _ in mc_runs}
    phases["model_checked"] = round(time.time() - t0, 1)
    scenarios, gen_info = [], []
    mode_of = {name: re.search(r'Mode = "(\w+)"', c).group(1) for name, c, _ in mc_runs}
    for name, cap in gen_from_mc.items():
        hists = vlib._printed(open(mc_results[name]["out"]).read(), "SCN")
        if not hists:
            raise vlib.ToolError(f"TLC generated no scenario ({name})")
        uniq = list({json.dumps(h, sort_keys=True): h for h in hists}.values())
        chosen, complete = pick(uniq, cap, rnd)
        gen_info.append({"gen": name, "mode": "one history per distinct final state", "histories": len(hists),
                         "distinct": len(uniq), "replayed": len(chosen)})
        for h in chosen:
            scenarios.append(hist_to_scenario(h, len(scenarios) + 1, mode_of[name], name, rnd))
    for name, c, sim, mode, cap in sims:
        hists, stats = fut_gen[name].result()
        if not hists:
            raise vlib.ToolError(f"TLC generated no scenario ({name})")
        uniq = list({json.dumps(h, sort_keys=True): h for h in hists}.values())
        chosen, _ = pick(uniq, cap, rnd)
        gen_info.append({"gen": name, "mode": "simulate " + sim + f" depth {depth} (as-built model)", "histories": len(hists),
                         "distinct": len(uniq), "replayed": len(chosen), "tlc": stats})
        for h in chosen:
            scenarios.append(hist_to_scenario(h, len(scenarios) + 1, mode, name, rnd))
    dev_info = []
    for (dev, inv), fut in fut_dev.items():
        r = fut.result()
        wit = vlib._printed(open(r["out"]).read(), "WIT")
        mode = [a[3] for a in AS_BUILT if a[0] == dev and a[1] == inv][0]
        dev_info.append({"deviation": dev, "expected_to_break": inv, "broke": r["violated"], "distinct": r.get("distinct"),
                         "witness": wit[0] if wit else None})
        for h in wit[:1]:
            scenarios.append(hist_to_scenario(h, len(scenarios) + 1, mode, f"witness:{dev}:{inv}", rnd))
    phases["scenarios_ready"] = round(time.time() - t0, 1)

    wd = vlib.workdir(f"{prop}-traces")
    scn_file = os.path.join(wd, "scenarios.ndjson")
    with open(scn_file, "w") as f:
        for s in scenarios:
            f.write(json.dumps(s, ensure_ascii=False) + "\n")
    binary, build_s = fut_build.result()
    phases["built"] = round(time.time() - t0, 1)
    nshards = 6 if quick else 8
    scratch = os.path.join(vlib.WORK, f"namespace-scratch-{os.getpid()}")

    def shard(k):
        tf = os.path.join(wd, f"t{k}.ndjson")
        vlib.harness_run(binary, ["--scenarios", scn_file, "--out", tf, "--scratch", f"{scratch}-{k}", "--shard", k, "--shards", nshards],
                         timeout=3000)
        shutil.rmtree(f"{scratch}-{k}", ignore_errors=True)
        v = vlib.tlc_trace(f"{prop}-{k}", "Trace_Namespace", TRACE_CFG, tf, timeout=3000, xmx="4g")
        return tf, v
    fut_shards = [pool.submit(shard, k) for k in range(nshards)]

    # 4. judge ------------------------------------------------------------------------------------------------------
    states = trans = 0
    mc_info = []
    for name, c, ops in mc_runs:
        r = mc_results[name]
        if r["violated"]:
            out.report({"spec": "Namespace", "invariant": r["violated"]},
                       f"the intended design violates {r['violated']} (see {r['out']})", {"cfg": c})
        zero = [a for k in ops for a in OP_ACTIONS[k] if r["coverage"].get(a, 0) == 0]
        if zero:
            raise vlib.ToolError(f"vacuous model run {name}: actions never taken {zero}")
        states += r.get("distinct", 0)
        trans += r.get("generated", 0)
        mc_info.append({"cfg": name, "distinct": r.get("distinct"), "generated": r.get("generated"), "depth": r.get("depth"),
                        "wall_s": r["wall_s"]})
    for d in dev_info:
        if d["broke"] != d["expected_to_break"]:
            raise vlib.ToolError(f"as-built deviation {d['deviation']} does not break {d['expected_to_break']} on the model "
                                 f"(got {d['broke']}): the finding signature is no longer tied to the specification")
    counts, events, bad_scn, samples = {}, 0, set(), []
    for k, fut in enumerate(fut_shards):
        tf, v = fut.result()
        if not v["reports"] or not v["accepted"]:
            raise vlib.ToolError(f"trace validation did not complete: {v['out']}")
        rep = v["reports"][-1]
        events += rep["events"]
        for kk, n in rep["counts"].items():
            counts[kk] = counts.get(kk, 0) + n
        lines = None
        for b in rep["bad"]:
            pos, scn, i, opn, inv, what, cause, call = b
            bad_scn.add(scn)
            if lines is None:
                lines = open(tf).read().splitlines()
            ev = json.loads(lines[pos - 1])
            scenario = scenarios[scn - 1]
            stp = json.dumps(ev.get("step", {}), ensure_ascii=False)
            out.report({"invariant": inv, "class": [what, cause]},
                       f"{inv}: {what} ({cause}) seen by {call} after step {i} {stp} -> {ev.get('res')} "
                       f"in {scenario['mode']} mode (scenario {scn}, {scenario['source']})",
                       {"scenario": scenario, "step": i, "invariant": inv, "what": what, "cause": cause, "call": call, "event": ev})
        if k == 0:
            ls = open(tf).read().splitlines()
            samples = [json.loads(x) for x in ls[:3]]
    need = ["create_ns", "drop_ns", "create_table", "create_empty_table", "drop_table", "register_table", "deregister_table",
            "list_tables", "list_ns", "reopen", "dir", "manifest", "dual", "probes_judged", "probes_existing", "paged_listings",
            "special_name_steps", "special_name_accepted", "ok_steps"]
    for n in need:
        if counts.get(n, 0) == 0:
            raise vlib.ToolError(f"vacuous history run: no {n} was judged ({counts})")
    accepted = len(scenarios) - len(bad_scn)
    phases["validated"] = round(time.time() - t0, 1)
    rc = out.finish()
    vlib.write_evidence(prop, tier, "model_checking", {
        "states": states, "transitions": trans, "traces_validated_against_impl": accepted,
        "samples": [{"scenario": scenarios[0], "first_events": samples}],
        "evaluations": len(scenarios), "distinct_nontrivial": accepted,
        "rule": "distinct TLC-generated histories (one per distinct final state of the bounded intended-design model, sampled to cover "
                "all (operation, id depth, name class) pairs; distinct seeded simulation traces of the as-built model; the "
                "counterexamples of the as-built deviation runs), each replayed on a real DirectoryNamespace and counted when every "
                "step and every probe after it was accepted by Trace_Namespace",
        "exhaustive": False, "exhaustive_note": "the model runs are exhaustive for their bounds; the replayed histories are a sample",
        "histories": {"scenarios": len(scenarios), "accepted": accepted, "events": events, "counts": counts, "generation": gen_info},
        "model_runs": mc_info, "as_built_deviation_runs": dev_info, "harness_build_s": build_s, "phases_s": phases,
    }, time.time() - t0, len(out.violations), assumptions)
    return rc
