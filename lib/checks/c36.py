"""C36 -- the namespace catalog behaves as a hierarchical map
(spec/Namespace.tla, spec/Trace_Namespace.tla, harness/src/bin/vh_namespace.rs).

 1. TLC model-checks the intended design (Deviations = {}): the manifest-row design answers exactly as the
    map for every history up to the bound, per name set and mode.
 2. Each as-built deviation is confirmed to break the named property on the model; its counterexample is
    exported as a witness scenario.
 3. TLC generates histories (one per distinct final state of the exhaustive runs; seeded simulation of the
    as-built model for longer ones); they are replayed on a real DirectoryNamespace in dir / manifest /
    dual mode and every step is judged by Trace_Namespace.
"""
import concurrent.futures as cf
import itertools
import json
import os
import random
import re
import shutil
import time

import vlib

CFG = """SPECIFICATION Spec
CONSTANTS
  Family = "{family}"
  NameSet = "plain"
  Mode = "manifest"
  MaxSteps = {steps}
  MaxLen = {maxlen}
  OpKinds = {{}}
  Deviations = {{}}
{view}
{invs}
{props}
CHECK_DEADLOCK FALSE
"""
ALL_INVS = "INVARIANTS TypeOK CatalogIsMap UnfaithfulNamesRejected PagingCoversOnce GenPrint"
ALL_PROPS = "PROPERTIES OperationsAreLocal"
TRACE_CFG = """SPECIFICATION TraceSpec
INVARIANT Report
POSTCONDITION TraceAccepted
CHECK_DEADLOCK FALSE
"""
ACTIONS = ("CreateNs", "DropNs", "CreateTable", "DropTable", "RegisterTable", "Read", "List", "Reopen")
# as-built deviation -> the properties it must break on the model (Family "witness" of spec/Namespace.tla)
AS_BUILT = {
    "DelimiterNameAccepted": ["CatalogIsMap", "OperationsAreLocal", "UnfaithfulNamesRejected"],
    "QuoteNameInterpolated": ["CatalogIsMap", "OperationsAreLocal"],
    "KindBlindLookup": ["CatalogIsMap"],
    "PageTruncatedNoToken": ["PagingCoversOnce"],
    "PathEncodingMismatch": ["UnfaithfulNamesRejected", "CatalogIsMap"],
}
# the quantifier domains of Next depend on the setup (a state variable), so TLC reports coverage per disjunct of Next
_RE_COV = re.compile(r"^<(Next|Reopen) line \d+, col \d+ to line \d+, col \d+ of module Namespace(?: \((\d+) [\d ]+\))?>: (\d+):(\d+)", re.M)
ALL_OP_NAMES = ("create_ns", "drop_ns", "create_table", "create_empty_table", "drop_table", "deregister_table", "register_table",
                "table_exists", "describe_table", "ns_exists", "describe_ns", "list_tables", "list_ns", "reopen")


def cfg(family, steps=3, maxlen=2, view="VIEW view", invs=ALL_INVS, props=ALL_PROPS):
    return CFG.format(family=family, steps=steps, maxlen=maxlen, view=view, invs=invs, props=props)


TOKEN = {"U+00E9": "é"}


# ---------------------------------------------------------------------------------------------
# histories -> driver scenarios

def name_of(tokens):
    return "".join(TOKEN.get(t, t) for t in tokens)


def id_of(ident):
    return [name_of(n) for n in ident]


PLAIN = re.compile(r"^[a-z0-9_]+$")


def hist_to_scenario(hist, sid, mode, source, rnd):
    steps = []
    names = set()
    for st in hist:
        s = {"op": st["op"]}
        if "id" in st and st["op"] != "reopen":
            s["id"] = id_of(st["id"])
            names.update(s["id"])
        if "src" in st:
            s["src"] = id_of(st["src"])
            names.update(s["src"])
        if "limit" in st:
            s["limit"] = st["limit"]
        steps.append(s)
    names = sorted(names)
    # ids whose "$"-joined text coincides (the delimiter of ManifestNamespace::build_object_id); the pieces of a
    # name that contains the delimiter are names too
    pieces = sorted(set(names) | {q for n in names for q in n.split("$") if q})
    universe = [list(t) for k in (1, 2, 3) for t in itertools.product(pieces, repeat=k)]
    by_text = {}
    for ident in universe:
        by_text.setdefault("$".join(ident), []).append(ident)
    alias = [[a, b] for grp in by_text.values() if len(grp) > 1 for a in grp for b in grp if a != b]
    mentioned = []
    for s in steps:
        for key in ("id", "src"):
            if key in s and s[key] and s[key] not in mentioned:
                mentioned.append(s[key])
    partners = [b for a, b in alias if a in mentioned]
    roots = [[n] for n in names]
    probe_ids = []
    for ident in mentioned + partners + roots:
        if ident not in probe_ids:
            probe_ids.append(ident)
    probe_ids = probe_ids[:9]
    paths = [[]]
    for ident in probe_ids:
        for p in (ident[:-1], ident if len(ident) <= 2 else None):
            if p is not None and p not in paths:
                paths.append(p)
    list_paths = [s["id"] for s in steps if s["op"] in ("list_tables", "list_ns")]
    paths = [p for p in paths if p in list_paths or p == []] + [p for p in paths if p not in list_paths and p != []]
    paths = paths[:4]
    meta = {"special": [n for n in names if not PLAIN.match(n)],
            "quoted": [n for n in names if "'" in n], "dollar": [n for n in names if "$" in n],
            "slashed": [n for n in names if "/" in n], "nonascii": [n for n in names if not n.isascii()],
            "alias": alias}
    return {"id": sid, "source": source, "mode": mode, "opt": rnd.random() < 0.15, "meta": meta,
            "probe": {"tables": probe_ids, "ns": [i for i in probe_ids if len(i) <= 2], "paths": paths},
            "steps": steps}


def features(hist):
    fs = set()
    root_tables = 0
    for st in hist:
        if st["op"] in ("list_tables", "list_ns") and st.get("limit", 0) > 0:
            fs.add(("paged", st["op"], len(st.get("id", [])), min(root_tables, 3), st["limit"]))
        if st["op"] in ("create_table", "create_empty_table", "register_table") and st.get("r") == "ok" and len(st.get("id", [])) == 1:
            root_tables += 1
        ident = st.get("id", [])
        kinds = set()
        for n in ident:
            kinds.add("$" if "$" in n else "'" if "'" in n else "/" if "/" in n else "." if "." in n else
                      "u" if any(t in TOKEN for t in n) else "p")
        fs.add((st["op"], len(ident), "".join(sorted(kinds)), st.get("r", "")))
    return fs


MUTATORS = ("create_ns", "drop_ns", "create_table", "create_empty_table", "drop_table", "register_table", "deregister_table")


def productive(hist):
    return sum(1 for st in hist if st["op"] in MUTATORS and st.get("r") == "ok")


def pick(hists, cap, rnd):
    """Feature-covering sample: histories that add an unseen (feature, feature) pair first, then the ones in
    which most mutations take effect (a random history is mostly refused calls), then random fill."""
    if len(hists) <= cap:
        return list(hists), True
    order = list(range(len(hists)))
    rnd.shuffle(order)
    seen, chosen, rest = set(), [], []
    for i in order:
        fs = features(hists[i])
        pairs = {(a, b) for a in fs for b in fs if a <= b}
        if pairs - seen and len(chosen) < cap // 2:
            seen |= pairs
            chosen.append(i)
        else:
            rest.append(i)
    rest.sort(key=lambda i: -productive(hists[i]))          # stable: keeps the shuffled order among equals
    take = rest[: (cap - len(chosen)) * 2 // 3]
    chosen += take
    left = rest[len(take):]
    rnd.shuffle(left)
    chosen += left[: cap - len(chosen)]
    return [hists[i] for i in chosen], False


# ---------------------------------------------------------------------------------------------

def replay_scenarios(prop, scenarios, binary, nshards, tag, mutate=None):
    """Run scenarios on the real DirectoryNamespace and let Trace_Namespace judge them.
    Returns (counts, events, [(trace file, bad entry, event)], first events of shard 0)."""
    wd = vlib.workdir(f"{prop}-{tag}")
    scn_file = os.path.join(wd, "scenarios.ndjson")
    with open(scn_file, "w") as f:
        for sc in scenarios:
            f.write(json.dumps(sc, ensure_ascii=False) + "\n")
    scratch = os.path.join(vlib.WORK, f"namespace-scratch-{os.getpid()}-{tag}")

    def shard(k):
        tf = os.path.join(wd, f"t{k}.ndjson")
        args = ["--scenarios", scn_file, "--out", tf, "--scratch", f"{scratch}-{k}", "--shard", k, "--shards", nshards]
        if mutate:
            args += ["--mutate", mutate]
        vlib.harness_run(binary, args, timeout=3000)
        shutil.rmtree(f"{scratch}-{k}", ignore_errors=True)
        return tf, vlib.tlc_trace(f"{prop}-{tag}-{k}", "Trace_Namespace", TRACE_CFG, tf, timeout=3000, xmx="4g")
    counts, events, bads, samples = {}, 0, [], []
    with cf.ThreadPoolExecutor(max_workers=nshards) as ex:
        for k, (tf, v) in enumerate(ex.map(shard, range(nshards))):
            if not v["reports"] or not v["accepted"]:
                raise vlib.ToolError(f"trace validation did not complete: {v['out']}")
            rep = v["reports"][-1]
            events += rep["events"]
            for kk, n in rep["counts"].items():
                counts[kk] = counts.get(kk, 0) + n
            lines = open(tf).read().splitlines()
            for b in rep["bad"]:
                bads.append((tf, b, json.loads(lines[b[0] - 1])))
            if k == 0:
                samples = [json.loads(x) for x in lines[:3]]
    return counts, events, bads, samples


def report_bads(out, bads, by_id, classes, bad_scn):
    for tf, b, ev in bads:
        pos, scn, i, opn, inv, dev, what, cause, call = b
        bad_scn.add(scn)
        scenario = by_id[scn]
        stp = json.dumps(ev.get("step", {}), ensure_ascii=False)
        classes[(inv, dev, what, cause)] = classes.get((inv, dev, what, cause), 0) + 1
        out.report({"invariant": inv, "deviation": dev},
                   f"{inv} broken as by {dev}: {what} ({cause}) seen by {call} after step {i} {stp} -> {ev.get('res')} "
                   f"in {scenario['mode']} mode (scenario {scn}, {scenario['source']})",
                   {"scenario": scenario, "step": i, "invariant": inv, "deviation": dev, "what": what, "cause": cause,
                    "call": call, "event": ev})


def run_replay(prop, replay):
    """--replay <file>: rebuild, run the stored scenario, judge it."""
    case = json.load(open(replay)).get("case", {})
    scenario = case.get("scenario")
    if not scenario:
        raise vlib.ToolError(f"{replay} holds no scenario")
    out = vlib.Outcome(prop)
    binary, _ = vlib.harness_build("vh_namespace")
    _, _, bads, _ = replay_scenarios(prop, [scenario], binary, 1, "replay")
    report_bads(out, bads, {scenario["id"]: scenario}, {}, set())
    return out.finish()


# ---------------------------------------------------------------------------------------------

def run(prop, tier, replay):
    if replay:
        return run_replay(prop, replay)
    t0 = time.time()
    rnd = random.Random(vlib.seed())
    out = vlib.Outcome(prop)
    quick = tier == "quick"
    assumptions = [
        "names are drawn from {a, b, a$b, a'b, a' OR 'a'='a, a.b, a/b, e-acute}; namespace paths of depth <= 2; page limits {1, 2, none}",
        "local file system store; one mode per scenario (no migration between modes); inline optimisation of the __manifest table is a "
        "seeded per-scenario choice (15% on)",
        "listings are paged by the protocol documented on ListTablesRequest::page_token (follow the response's token until it is absent); "
        "a page longer than `limit` is counted, not reported",
        "left open by the property and accepted either way (counted): create / register under a missing parent namespace; refusal of a name "
        "with special characters when nothing changes; idempotent create of an existing table / drop of an absent one; listing a path that "
        "is not a namespace; in dual mode a deregistered root table stays visible through the directory fallback",
        "table locations are compared relative to the catalog root; describe_table must return the location the create / register call returned",
        "a generated history that leaves two or more tables in the root namespace is extended by one paged list_tables of the root",
    ]
    pool = cf.ThreadPoolExecutor(max_workers=6)
    phases = {}
    # 0. harness build (other phases run meanwhile) ---------------------------------------------------
    fut_build = pool.submit(vlib.harness_build, "vh_namespace")

    # 1. model-check the intended design (one TLC process per family of small universes) ---------------------
    families = ["intended-quick"] if quick else ["intended-a", "intended-b", "intended-c", "intended-d"]
    fut_mc = {f: pool.submit(vlib.tlc_mc, f"{prop}-{f}", "Namespace", cfg(f), 4, 3000, True, None, "6g") for f in families}
    # 1b. every as-built deviation breaks the named properties on the model; the first violating history of each
    #     (deviation, property) is printed as a witness and replayed below
    wit_cfg = cfg("witness", view="VIEW view\nCONSTRAINT StillWanted",
                  invs="INVARIANTS TypeOK CatalogIsMapW UnfaithfulNamesRejectedW PagingCoversOnceW", props="PROPERTIES OperationsAreLocalW")
    fut_wit = pool.submit(vlib.tlc_mc, f"{prop}-witness", "Namespace", wit_cfg, 1, 1500, False, None, "4g")
    # 2. longer histories: seeded simulation of the as-built model (no property attached: generation only) --------
    depth = 5 if quick else 7
    fut_gen = pool.submit(vlib.tlc_gen, f"{prop}-asbuilt", "Namespace",
                          cfg("asbuilt", steps=depth, maxlen=2 if quick else 3, view="", invs="INVARIANTS GenPrint", props=""),
                          "SCN", 1, 1500, "num=250" if quick else "num=4000", "4g")

    # 3. collect scenarios ------------------------------------------------------------------------------------------
    mc_results = {f: fut_mc[f].result() for f in families}
    phases["model_checked"] = round(time.time() - t0, 1)
    scenarios, gen_info = [], []

    def add(values, cap, source, note):
        by_setup = {}
        for v in values:
            by_setup.setdefault((v["names"], v["mode"]), {})[json.dumps(v["hist"], sort_keys=True)] = v["hist"]
        per = max(4, cap // max(1, len(by_setup)))
        for (names, mode), hs in sorted(by_setup.items()):
            uniq = list(hs.values())
            chosen, _ = pick(uniq, per, rnd)
            gen_info.append({"gen": source, "names": names, "mode": mode, "how": note, "distinct": len(uniq), "replayed": len(chosen)})
            for h in chosen:
                # a history that leaves two or more tables in the root is extended by one paged listing of the root
                # (List is enabled in every state of the model and changes nothing): random histories rarely page
                roots = {json.dumps(st["id"]) for st in h if st["op"] in ("create_table", "create_empty_table", "register_table")
                         and st.get("r") == "ok" and len(st.get("id", [])) == 1}
                if len(roots) >= 2 and not any(st["op"] == "list_tables" and st.get("limit", 0) > 0 and not st.get("id") for st in h):
                    h = h + [{"op": "list_tables", "id": [], "limit": rnd.choice((1, 1, 2)), "r": "ok"}]
                scenarios.append(hist_to_scenario(h, len(scenarios) + 1, mode, f"{source}:{names}", rnd))
    for f in families:
        vals = vlib._printed(open(mc_results[f]["out"]).read(), "SCN")
        if not vals:
            raise vlib.ToolError(f"TLC generated no scenario ({f})")
        add(vals, 100 if quick else 400, f, "one history per distinct final state of the exhaustive run")
    vals, gstats = fut_gen.result()
    if not vals:
        raise vlib.ToolError("TLC generated no scenario (asbuilt simulation)")
    add(vals, 130 if quick else 1600, "asbuilt-sim", f"seeded simulation of the as-built model, depth {depth}")
    wit = fut_wit.result()
    wits = vlib._printed(open(wit["out"]).read(), "WIT")
    got = {(d, w["inv"]) for w in wits for d in w["devs"]}
    missing = [(d, i) for d, invs in AS_BUILT.items() for i in invs if (d, i) not in got]
    if missing or wit["violated"]:
        raise vlib.ToolError(f"as-built deviations no longer break the named properties on the model: missing {missing}, "
                             f"violated {wit['violated']} (see {wit['out']}): the finding signatures are no longer tied to the specification")
    dev_info = []
    for w in wits:
        dev_info.append({"deviation": w["devs"], "breaks": w["inv"], "names": w["names"], "mode": w["mode"], "witness": w["hist"]})
        scenarios.append(hist_to_scenario(w["hist"], len(scenarios) + 1, w["mode"], f"witness:{w['devs'][0]}:{w['inv']}", rnd))
    phases["scenarios_ready"] = round(time.time() - t0, 1)

    binary, build_s = fut_build.result()
    phases["built"] = round(time.time() - t0, 1)
    nshards = 4 if quick else 8
    counts, events, bads, samples = replay_scenarios(prop, scenarios, binary, nshards, "traces")

    # 4. judge ------------------------------------------------------------------------------------------------------
    states = trans = 0
    mc_info = []
    cov_all, took_all = {}, {}
    for f in families:
        r = mc_results[f]
        if r["violated"]:
            out.report({"spec": "Namespace", "invariant": r["violated"]},
                       f"the intended design violates {r['violated']} (see {r['out']})", {"family": f})
        cov = {}
        for mm in _RE_COV.finditer(open(r["out"]).read()):
            key = mm.group(1) + (":" + mm.group(2) if mm.group(2) else "")
            cov[key] = max(cov.get(key, 0), int(mm.group(3)))
        took = {}
        for v in vlib._printed(open(r["out"]).read(), "SCN"):
            for st in v["hist"]:
                if st.get("r") == "ok":
                    took[st["op"]] = took.get(st["op"], 0) + 1
        for k, n in cov.items():
            cov_all[k] = cov_all.get(k, 0) + n
        for k, n in took.items():
            took_all[k] = took_all.get(k, 0) + n
        states += r.get("distinct", 0)
        trans += r.get("generated", 0)
        mc_info.append({"family": f, "distinct": r.get("distinct"), "generated": r.get("generated"), "depth": r.get("depth"),
                        "wall_s": r["wall_s"], "next_disjunct_coverage": cov, "calls_answered_ok_in_final_histories": took})
    # vacuity: over the families of the tier together, every disjunct of Next was taken and every call took effect
    zero = [a for a in ALL_OP_NAMES if took_all.get(a, 0) == 0] + [k for k, n in cov_all.items() if n == 0]
    if zero or len(cov_all) < 8:
        raise vlib.ToolError(f"vacuous model runs: calls that never took effect / disjuncts never taken: {zero} {cov_all}")
    mc_info.append({"family": "witness (as-built deviations, pruned once witnessed)", "distinct": wit.get("distinct"),
                    "generated": wit.get("generated"), "wall_s": wit["wall_s"]})
    bad_scn, classes = set(), {}
    report_bads(out, bads, {sc["id"]: sc for sc in scenarios}, classes, bad_scn)
    need = ["create_ns", "drop_ns", "create_table", "create_empty_table", "drop_table", "register_table", "deregister_table",
            "list_tables", "list_ns", "reopen", "dir", "manifest", "dual", "probes_judged", "probes_existing", "paged_listings",
            "special_name_steps", "special_name_accepted", "ok_steps"]
    for n in need:
        if counts.get(n, 0) == 0:
            raise vlib.ToolError(f"vacuous history run: no {n} was judged ({counts})")
    # (the validator keeps at most 25 entries per class of failure; its counters count every failing scenario / event)
    accepted = len(scenarios) - max(len(bad_scn), counts.get("bad_scenarios", 0))
    phases["validated"] = round(time.time() - t0, 1)
    rc = out.finish()
    vlib.write_evidence(prop, tier, "model_checking", {
        "states": states, "transitions": trans, "traces_validated_against_impl": accepted,
        "samples": [{"scenario": scenarios[0], "first_events": samples}],
        "evaluations": len(scenarios), "distinct_nontrivial": accepted,
        "rule": "distinct TLC-generated histories (one per distinct final state of the bounded intended-design model, sampled to cover "
                "all (operation, id depth, name class) pairs; distinct seeded simulation traces of the as-built model; the "
                "counterexamples of the as-built deviation runs), each replayed on a real DirectoryNamespace and counted when every "
                "step and every probe after it was accepted by Trace_Namespace",
        "exhaustive": False, "exhaustive_note": "the model runs are exhaustive for their bounds; the replayed histories are a sample",
        "histories": {"scenarios": len(scenarios), "accepted": accepted, "events": events, "counts": counts, "generation": gen_info},
        "judgements_not_accepted": [{"invariant": k[0], "deviation": k[1], "what": k[2], "cause": k[3], "events_kept": n}
                                    for k, n in sorted(classes.items())],
        "judgements_not_accepted_note": "at most 25 events are kept per class and trace shard; histories.counts.bad_events is the total",
        "model_runs": mc_info, "as_built_deviation_witnesses": dev_info, "simulation": gstats,
        "harness_build_s": build_s, "phases_s": phases,
    }, time.time() - t0, len(out.violations), assumptions)
    return rc
