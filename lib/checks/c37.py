"""C37 -- feature flags and storage version strings (spec/FeatureFlags*.tla)."""
import concurrent.futures as cf
import json
import os
import re
import time

import vlib

CONSTS = """  NKnown = 6
  NUnknown = 2
  MaxFrags = 3
  RowsPerFrag = 2
"""
MC = """SPECIFICATION Spec
CONSTANTS
""" + CONSTS + """  Deviations = {devs}
  MaxOps = {maxops}
  Foreign = {foreign}
  StableChoices = {{TRUE, FALSE}}
  VerChoices = {{"V2_0", "V2_1"}}
INVARIANTS {invs}
VIEW view
CHECK_DEADLOCK FALSE
"""
ALL_INVS = "TypeOK FlagsReflectContents NeverWriteUnknown WritersRefuseUnknown ReadersRefuseUnknown GateIsExact VersionLaws"
TRACE_CFG = """SPECIFICATION TraceSpec
CONSTANTS
""" + CONSTS + """INVARIANT Report
POSTCONDITION TraceAccepted
CHECK_DEADLOCK FALSE
"""
ACTIONS = ("Do", "FutureWrite", "OpenTable", "Refresh", "Reopen")
AS_BUILT = [("UncheckedWritePath", "WritersRefuseUnknown"), ("StaleHandleNotRechecked", "WritersRefuseUnknown"),
            ("UncheckedRefresh", "ReadersRefuseUnknown"), ("StaleFlags", "FlagsReflectContents")]
N_EMB_PURE = 4


def run(prop, tier, replay):
    t0 = time.time()
    out = vlib.Outcome(prop)
    seed = vlib.seed()
    assumptions = [
        "a flag word is a set of bits; the 6 known bits are the real bits 0..5, the two abstract unknown bits are embedded "
        "at the real positions (6,7), (31,32), (6,63), (62,63)",
        "the set of known bits is the implementation's (bit 32 = FLAG_DISABLE_TRANSACTION_FILE is known to the code; the "
        "docs table still ends at 16): the property speaks of bits 'they do not know'",
        "a 'future writer' is emulated by writing the next manifest (a copy of the latest one with extra flag bits and the "
        "last transaction inline) with the public lance_table::io::commit::write_manifest_file_to_path",
        "version names outside the documented table (0.1, 2.0, 2.1, legacy, stable, next) are judged by consistency with "
        "the (major, minor) table only; upper-case spellings may be accepted or rejected",
        "the table model covers append / delete / update / compact / config / shallow clone / overwrite on tables with <= 3 "
        "fragments of 2 rows; FLAG_DISABLE_TRANSACTION_FILE has no public switch and is exercised through "
        "apply_feature_flags only",
        "TLC, the local file system object store and the harness projection of a manifest are trusted",
    ]
    quick = tier == "quick"
    mc_ops, gen_ops = (4, 3) if quick else (6, 4)
    gate_embeds = "low,top" if quick else "low,mid,split,top"
    # 1. model-check the design (background) ---------------------------------------------------------
    pool = cf.ThreadPoolExecutor(max_workers=6)

    def mc_design():
        return vlib.tlc_mc(f"{prop}-mc", "FeatureFlags",
                           MC.format(devs="{}", maxops=mc_ops, foreign="TRUE", invs=ALL_INVS),
                           workers=4, timeout=1500, xmx="6g")

    def mc_dev(dev):
        r = vlib.tlc_mc(f"{prop}-dev-{dev}", "FeatureFlags",
                        MC.format(devs='{"%s"}' % dev, maxops=3, foreign="TRUE", invs=ALL_INVS),
                        workers=2, timeout=600, xmx="4g", coverage=False, expect_violation=True)
        return {"deviation": dev, "violated_invariant": r["violated"], "wall_s": r["wall_s"]}
    f_design = None if replay else pool.submit(mc_design)
    f_devs = [] if replay else [pool.submit(mc_dev, d) for d, _ in AS_BUILT]
    # 2. scenarios from the spec -----------------------------------------------------------------------
    wd = vlib.workdir(f"{prop}-traces")
    scns, gstats = vlib.tlc_gen(f"{prop}-gen", "FeatureFlags",
                                MC.format(devs="{}", maxops=gen_ops, foreign="FALSE", invs="GenPrint GenStrings"),
                                tag="SCN", workers=1, timeout=900)
    gen_out = open(os.path.join(vlib.WORK, f"gen-{prop}-gen", "out.txt")).read()
    strs = vlib._printed(gen_out, "STR")
    if not scns or not strs:
        raise vlib.ToolError("scenario generation printed nothing")
    strings = strs[0]
    uniq = {}
    for s in scns:
        uniq.setdefault(json.dumps(s, sort_keys=True), s)
    scns = list(uniq.values())
    scn_file = os.path.join(wd, "scn.ndjson")
    with open(scn_file, "w") as f:
        for s in scns:
            f.write(json.dumps(s) + "\n")
    str_file = os.path.join(wd, "strings.json")
    json.dump(strings, open(str_file, "w"))
    # 3. rebuild the harness, drive, 4. validate -------------------------------------------------------------
    binary, build_s = vlib.harness_build("vh_flags")
    scratch = os.path.join(vlib.WORK, f"flags-scratch-{os.getpid()}")

    def one(section):
        tf = os.path.join(wd, f"{section}.ndjson")
        args = ["--section", section, "--out", tf, "--scratch", scratch, "--seed", seed]
        if section == "pure":
            args += ["--strings", str_file]
        elif section == "hist":
            args += ["--scenarios", scn_file]
        else:
            args += ["--embeds", gate_embeds]
        t1 = time.time()
        vlib.harness_run(binary, args, timeout=1500)
        hs = round(time.time() - t1, 1)
        v = vlib.tlc_trace(f"{prop}-{section}", "Trace_FeatureFlags", TRACE_CFG, tf, timeout=1500, xmx="4g")
        return section, tf, v, hs
    with cf.ThreadPoolExecutor(max_workers=3) as ex:
        results = list(ex.map(one, ["pure", "hist", "gate"]))
    try:
        os.rmdir(scratch)
    except OSError:
        pass
    reps = {}
    events = accepted = 0
    samples = []
    exhaustive = True
    timings = {}
    for section, tf, v, hs in results:
        if not v["reports"]:
            raise vlib.ToolError(f"no REPORT from trace validation {section}: {v['out']}")
        if not v["accepted"]:
            raise vlib.ToolError(f"trace {section} not fully consumed: {v['out']}")
        rep = v["reports"][-1]
        reps[section] = rep
        timings[section] = {"harness_s": hs, "validate_s": v["wall_s"]}
        events += rep["events"]
        accepted += rep["events"] - len(rep["bad"])
        lines = open(tf).read().splitlines()
        for b in rep["bad"]:
            pos, kind, cls, detail = b[0], b[1], b[2], b[3]
            ev = json.loads(lines[pos - 1])
            if kind == "gate":
                sig = {"invariant": cls[0], "deviation": cls[1]}
                desc = (f"{cls[0]}: operation '{detail}' through a {ev[2]} handle after a future writer set unknown bits "
                        f"(reader {ev[3]}, writer {ev[4]}; embedding {ev[5]}): result {ev[7]}, latest version moved by "
                        f"{ev[9] - ev[8]}, handle at {ev[10]} relative to that version")
            else:
                sig = {"kind": kind, "class": cls, "op": detail}
                desc = f"{kind} {cls} {detail}: recorded event is not what FeatureFlagsOps requires: {json.dumps(ev)[:400]}"
            out.report(sig, desc, {"section": section, "event": ev})
        if section == "hist":
            samples.append({"history": scns[len(scns) // 2], "events": [json.loads(x) for x in lines[-3:]]})
        else:
            samples.append({"section": section, "events": [json.loads(lines[i]) for i in (1, len(lines) // 2, len(lines) - 1)]})
    # completeness of the enumerated universes (counts derive from the spec constants reported by the validator)
    p, h, g = reps["pure"], reps["hist"], reps["gate"]
    nwords = 2 ** p["NBits"]
    exp_pure = {"univ": 1, "can_read": N_EMB_PURE * nwords, "can_write": N_EMB_PURE * nwords,
                "apply": 21 * 16 * 2, "parse": p["nstrings"], "from_numbers": 20,
                # layouts of one fragment: 1 + 4 + 16 + 64 = 85; events: the empty list, 85 single, 85 * 85 pairs
                "infer": 1 + 85 + 85 * 85}
    got_pure = {k: p["counts"][k] for k in exp_pure}
    if got_pure != exp_pure or p["counts"]["variant"] < 6 or p["counts"]["apply_err"] == 0:
        exhaustive = False
        out.report({"kind": "incomplete-trace", "section": "pure"},
                   f"event counts differ from the universe size: got {got_pure} expected {exp_pure}", {})
    n_steps = sum(len(s) - 1 for s in scns)
    if h["counts"]["reset"] != len(scns) or h["counts"]["step"] + h["counts"]["step_skipped"] != n_steps:
        exhaustive = False
        out.report({"kind": "incomplete-trace", "section": "hist"},
                   f"history events {h['counts']['reset']}/{h['counts']['step']} differ from scenarios {len(scns)}/{n_steps}", {})
    for k in ("step_del", "step_base", "step_config", "step_stable", "step_switch"):
        if h["counts"][k] == 0:
            raise vlib.ToolError(f"vacuous: no conformant history step with fact '{k}'")
    nemb = len(gate_embeds.split(","))
    exp_gate = nemb * (g["nread"] * 16 + g["nwrite"] * 11)
    if g["counts"]["gate"] != exp_gate or g["counts"]["gate_univ"] != 1:
        exhaustive = False
        out.report({"kind": "incomplete-trace", "section": "gate"},
                   f"gate events {g['counts']['gate']} differ from the universe size {exp_gate}", {})
    if g["counts"]["gate_unknown"] == 0 or g["counts"]["gate_control"] == 0:
        raise vlib.ToolError("vacuous: gate section has no unknown-bit or no control case")
    # model runs ------------------------------------------------------------------------------------------
    states = trans = 0
    mc_info, asbuilt = [], []
    if f_design:
        r = f_design.result()
        if r["violated"]:
            out.report({"spec": "FeatureFlags", "invariant": r["violated"]},
                       f"the design-level model violates {r['violated']} (see {r['out']})", {})
        # (taken = the second coverage number: an action such as Refresh may only re-reach known states)
        taken = {m.group(1): int(m.group(2)) for m in
                 re.finditer(r"^<(\w+) line \d+, col \d+ to line \d+, col \d+ of module FeatureFlags>: \d+:(\d+)",
                             open(r["out"]).read(), re.M)}
        zero = [a for a in ACTIONS if taken.get(a, 0) == 0]
        if zero:
            raise vlib.ToolError(f"vacuous model run: actions never taken {zero}")
        states, trans = r.get("distinct", 0), r.get("generated", 0)
        mc_info.append({"cfg": f"design MaxOps={mc_ops}", "distinct": states, "generated": trans,
                        "depth": r.get("depth"), "wall_s": r["wall_s"]})
        for (dev, inv), f in zip(AS_BUILT, f_devs):
            a = f.result()
            asbuilt.append(a)
            if a["violated_invariant"] != inv:
                raise vlib.ToolError(f"deviation {dev} should violate {inv} in the model, got {a['violated_invariant']}")
    pool.shutdown()
    rc = out.finish()
    distinct = (sum(got_pure.values()) + p["counts"]["variant"] + len(scns) + g["counts"]["gate_unknown"])
    vlib.write_evidence(prop, tier, "model_checking", {
        "states": states, "transitions": trans,
        "traces_validated_against_impl": accepted,
        "samples": samples, "evaluations": events, "distinct_nontrivial": distinct,
        "rule": "pure events: every flag word over 8 abstract bits x 4 embeddings for can_read and can_write, every manifest "
                "with <= 2 fragments x (deletion file, row id meta) x enable x no-txn x config x base x junk, every spec version "
                "string, every enum variant, every (major, minor) in 0..3 x 0..4 (distinct by construction, counts checked "
                "against the spec constants); histories: one TLC-generated history per distinct reachable state of the table "
                "model (deduplicated); gate: every (operation, handle, unknown reader bits, unknown writer bits, embedding) "
                "with at least one unknown bit",
        "exhaustive": exhaustive,
        "model_runs": mc_info, "deviation_runs": asbuilt, "generation": gstats,
        "histories": len(scns), "history_steps": n_steps, "history_facts": {k: h["counts"][k] for k in h["counts"] if k.startswith("step")},
        "gate_cases": g["counts"]["gate"], "gate_cases_with_unknown_bits": g["counts"]["gate_unknown"],
        "gate_embeddings": gate_embeds, "pure_counts": got_pure, "timings": timings, "harness_build_s": build_s,
        "findings": sorted({json.dumps(s, sort_keys=True) for s, _, _ in out.violations} |
                           {json.dumps(k.get("signature"), sort_keys=True) for k in out.known}),
    }, time.time() - t0, len(out.violations), assumptions)
    return rc
