"""C38 -- caching is transparent: every table history gives the same judged trace through a shared Session (tiny cache
with eviction / large cache) as without one, including after the table is dropped and re-created at the same location
within the session.  The oracle is the one of the table properties (Trace_LanceTable.tla): a violation that appears
only in the run with a session is a CacheTransparent violation."""
import json
import os
import random
import time

import vlib
from checks import table_common as T
from checks import query_common as Q

RECREATE = [{"op": "drop_table"},
            {"op": "create", "h": "main", "rows": [[7, 7], [8, -1]]},
            {"op": "append", "h": "main", "rows": [[9, 9]]},
            {"op": "delete", "h": "main", "pred": ["in", "id", [7]]},
            {"op": "query", "pred": ["true"], "variants": [{"name": "base"}]},
            {"op": "take_probe"},
            {"op": "reread", "v": 1}, {"op": "reread", "v": 2}]
SESSIONS = [("tiny", {"index_bytes": 1024, "meta_bytes": 1024}), ("large", {"index_bytes": 1 << 30, "meta_bytes": 1 << 30})]


def run(prop, tier, replay):
    t0 = time.time()
    out = vlib.Outcome(prop)
    rnd = random.Random(vlib.seed())
    opk = ["append", "delete", "update", "upsert", "compact", "restore", "checkout"]
    scenarios = []
    states = trans = 0
    n = 0
    for stable in (True, False):
        c = T.cfg([1, 2, 3, 4], [5], 7, 2 if tier == "quick" else 3, stable, opk)
        r = vlib.tlc_mc(f"{prop}-mc-{int(stable)}", "LanceTable", c, workers=8, timeout=3000)
        if r["violated"]:
            out.report({"spec": "LanceTable", "invariant": r["violated"]}, "design model violated", {})
        states += r.get("distinct", 0)
        trans += r.get("generated", 0)
        hists, _ = T.generate(f"gen-{int(stable)}", prop, c)
        hists = T.sample(hists, 150 if tier == "quick" else 1500, rnd)
        for h in hists:
            base = T.hist_to_scenario(h, 0, stable, reread=False,
                                      tail_steps=[{"op": "query", "pred": ["true"], "variants": [{"name": "base"}]},
                                                  {"op": "take_probe"}])
            for recreate in (False, True):
                steps = base["steps"] + (RECREATE if recreate else [])
                for sname, sess in [("none", None)] + SESSIONS:
                    n += 1
                    s = {"id": n, "stable": stable, "steps": steps, "variant": sname, "recreate": recreate, "group": n - 1 if sname != "none" else n}
                    if sess:
                        s["session"] = sess
                    scenarios.append(s)
    reports, scn_file, build_s = Q.run_scenarios(prop, "cache", scenarios)
    by_id = {s["id"]: s for s in scenarios}
    # violations per scenario: set of (step, op, invariant, class)
    viol = {}
    events = 0
    counts = {}
    for tf, rep in reports:
        events += rep["events"]
        for k, v in rep["counts"].items():
            counts[k] = counts.get(k, 0) + v
        for pos, scn, i, op, inv, cls in rep["bad"]:
            viol.setdefault(scn, set()).add((i, op, inv, cls))
    # group scenarios: consecutive triples (none, tiny, large) share history + recreate flag
    bad = 0
    for k in range(0, len(scenarios), 3):
        base = scenarios[k]
        base_v = viol.get(base["id"], set())
        for s in scenarios[k + 1:k + 3]:
            extra = viol.get(s["id"], set()) - base_v
            for (i, op, inv, cls) in sorted(extra):
                after = s["recreate"] and any(st["op"] == "drop_table" for st in s["steps"][:i])
                bad += 1
                sig = {"invariant": "CacheTransparent", "class": "after-recreate"} if after else \
                    {"invariant": "CacheTransparent", "class": "same-incarnation", "via": inv}
                out.report(sig,
                           f"{inv} violated by {op} only when reading through a session ({s['variant']} cache), "
                           f"{'after drop + re-create at the same location' if after else 'within one table incarnation'}",
                           {"scenario": s, "step": i, "without_session": sorted(base_v)})
    rc = out.finish()
    vlib.write_evidence(prop, tier, "model_checking", {
        "states": states, "transitions": trans, "traces_validated_against_impl": len(scenarios),
        "samples": [scenarios[1], scenarios[4]] if len(scenarios) > 4 else scenarios[:1],
        "evaluations": len(scenarios), "distinct_nontrivial": len(scenarios) // 3 * 2,
        "rule": "every TLC-generated history is replayed three times (no session, tiny caches with eviction, large caches), "
                "with and without drop + re-create at the same location; distinct non-trivial = runs through a session",
        "exhaustive": False, "event_counts": counts, "events_validated": events, "session_only_violations": bad,
        "harness_build_s": build_s,
    }, time.time() - t0, len(out.violations),
        ["the oracle is Trace_LanceTable (all table invariants, scan, take, time travel); only differences to the run without "
         "a session count", "several tables sharing one session at different locations are not covered"])
    return rc
