"""C39 -- the MemWAL index follows its state machine under concurrency
(spec/MemWalOps.tla, spec/MemWal.tla, spec/Trace_MemWal.tla, harness/src/bin/vh_memwal.rs).

1. TLC model-checks MemWal.tla with Deviations = {} (the intended design): all seven invariants must hold.
2. TLC explores the same configuration with Deviations = AsBuilt (the code as read) and prints every history
   (prefix by one sequential writer + operations of the concurrent writers through possibly stale handles)
   together with the invariants the as-built model breaks on it; a seeded, stratified subset is replayed by
   vh_memwal on real datasets under /verif/work/memwal-*.
3. Trace_MemWal.tla judges every recorded step: conformance with the as-built model (result class and raw
   mem_wal_list) and the seven invariants on the observed history.  A violated invariant is reported with the
   deviations that were necessary to explain the step: signature {"invariant": ..., "deviation": [...]}.
"""
import concurrent.futures as cf
import json
import os
import random
import shutil
import time

import vlib

INVS = ["EachGenerationOnce", "Consecutive", "OnlyLatestOpen", "StateMonotone", "TrimmedNeverReappears",
        "NoTwoCommitsOnSameGeneration", "OwnerChangesSerialise"]
# the named deviations of MemWalOps.tla (code as it was read) ...
ALL_DEVIATIONS = ["TrimOtherSkipsCheck", "MemWalIgnoresMerge", "MergeIgnoresMerge", "MergeIgnoresTrim",
                  "AdvanceIgnoresClosedLatest", "TrimRemovesLatest"]
# ... and the ones currently believed to describe /repo: histories are generated from the model with exactly these
# (so the findings it predicts are the ones the implementation must show), and the trace validator accepts a
# step explained by any subset of them.  Remove a name when its `fix:` commit lands in /repo.
# (2026-09-22: the first five were repaired in /repo by `fix:` commits 34e54bc..9766f6c; TrimRemovesLatest is kept
# as a known finding because the repository's own test suite pins trimming the only generation of a region)
AS_BUILT = ["TrimRemovesLatest"]
if os.environ.get("VERIF_C39_BELIEVED") is not None:      # development: try another belief without editing this file
    AS_BUILT = [d for d in os.environ["VERIF_C39_BELIEVED"].split(",") if d]
ALL_KINDS = ["advance", "append", "seal", "flush", "merge", "owner", "trim", "mmerge", "tappend", "checkout"]

CFG = """SPECIFICATION Spec
CONSTANTS
  Regions = {regions}
  MaxGen = {maxgen}
  Handles = {handles}
  MaxOps = {maxops}
  MaxHi = {maxhi}
  OpKinds = {opkinds}
  PrefixIds = {prefixes}
  Deviations = {dev}
VIEW view
{what}
CHECK_DEADLOCK FALSE
"""
TRACE_CFG = """SPECIFICATION TraceSpec
CONSTANT Believed = %s
INVARIANT Report
POSTCONDITION TraceAccepted
CHECK_DEADLOCK FALSE
"""


def tla_set(xs):
    return "{" + ", ".join(json.dumps(x) if isinstance(x, str) else str(x) for x in xs) + "}"


def cfg_text(f, dev, what, maxops=None):
    return CFG.format(regions=tla_set(f["regions"]), maxgen=f["maxgen"], handles=tla_set(f["handles"]),
                      maxops=maxops if maxops is not None else f["maxops"], maxhi=f["maxhi"],
                      opkinds=tla_set(f["opkinds"]), prefixes=tla_set(f["prefixes"]), dev=tla_set(dev), what=what)


def families(tier):
    """Bounds of the model runs.  A history = one of the sequential prefixes (<= 5 calls by writer "m", see
    MemWal!AllPrefixes) followed by maxops calls of the concurrent writers through possibly stale handles."""
    base = [k for k in ALL_KINDS if k not in ("tappend", "checkout")]
    one = list(range(1, 13)) + [16, 17, 18]
    two = [2, 4, 5, 7, 9, 13, 14, 15]
    if tier == "quick":
        return [
            # 2 writers, 1 region, generations 0..2: two calls, handles may first be pinned at any earlier version
            # (also plain table appends)
            dict(name="pin2", regions=["A"], maxgen=2, handles=["a", "b"], maxops=2, maxhi=2,
                 opkinds=base + ["checkout", "tappend"], prefixes=one, cap=450, mc=True),
            # three calls (staleness by the other writer's commits) after the prefixes that end flushed / merged / trimmed
            dict(name="conc3", regions=["A"], maxgen=2, handles=["a", "b"], maxops=3, maxhi=2, opkinds=base,
                 prefixes=[4, 5, 6, 9, 10, 11, 17], cap=450, mc=True),
            # every call the API must reject (wrong state, missing generation, wrong / missing expected owner)
            dict(name="invalid", regions=["A"], maxgen=1, handles=["a"], maxops=1, maxhi=1,
                 opkinds=base + ["invalid"], prefixes=[1, 2, 4, 5, 7, 9], cap=150, mc=True),
        ]
    return [
        dict(name="pin3", regions=["A"], maxgen=2, handles=["a", "b"], maxops=3, maxhi=2, opkinds=base + ["checkout"],
             prefixes=one, cap=4000, mc=True),
        dict(name="conc4", regions=["A"], maxgen=2, handles=["a", "b"], maxops=4, maxhi=2, opkinds=base + ["tappend"],
             prefixes=[4, 5, 6, 9, 10, 11, 17], cap=4000, mc=True),
        dict(name="three", regions=["A", "B"], maxgen=1, handles=["a", "b", "c"], maxops=3, maxhi=1, opkinds=base,
             prefixes=two, cap=3000, mc=True),
        dict(name="three-pin", regions=["A", "B"], maxgen=1, handles=["a", "b", "c"], maxops=2, maxhi=1,
             opkinds=base + ["checkout"], prefixes=two, cap=1500, mc=True),
        dict(name="invalid", regions=["A"], maxgen=1, handles=["a", "b"], maxops=2, maxhi=1,
             opkinds=ALL_KINDS + ["invalid"], prefixes=[1, 2, 4, 5, 7, 9], cap=1500, mc=True),
        # deeper random walks of the as-built model (no exhaustive claim)
        dict(name="deep", regions=["A", "B"], maxgen=2, handles=["a", "b", "c"], maxops=7, maxhi=2, opkinds=ALL_KINDS,
             prefixes=list(range(1, 19)), cap=1500, mc=False, simulate="num=3000"),
    ]


def S(k, h, r="", g=0, exp="", own="", eid=0, v=0, **kw):
    d = {"k": k, "h": h, "r": r, "g": g, "exp": exp, "own": own, "eid": eid, "v": v}
    d.update(kw)
    return d


def hist_to_scenario(hist, sid, handles):
    """TLC history -> driver scenario, plus tags used only for the stratified choice."""
    pre = hist[0]["steps"]
    steps = [S("create", "m")]
    nv = 1
    for st in pre:
        steps.append(S(st["k"], "m", st["r"], st["g"], st["exp"], st["own"], st["eid"]))
        if st["res"] == "ok":
            nv += 1
    hv = {}
    for h in handles:
        steps.append(S("checkout", h, v=nv, **{"from": "m"}))
        hv[h] = nv
    tags = set()
    for st in hist[1:]:
        h = st["h"]
        if st["k"] == "checkout":
            steps.append(S("checkout", h, v=st["v"], **{"from": "m"}))
            hv[h] = st["v"]
            continue
        steps.append(S(st["k"], h, st["r"], st["g"], st["exp"], st["own"], st["eid"]))
        stale = hv[h] < nv
        if stale and st["res"] == "ok":
            tags.add("stale_ok")
        if stale and st["res"] == "incompatible":
            tags.add("stale_conflict")
        tags.add(st["k"])
        if st["res"] == "ok":
            nv += 1
            hv[h] = nv
    return {"id": sid, "prefix": hist[0]["prefix"], "steps": steps, "model_res": [st["res"] for st in hist[1:]]}, tags


def pick(items, cap, rnd, per_sig=8):
    """items: list of (scenario, tags, sigs).  Seeded stratified choice.  Every finding signature the as-built
    model produces in this family is represented (so the set of findings a run reports does not depend on the
    seed); then histories in which a stale handle committed, histories with a conflict on a stale handle, the rest."""
    if len(items) <= cap:
        return [it[0] for it in items], True
    idx = list(range(len(items)))
    taken = set()
    by_sig = {}
    for i in idx:
        for sg in items[i][2]:
            by_sig.setdefault(sg, []).append(i)
    for sg in sorted(by_sig):
        taken.update(rnd.sample(by_sig[sg], min(len(by_sig[sg]), per_sig)))
    groups = [[i for i in idx if items[i][2]],
              [i for i in idx if not items[i][2] and "stale_ok" in items[i][1]],
              [i for i in idx if not items[i][2] and "stale_ok" not in items[i][1] and "stale_conflict" in items[i][1]],
              [i for i in idx if not items[i][2] and not {"stale_ok", "stale_conflict"} & items[i][1]]]
    room = max(0, cap - len(taken))
    for grp, share in zip(groups, (0.35, 0.35, 0.15, 0.15)):
        grp = [i for i in grp if i not in taken]
        taken.update(rnd.sample(grp, min(len(grp), int(room * share))))
    rest = [i for i in idx if i not in taken]
    if len(taken) < cap and rest:
        taken.update(rnd.sample(rest, min(len(rest), cap - len(taken))))
    return [items[i][0] for i in sorted(taken)], False


def sig_key(inv, dev):
    return (inv, tuple(dev))


def replay_and_validate(name, prop, scenarios, shards, mutate=None, timeout=3000):
    binary, build_s = vlib.harness_build("vh_memwal")
    wd = vlib.workdir(f"memwal-{prop}-{name}")
    scn_file = os.path.join(wd, "scenarios.ndjson")
    with open(scn_file, "w") as f:
        for s in scenarios:
            f.write(json.dumps(s) + "\n")
    scratch = os.path.join(vlib.WORK, f"memwal-scratch-{name}-{os.getpid()}")

    def one(k):
        tf = os.path.join(wd, f"trace{k}.ndjson")
        args = ["--scenarios", scn_file, "--out", tf, "--scratch", f"{scratch}-{k}", "--shard", k, "--shards", shards]
        if mutate:
            args += ["--mutate", mutate]
        vlib.harness_run(binary, args, timeout=timeout)
        shutil.rmtree(f"{scratch}-{k}", ignore_errors=True)
        v = vlib.tlc_trace(f"memwal-{prop}-{name}-{k}", "Trace_MemWal", TRACE_CFG % tla_set(AS_BUILT), tf,
                           timeout=timeout, xmx="4g")
        return tf, v

    out = []
    with cf.ThreadPoolExecutor(max_workers=shards) as ex:
        for tf, v in ex.map(one, range(shards)):
            if not v["reports"] or not v["accepted"]:
                raise vlib.ToolError(f"trace validation did not complete: {v['out']}")
            rep = v["reports"][-1]
            with open(v["out"]) as f:       # failures are printed per scenario (BAD) and at the end (REPORT)
                earlier = vlib._printed(f.read(), "BAD")
            rep["bad"] = [b for chunk in earlier for b in chunk] + list(rep["bad"])
            out.append((tf, rep))
    return out, scn_file, build_s


def collect(prop, out, reports, scn_by_id, counts_total, per_scn_bad, observed=None):
    events = 0
    for tf, rep in reports:
        events += rep["events"]
        for k, v in rep["counts"].items():
            counts_total[k] = counts_total.get(k, 0) + v
        lines = None
        for b in rep["bad"]:
            pos, scn, i, kind, inv, extra = b
            per_scn_bad.add(scn)
            if observed is not None:
                observed.setdefault(scn, set()).add(sig_key(inv, extra))
            if lines is None:
                lines = open(tf).read().splitlines()
            ev = json.loads(lines[pos - 1])
            if inv == "Conformance":
                sig = {"invariant": "Conformance", "op": kind, "class": extra[0] if extra else ""}
                desc = (f"{kind} by handle {ev['step'].get('h')} (scenario {scn} step {i}): the implementation's "
                        f"{sig['class']} is not what the as-built model predicts: res={ev['res']} {ev.get('text', '')[:160]} "
                        f"list={[(x['r'], x['g'], x['st'], x['own']) for x in ev['latest'].get('list', [])]}")
            else:
                sig = {"invariant": inv, "deviation": list(extra)}
                desc = (f"{inv} violated on the implementation by {kind} of handle {ev['step'].get('h')} "
                        f"(scenario {scn} step {i}; deviations {list(extra)}): res={ev['res']} latest v{ev['latest'].get('v')} "
                        f"list={[(x['r'], x['g'], x['st'], x['own']) for x in ev['latest'].get('list', [])]}")
            out.report(sig, desc, {"scenario": scn_by_id.get(scn), "step": i, "invariant": inv, "event": ev, "trace": tf})
    return events


def nontrivial_scenarios(reports):
    """scenarios (by id) in which at least one MemWAL transaction committed through a concurrent writer's handle"""
    good = set()
    for tf, _ in reports:
        with open(tf) as f:
            for line in f:
                e = json.loads(line)
                if e.get("ev") == "step" and e["res"] == "ok" and e["step"]["k"] not in ("create", "checkout") \
                        and e["step"]["h"] != "m":
                    good.add(e["scn"])
    return good


def run(prop, tier, replay):
    t0 = time.time()
    rnd = random.Random(vlib.seed())
    out = vlib.Outcome(prop)
    assumptions = [
        "concurrency is expressed as stale read versions + commit order (operations through handles pinned at old versions, "
        "commit retries never rebuild a MemWAL transaction); one commit at a time",
        "callers are honest: a writer passes as expected owner the owner it read (dishonest / ill-timed calls are the 'invalid' family)",
        "merge_insert jobs insert fresh keys, so two of them never conflict on fragments",
        "no user index exists, so trim_mem_wal_index's index catch-up rule never retains a merged generation",
        "TLC and the JSON projection of the raw MemWalIndexDetails.mem_wal_list are trusted",
    ]
    if replay:
        case = json.load(open(replay))["case"]
        reports, scn_file, build_s = replay_and_validate("replay", prop, [case["scenario"]], 1)
        counts, badscn = {}, set()
        collect(prop, out, reports, {case["scenario"]["id"]: case["scenario"]}, counts, badscn)
        return out.finish()

    shards = 8
    fams = families(tier)
    all_inv = "INVARIANTS TypeOK " + " ".join(INVS) + "\nPROPERTIES HistoryImmutable"

    # 1. the intended design satisfies the property; 2. histories of the as-built model (all TLC runs in parallel)
    def mc_intended(fam):
        return vlib.tlc_mc(f"{prop}-{fam['name']}-intended", "MemWal", cfg_text(fam, [], all_inv), workers=4,
                           timeout=2400, xmx="6g", coverage=False)

    def gen_as_built(fam):
        return vlib.tlc_gen(f"{prop}-{fam['name']}", "MemWal", cfg_text(fam, AS_BUILT, "INVARIANTS GenPrint"), tag="SCN",
                            workers=1 if fam.get("simulate") else 4, timeout=2400, simulate=fam.get("simulate"), xmx="6g")

    with cf.ThreadPoolExecutor(max_workers=4) as ex:
        f_mc = {fam["name"]: ex.submit(mc_intended, fam) for fam in fams if fam["mc"]}
        f_gen = {fam["name"]: ex.submit(gen_as_built, fam) for fam in fams}
        r_mc = {k: f.result() for k, f in f_mc.items()}
        r_gen = {k: f.result() for k, f in f_gen.items()}
    phase = {"tlc_s": round(time.time() - t0, 1)}

    states = trans = 0
    mc_info = []
    model_sigs = {}
    exhaustive_sigs = set()
    exhaustive = True
    chosen_all = []
    predicted = {}
    fam_of = {}
    for fam in fams:
        if fam["mc"]:
            r = r_mc[fam["name"]]
            if r["violated"]:
                out.report({"spec": "MemWal", "invariant": r["violated"]},
                           f"the intended design violates {r['violated']} ({r['out']})", {"family": fam["name"]})
            if r.get("distinct", 0) < 100 or r.get("depth", 0) < fam["maxops"] + 1:
                raise vlib.ToolError(f"vacuous model run ({fam['name']}): {r['out']}")
            states += r.get("distinct", 0)
            trans += r.get("generated", 0)
            mc_info.append({"family": fam["name"], "design": "intended", "distinct": r.get("distinct"),
                            "generated": r.get("generated"), "depth": r.get("depth"), "wall_s": r["wall_s"]})
        printed, gstats = r_gen[fam["name"]]
        seen = set()
        hists = []
        for x in printed:
            key = json.dumps(x["hist"], sort_keys=True)
            if key not in seen:
                seen.add(key)
                hists.append(x)
        if not hists:
            raise vlib.ToolError(f"TLC generated no history ({fam['name']})")
        items = []
        for x in hists:
            sc, tags = hist_to_scenario(x["hist"], len(predicted) + 1, fam["handles"])
            sigs = sorted({sig_key(sg[0], sg[1]) for sg in x["sigs"]})
            predicted[sc["id"]] = sigs
            for sg in sigs:
                model_sigs[sg] = model_sigs.get(sg, 0) + 1
            items.append((sc, tags, sigs))
        if fam.get("simulate"):
            # random deep walks: only those whose findings are the ones of the exhaustive families (stable signatures)
            items = [it for it in items if all(sg in exhaustive_sigs for sg in it[2])]
        else:
            exhaustive_sigs.update(sg for it in items for sg in it[2])
        chosen, complete = pick(items, fam["cap"], rnd)
        if not complete or fam.get("simulate"):
            exhaustive = False
        for sc in chosen:
            fam_of[sc["id"]] = fam["name"]
        chosen_all += chosen
        mc_info.append({"family": fam["name"], "design": "as-built (history generation)", "histories": len(hists),
                        "histories_breaking_an_invariant_in_the_model": sum(1 for x in hists if x["sigs"]),
                        "replayed": len(chosen), "distinct": gstats.get("distinct"), "generated": gstats.get("generated"),
                        "wall_s": gstats["wall_s"]})
        if not fam.get("simulate"):
            states += gstats.get("distinct", 0)
            trans += gstats.get("generated", 0)

    # 3. replay on the implementation, 4. validate
    mutate = os.environ.get("VERIF_C39_MUTATE")     # binding demonstration only: seeded defects emulated by the driver
    reports, scn_file, build_s = replay_and_validate("all", prop, chosen_all, shards, mutate=mutate)
    phase["replay_validate_s"] = round(time.time() - t0 - phase["tlc_s"], 1)
    scn_by_id = {s["id"]: s for s in chosen_all}
    counts_total = {}
    badscn = set()
    observed = {}
    total_events = collect(prop, out, reports, scn_by_id, counts_total, badscn, observed)
    total_scn = len(chosen_all)
    accepted = total_scn - len(badscn)
    nontrivial = len(nontrivial_scenarios(reports) - badscn)
    samples = []
    with open(reports[0][0]) as f:
        ls = [json.loads(x) for x in f.read().splitlines()]
    for want in ({sid for sid in badscn}, set(scn_by_id) - badscn):
        for sid in sorted(want):
            evs = [e for e in ls if e.get("scn") == sid and e["ev"] == "step"]
            if evs:
                samples.append({"family": fam_of[sid], "scenario": scn_by_id[sid], "events": evs})
                break
    # the implementation conformed step by step, so the invariants it breaks per scenario must be the ones the
    # as-built model breaks on the same history; anything else is a fault of this machinery
    nonconf = {b for b in badscn if any(sg[0] == "Conformance" for sg in observed.get(b, set()))}
    for sid in scn_by_id:
        if mutate:
            break
        if sid not in nonconf and sorted(observed.get(sid, set())) != predicted[sid]:
            raise vlib.ToolError(f"scenario {sid}: model predicts violations {predicted[sid]} but the trace validator "
                                 f"found {sorted(observed.get(sid, set()))}")
    obs_sigs = {}
    for sid, sgs in observed.items():
        for sg in sgs:
            obs_sigs[sg] = obs_sigs.get(sg, 0) + 1
    # vacuity: the run must have exercised what it claims
    need = ["advance", "append", "seal", "flush", "merge", "owner", "trim", "mmerge", "checkout", "tappend",
            "ok", "incompatible", "invalid", "stale_ok", "stale_incompatible", "versions_judged", "scenarios"]
    missing = [k for k in need if counts_total.get(k, 0) == 0]
    if missing:
        raise vlib.ToolError(f"vacuous run: nothing recorded for {missing}")
    if counts_total.get("skipped_steps", 0) and not out.violations and not out.known:
        raise vlib.ToolError("steps were skipped without a recorded nonconformance")
    rc = out.finish()
    vlib.write_evidence(prop, tier, "model_checking", {
        "states": states, "transitions": trans, "traces_validated_against_impl": accepted,
        "samples": samples, "evaluations": total_scn, "distinct_nontrivial": nontrivial,
        "rule": "histories are printed by TLC from MemWal.tla (Deviations = AsBuilt), one per distinct state at the operation "
                "bound (the history is part of the state, so they are pairwise distinct); a seeded stratified subset is "
                "replayed when above the cap; non-trivial = at least one MemWAL transaction committed through a concurrent "
                "writer's handle and every step of the scenario was accepted by Trace_MemWal",
        "exhaustive": exhaustive, "model_runs": mc_info, "event_counts": counts_total, "events_validated": total_events,
        "as_built_model_findings": [{"invariant": k[0], "deviation": list(k[1]), "histories": v} for k, v in sorted(model_sigs.items())],
        "findings_observed_on_impl": [{"invariant": k[0], "deviation": list(k[1]), "scenarios": v} for k, v in sorted(obs_sigs.items())],
        "deviations_believed_as_built": AS_BUILT,
        "deviations_observed_on_impl": {d: counts_total.get(d, 0) for d in ALL_DEVIATIONS},
        "invariants": INVS, "harness_build_s": build_s, "phase_wall_s": phase,
    }, time.time() - t0, len(out.violations), assumptions)
    return rc
