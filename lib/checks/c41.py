"""C41 -- replay spills and stream chunking deliver every batch exactly once (spec/Spill*.tla).

1. TLC model-checks Spill.tla: the spill protocol with the sender's write() split at its await points and
   readers interleaving (EveryReaderSeesAllInOrder, PublishedOnDisk, ReadsNeverFail), and the Chunk law
   for the transcriptions of BatchReaderChunker / StrictBatchSizeStream over the whole input universe.
2. TLC generates schedules (atomic write(): the grain a single-threaded driver can schedule), one per
   distinct model state at the depth bound; harness/src/bin/vh_spill.rs replays them on the real spill
   and calls the real chunkers on the whole universe.
3. Trace_Spill.tla explains every recorded step / judges every chunker call.
"""
import concurrent.futures as cf
import json
import os
import random
import time

import vlib

CFG = """SPECIFICATION Spec
CONSTANTS
  Mode = "{mode}"
  Fine = {fine}
  Limits = {{0, 2, 5, 1000000}}
  MaxBatches = {batches}
  MaxReaders = {readers}
  MaxSteps = {steps}
  AllowError = TRUE
  MaxBatchRows = {rows}
  MaxChunk = {chunk}
{what}
VIEW StateView
CHECK_DEADLOCK FALSE
"""
TRACE_CFG = """SPECIFICATION TraceSpec
INVARIANT Report
POSTCONDITION TraceAccepted
CHECK_DEADLOCK FALSE
"""
SUM_KEYS = ("scenarios", "steps", "explained", "batches", "ends", "errors", "pendings", "resumed", "rejected",
            "file_reads", "switched", "spilled", "full_readers", "chunk")


def bounds(tier):
    if tier == "quick":
        return dict(mc=dict(batches=3, readers=2, steps=12), gen=[dict(batches=3, readers=2, steps=14)],
                    chunk=dict(rows=4, batches=4, chunk=5), cap=900, parts=6)
    return dict(mc=dict(batches=4, readers=3, steps=14),
                gen=[dict(batches=3, readers=2, steps=14), dict(batches=4, readers=3, steps=16),
                     dict(batches=2, readers=3, steps=12)],
                chunk=dict(rows=5, batches=5, chunk=6), cap=12000, parts=12)


def validate(prop, name, tf):
    return vlib.tlc_trace(f"{prop}-{name}", "Trace_Spill", TRACE_CFG, tf, timeout=1500, xmx="4g")


def run(prop, tier, replay):
    t0 = time.time()
    out = vlib.Outcome(prop)
    b = bounds(tier)
    assumptions = [
        "the driver is one task on a current-thread runtime: write()/finish() run to completion before a reader is polled "
        "(the interleaving of readers with the await points inside write() is model-checked on the spec only)",
        "every batch has the same accounted size (MemoryAccumulator, measured by the driver); memory limits 0, 1, 2.5 batches, none",
        "no I/O faults on the spill file; send_error is not followed by finish-dependent reads of ended readers",
        "arrow IPC stream reader/writer, tokio watch channel and the blocking pool (FIFO, one thread) are trusted",
    ]
    binary, build_s = vlib.harness_build("vh_spill")
    wd = vlib.workdir(f"{prop}-traces")
    fdir = vlib.workdir("spill-files")
    ch = b["chunk"]
    jobs = {}
    with cf.ThreadPoolExecutor(max_workers=6) as ex:
        if replay:
            case = json.load(open(replay))["case"]
            scs = [case["scenario"]] if "scenario" in case else []
            mc_f = mcc_f = None
            gens = []
        else:
            mc_f = ex.submit(vlib.tlc_mc, f"{prop}-fine", "Spill",
                             CFG.format(mode="spill", fine="TRUE", rows=0, chunk=1, **b["mc"],
                                        what="INVARIANTS EveryReaderSeesAllInOrder InvPublishedOnDisk ReadsNeverFail"),
                             4, 1500, False, None, "4g")
            mcc_f = ex.submit(vlib.tlc_mc, f"{prop}-chunk", "Spill",
                              CFG.format(mode="chunk", fine="FALSE", batches=ch["batches"], readers=1, steps=1,
                                         rows=ch["rows"], chunk=ch["chunk"], what="INVARIANTS ChunkLawHolds"),
                              4, 1500, False, None, "4g")
            gens = [ex.submit(vlib.tlc_gen, f"{prop}-gen{i}", "Spill",
                              CFG.format(mode="spill", fine="FALSE", rows=0, chunk=1, what="INVARIANTS GenPrint", **g),
                              "SCN", 1, 1500, None, "4g") for i, g in enumerate(b["gen"])]
            # chunker universe on the real code (independent of TLC's runs)
            ctf = os.path.join(wd, "chunk.ndjson")
            vlib.harness_run(binary, ["--chunk", "--out", ctf, "--max-rows", ch["rows"], "--max-batches", ch["batches"],
                                      "--max-chunk", ch["chunk"]])
            jobs["chunk"] = ex.submit(validate, prop, "chunk", ctf)
            scs, seen = [], set()
            gen_stats = []
            for g in gens:
                got, gs = g.result()
                gen_stats.append(dict(gs, scenarios=len(got)))
                for s in got:
                    k = json.dumps(s, sort_keys=True)
                    if k not in seen:
                        seen.add(k)
                        scs.append(s)
            if len(scs) > b["cap"]:
                random.Random(vlib.seed()).shuffle(scs)
                scs = scs[: b["cap"]]
        for i, s in enumerate(scs):
            s["id"] = i
        nparts = max(1, min(b["parts"], len(scs)))
        parts = [scs[i::nparts] for i in range(nparts)]
        traces = {}
        hs0 = time.time()
        for pi, part in enumerate(parts):
            sf, tf = os.path.join(wd, f"scn{pi}.ndjson"), os.path.join(wd, f"trace{pi}.ndjson")
            with open(sf, "w") as f:
                for s in part:
                    f.write(json.dumps(s) + "\n")
            vlib.harness_run(binary, ["--scenarios", sf, "--out", tf, "--dir", fdir])
            traces[f"p{pi}"] = tf
            jobs[f"p{pi}"] = ex.submit(validate, prop, f"p{pi}", tf)
        harness_s = round(time.time() - hs0, 1)
        if not replay:
            traces["chunk"] = ctf
        results = {k: f.result() for k, f in jobs.items()}
        mcs = []
        if not replay:
            for nm, f in (("spill-fine", mc_f), ("chunk-law", mcc_f)):
                r = f.result()
                if r["violated"]:
                    out.report({"spec": "Spill", "invariant": r["violated"], "cfg": nm},
                               f"the design-level model violates {r['violated']} ({r['out']})", {"cfg": nm})
                mcs.append({"cfg": nm, "distinct": r.get("distinct"), "generated": r.get("generated"),
                            "depth": r.get("depth"), "wall_s": r["wall_s"]})
    by_id = {s["id"]: s for s in scs}
    agg = {k: 0 for k in SUM_KEYS}
    sets = dict(limits=set(), ops=set(), chunk_fns=set())
    universe = None
    accepted = nontrivial = 0
    samples = []
    for name, v in sorted(results.items()):
        if not v["reports"] or not v["accepted"]:
            raise vlib.ToolError(f"trace validation did not finish for {name}: {v['out']}")
        rep = v["reports"][-1]
        st = rep["stats"]
        for k in SUM_KEYS:
            agg[k] += st[k]
        for k in sets:
            sets[k].update(st[k])
        if st["universe"]:
            universe = st["universe"]
        lines = open(traces[name]).read().splitlines()
        by_sc, chunk_ok = {}, 0
        for ln in lines:
            e = json.loads(ln)
            if e["k"] == "chunk":
                chunk_ok += 1 if sum(e["sizes"]) > 0 else 0
            elif "sc" in e:
                by_sc.setdefault(e["sc"], []).append(e)
        badsc = set()
        nbadchunk = 0
        for bd in rep["bad"]:
            ev = json.loads(lines[bd["pos"] - 1])
            if bd["kind"] == "chunk-law":
                nbadchunk += 1
                out.report({"kind": "chunk-law", "class": bd["class"]},
                           f"chunker output violates the Chunk law {bd['class']}: {lines[bd['pos'] - 1][:400]}", {"event": ev})
                continue
            badsc.add(bd["sc"])
            payload = {"scenario": by_id.get(bd["sc"]), "trace": by_sc.get(bd["sc"], []), "judgement": bd}
            if bd["kind"] == "invariant":
                for inv in bd["class"]:
                    out.report({"invariant": inv}, f"{inv} violated on the implementation's trace: {by_id.get(bd['sc'])}", payload)
            elif bd["kind"] == "illegal-step":
                raise vlib.ToolError(f"scenario step not enabled in the model: {bd}")
            else:
                out.report({"kind": bd["kind"], "class": bd["class"]},
                           f"{bd['kind']} {bd['class']}: recorded step is not a behaviour of Spill.tla: {lines[bd['pos'] - 1][:300]}",
                           payload)
        if name == "chunk":
            accepted += st["chunk"] - nbadchunk
            nontrivial += chunk_ok - nbadchunk
            samples.append({"chunk_calls": [json.loads(lines[i]) for i in (len(lines) // 2, len(lines) - 1)]})
        else:
            for sid, evs in by_sc.items():
                if sid not in badsc:
                    accepted += 1
                    if any(e.get("res", [""])[0] == "batch" for e in evs):
                        nontrivial += 1
            if len(samples) < 3 and by_sc:
                sid = max(by_sc, key=lambda k: sum(1 for e in by_sc[k] if e.get("res", [""])[0] in ("batch", "end")))
                samples.append({"scenario": by_id.get(sid), "trace": by_sc[sid]})
    if not replay and not out.violations:
        exp_chunk = sum((ch["rows"] + 1) ** n for n in range(ch["batches"] + 1)) * ch["chunk"] * 3
        if agg["chunk"] != exp_chunk or universe != [ch["rows"], ch["batches"], ch["chunk"]]:
            raise vlib.ToolError(f"chunker universe incomplete: {agg['chunk']} calls, expected {exp_chunk} ({universe})")
        if sets["ops"] != {"write", "finish", "error", "open", "next"} or sets["limits"] != {0, 2, 5, 1000000}:
            raise vlib.ToolError(f"vacuous run: ops {sets['ops']} limits {sets['limits']}")
        for k in ("batches", "ends", "errors", "pendings", "resumed", "rejected", "file_reads", "switched", "spilled"):
            if agg[k] == 0:
                raise vlib.ToolError(f"vacuous run: no event of class {k}")
    rc = out.finish()
    states = sum(m["distinct"] or 0 for m in mcs)
    trans = sum(m["generated"] or 0 for m in mcs)
    vlib.write_evidence(prop, tier, "model_checking", {
        "states": max(states, 1), "transitions": max(trans, 1), "traces_validated_against_impl": accepted,
        "samples": samples, "evaluations": len(scs) + agg["chunk"], "distinct_nontrivial": nontrivial,
        "rule": "spill: one schedule per distinct model state at the depth bound (TLC, VIEW = sender+readers+depth), all replayed "
                "(seeded sample above the cap); non-trivial = explained completely and at least one batch delivered to a reader. "
                "chunker: every (batch-size list, chunk size) of the universe for three functions; non-trivial = non-empty input",
        "exhaustive": False, "chunker_universe_exhaustive": not replay, "model_runs": mcs,
        "schedule_generation": None if replay else gen_stats, "steps_validated": agg["explained"], "stats": agg,
        "classes": {k: sorted(v) for k, v in sets.items()}, "chunker_universe": universe,
        "harness_build_s": build_s, "harness_s": harness_s,
    }, time.time() - t0, len(out.violations), assumptions)
    return rc


def selftest():
    """Binding demonstration: corrupt recorded fields; run seeded mutations of the scratch copy in the driver."""
    wd = os.path.join(vlib.WORK, "C41-traces")
    binary, _ = vlib.harness_build("vh_spill")
    st = vlib.workdir("spill-selftest")
    fdir = vlib.workdir("spill-selftest-files")
    lines = open(os.path.join(wd, "trace0.ndjson")).read().splitlines()

    def judge(name, text):
        tf = os.path.join(st, name + ".ndjson")
        open(tf, "w").write("\n".join(text) + "\n")
        return validate("spill-self", name, tf)["reports"][-1]["bad"]

    evs = [json.loads(x) for x in lines]
    i_batch = next(i for i, e in enumerate(evs) if e["k"] == "step" and e["res"][0] == "batch" and e["res"][1][0] > 0)
    i_end = next(i for i, e in enumerate(evs) if e["k"] == "step" and e["res"][0] == "end")
    i_pend = next(i for i, e in enumerate(evs) if e["k"] == "step" and e["res"][0] == "pending")
    i_file = next(i for i, e in enumerate(evs) if e["k"] == "step" and e["file"])

    def corrupt(i, f):
        e = json.loads(lines[i])
        f(e)
        return lines[:i] + [json.dumps(e)] + lines[i + 1:]

    cases = {
        "baseline": lines,
        "batch_row": corrupt(i_batch, lambda e: e["res"][1].__setitem__(0, e["res"][1][0] - 3)),
        "end_as_batch": corrupt(i_end, lambda e: e.__setitem__("res", ["batch", [0, 1, 2]])),
        "pending_as_end": corrupt(i_pend, lambda e: e.__setitem__("res", ["end"])),
        "file_flag": corrupt(i_file, lambda e: e.__setitem__("file", False)),
        "dropped_event": lines[:i_batch] + lines[i_batch + 1:],
    }
    for k, text in cases.items():
        bad = judge(k, text)
        print(f"corruption {k}: rejected={bool(bad)} first={bad[:1]}")
    cl = open(os.path.join(wd, "chunk.ndjson")).read().splitlines()
    i_c = next(i for i, x in enumerate(cl) if '"strict_batch_size_stream"' in x and len(json.loads(x)["out"]) > 1)
    e = json.loads(cl[i_c])
    e["out"][0], e["out"][1] = e["out"][1], e["out"][0]
    bad = judge("chunk_swap", cl[:i_c] + [json.dumps(e)] + cl[i_c + 1:])
    print(f"corruption chunk_swap: rejected={bool(bad)} first={bad[:1]}")
    scn = os.path.join(wd, "scn0.ndjson")
    for m in ("none", "no_skip_on_switch", "spill_drops_first", "limit_ge", "finish_no_notify"):
        tf = os.path.join(st, f"mut-{m}.ndjson")
        vlib.harness_run(binary, ["--scenarios", scn, "--out", tf, "--dir", fdir, "--mutate", m])
        bad = validate("spill-self", "mut-" + m, tf)["reports"][-1]["bad"]
        kinds = sorted({json.dumps([x["kind"], x["class"]]) for x in bad})
        print(f"mutation {m}: caught={bool(bad)} findings={len(bad)} classes={kinds[:5]}")
    for m in ("none", "chunk_keep_offset"):
        tf = os.path.join(st, f"mutc-{m}.ndjson")
        vlib.harness_run(binary, ["--chunk", "--out", tf, "--mutate", m])
        bad = validate("spill-self", "mutc-" + m, tf)["reports"][-1]["bad"]
        kinds = sorted({json.dumps([x["kind"], x["class"]]) for x in bad})
        print(f"mutation {m} (chunk_stream copy): caught={bool(bad)} findings={len(bad)} classes={kinds[:5]}")
