"""C42 -- a copied table root is a complete, identical table: after every history the directory is copied byte for byte,
the original is moved away, and every version and tag is re-read at the copy (Trace_LanceTable: CopyReadsSame)."""
from checks import table_common as T

FAMILIES = [dict(name="copy", ids=[1, 2, 3, 4], vals=[5], maxv=8, maxops=3, maxops_thorough=4, stable=[True, False],
                 opkinds=["append", "delete", "update", "upsert", "compact", "restore", "overwrite", "checkout"])]
TAIL = [{"op": "create_index", "h": "main", "col": "val", "type": "btree"}, {"op": "tag", "name": "t1", "v": 1},
        {"op": "tag", "name": "t2", "v": 2}, {"op": "copy_reread"},
        {"op": "query", "pred": ["cmp", "val", "=", 5], "variants": [{"name": "base"}, {"use_scalar_index": False}]}]


def run(prop, tier, replay):
    return T.run(prop, tier, FAMILIES, {"CopyReadsSame"}, replay=replay, tail_steps=TAIL, quick_cap=800,
                 assumptions=["tables without foreign base paths (no branches / shallow clones), local file system",
                              "every version is compared by its full projection (rows, order, deletions, counters, schema, index list, config); "
                              "tags must list and resolve identically"])
