"""Shared logic of the commit-protocol checks C01, C02, C10 (spec/LanceStore.tla, LanceCommit.tla,
MC_LanceCommit.tla, Trace_LanceCommit.tla; harness/src/gate.rs, harness/src/bin/vh_commit.rs).

Pipeline of one check (see docs/MODULE_GUIDE.md):
  1. TLC model-checks LanceCommit for each scenario family (handler x operations x fault budgets):
     the intended design (Deviations = {}) must satisfy every invariant; families that describe an
     as-built deviation are additionally run with the deviation switched on and are expected to
     violate exactly the invariant the finding is about.
  2. TLC (GEN configuration, VIEW hides the ghost history) prints one schedule per distinct completed
     model state; `-simulate` adds seeded random schedules.
  3. The harness replays every schedule on the real Dataset APIs through the gate store and records.
  4. TLC validates the recorded traces against Trace_LanceCommit (every call must be the next call of
     the actor's program with the recorded effect; all invariants judged on every state).
  5. Failures -> Outcome.report(signature); evidence with measured numbers.
"""
import concurrent.futures as cf
import json
import os
import random
import re
import time

import vlib

CFG = """SPECIFICATION Spec
CONSTANTS
  Handler = "{handler}"
  NamingV2 = {v2}
  InitMode = "{init}"
  Op1 = "{op1}"
  Op2 = "{op2}"
  Op4 = "{op4}"
  Att1 = {att1}
  Att2 = {att2}
  Att4 = {att4}
  RMode3 = {r3}
  RMode5 = {r5}
  FailBudget = {fail}
  LostBudget = {lost}
  CrashBudget = {crash}
  Deviations = {dev}
  MaxVer = 9
VIEW View
{tail}
CHECK_DEADLOCK FALSE
"""
INVS = ("TypeOK OneManifestPerVersion ManifestsImmutableInv AtMostOneLeaseHolder DenseVersions "
        "TargetIsLatestPlusOne DetachedNeverLatest NoTornWrite WriteAppliedOnce CommittedNeverLost ExtEntryResolvable "
        "ExtAgreesWithFinal ReaderRepairs WriterFinalises")
MC_TAIL = "INVARIANTS " + INVS + "\nPROPERTY ManifestsImmutable"
GEN_TAIL = "INVARIANTS GenPrint"

TRACE_CFG = """SPECIFICATION TraceSpec
CONSTANTS
  Handler = "condput"
  NamingV2 = FALSE
  InitMode = "table"
  Op1 = "none"
  Op2 = "none"
  Op4 = "none"
  Att1 = 1
  Att2 = 1
  Att4 = 1
  RMode3 = 99
  RMode5 = 99
  FailBudget = 0
  LostBudget = 0
  CrashBudget = 0
  Deviations = {dev}
  MaxVer = 9
INVARIANT Report
POSTCONDITION TraceAccepted
CHECK_DEADLOCK FALSE
"""

# which property an invariant belongs to (an invariant can serve several)
INV_PROPS = {
    "DenseVersions": ("C01",), "TargetIsLatestPlusOne": ("C01",), "DetachedNeverLatest": ("C01",),
    "NoTornWrite": ("C01",), "WriteAppliedOnce": ("C01",),
    "OneManifestPerVersion": ("C02", "C10"), "ManifestsImmutable": ("C02",), "ManifestsImmutableInv": ("C02",),
    "AtMostOneLeaseHolder": ("C02",),
    "CommittedNeverLost": ("C10", "C01"), "ExtEntryResolvable": ("C10",), "ExtAgreesWithFinal": ("C10",),
    "ReaderRepairs": ("C10",), "WriterFinalises": ("C10",),
    "TypeOK": ("C01", "C02", "C10"),
}


def fam(handler, op1="append", op2="append", op4="none", att=(2, 2, 1), r3=0, r5=99, fail=1, lost=0, crash=1,
        v2=False, init="table", dev=(), name=None):
    d = dict(handler=handler, op1=op1, op2=op2, op4=op4, att1=att[0], att2=att[1], att4=att[2], r3=r3, r5=r5,
             fail=fail, lost=lost, crash=crash, v2=v2, init=init, dev=tuple(dev))
    d["name"] = name or f"{handler}-{op1}-{op2}" + (f"-{op4}" if op4 != "none" else "") + \
        (f"-r{r3}" if r3 not in (0,) else "") + ("-v2" if v2 else "") + (f"-{init}" if init != "table" else "") + \
        f"-f{fail}l{lost}c{crash}" + ("-" + "+".join(dev) if dev else "")
    return d


def cfg_text(f, tail, dev=None):
    dv = f["dev"] if dev is None else dev
    return CFG.format(handler=f["handler"], v2="TRUE" if f["v2"] else "FALSE", init=f["init"], op1=f["op1"],
                      op2=f["op2"], op4=f["op4"], att1=f["att1"], att2=f["att2"], att4=f["att4"], r3=f["r3"],
                      r5=f["r5"], fail=f["fail"], lost=f["lost"], crash=f["crash"],
                      dev="{" + ", ".join('"%s"' % x for x in dv) + "}", tail=tail)


def actors_of(f):
    acts = []
    for i, (op, att) in ((1, (f["op1"], f["att1"])), (2, (f["op2"], f["att2"])), (4, (f["op4"], f["att4"]))):
        if op != "none":
            acts.append({"id": i, "role": "writer", "op": op, "attempts": att})
    for i, r in ((3, f["r3"]), (5, f["r5"])):
        if r != 99:
            acts.append({"id": i, "role": "reader", "mode": "latest" if r == 0 else "version", "version": r})
    return acts


def scenario(f, sid, steps, expect=None):
    return {"id": sid, "family": f["name"], "handler": f["handler"], "naming": "v2" if f["v2"] else "v1",
            "init": f["init"], "actors": actors_of(f), "steps": steps, "expect": expect or {}}


_RE_ACT = re.compile(r"^<N_(\w+) line [^>]*>: (\d+):(\d+)", re.M)


def model_check(prop, f, workers=4, timeout=600, dev=None, tag="mc"):
    r = vlib.tlc_mc(f"{prop}-{tag}-{f['name']}", "MC_LanceCommit", cfg_text(f, MC_TAIL, dev), workers=workers,
                    timeout=timeout, xmx="4g")
    # per storage-call action: number of transitions generated (TLC names N_<Action>)
    acts = {}
    for m in _RE_ACT.finditer(open(r["out"]).read()):
        acts[m.group(1)] = acts.get(m.group(1), 0) + int(m.group(3))
    r["actions"] = acts
    return r


def generate(prop, f, timeout=600):
    vals, stats = vlib.tlc_gen(f"{prop}-{f['name']}", "MC_LanceCommit", cfg_text(f, GEN_TAIL), workers=1,
                               timeout=timeout, xmx="4g")
    return [(v["steps"], {"res": v["res"], "ver": v["ver"]}) for v in vals], stats


def simulate(prop, f, num, depth=80, timeout=600):
    vals, stats = vlib.tlc_gen(f"{prop}-sim-{f['name']}", "MC_LanceCommit", cfg_text(f, GEN_TAIL), workers=1,
                               timeout=timeout, xmx="4g", simulate=f"num={num}")
    seen = set()
    out = []
    for v in vals:
        k = json.dumps(v["steps"])
        if k in seen:
            continue
        seen.add(k)
        out.append((v["steps"], {"res": v["res"], "ver": v["ver"]}))
    return out, stats


def replay_and_validate(prop, binary, name, scenarios, dev=(), mutate=None, timeout=900):
    """Runs the harness on `scenarios`, validates the trace.  Returns (report, trace_file, wall)."""
    wd = os.path.join(vlib.WORK, f"{prop}-run-{name}")
    os.makedirs(wd, exist_ok=True)
    sf = os.path.join(wd, "scn.ndjson")
    tf = os.path.join(wd, "trace.ndjson")
    with open(sf, "w") as fh:
        for s in scenarios:
            fh.write(json.dumps(s) + "\n")
    t0 = time.time()
    args = ["--scenarios", sf, "--out", tf]
    if mutate:
        args += ["--mutate", mutate]
    vlib.harness_run(binary, args, timeout=timeout)
    t1 = time.time()
    cfg = TRACE_CFG.format(dev="{" + ", ".join('"%s"' % x for x in dev) + "}")
    v = vlib.tlc_trace(f"{prop}-{name}", "Trace_LanceCommit", cfg, tf, timeout=timeout, xmx="4g")
    if not v["reports"]:
        raise vlib.ToolError(f"no REPORT from trace validation {name}: {v['out']}")
    if not v["accepted"]:
        raise vlib.ToolError(f"trace {name} not fully consumed: {v['out']}")
    return v["reports"][-1], tf, sf, {"harness_s": round(t1 - t0, 2), "validate_s": v["wall_s"]}
