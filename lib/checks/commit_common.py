"""Shared logic of the commit-protocol checks C01, C02, C10 (spec/LanceStore.tla, LanceCommit.tla,
MC_LanceCommit.tla, Trace_LanceCommit.tla; harness/src/gate.rs, harness/src/bin/vh_commit.rs).

Pipeline of one check (see docs/MODULE_GUIDE.md):
  1. TLC model-checks LanceCommit for each scenario family (handler x operations x fault budgets):
     the intended design (Deviations = {}) must satisfy every invariant; families that describe an
     as-built deviation are additionally run with the deviation switched on and are expected to
     violate exactly the invariant the finding is about.
  2. TLC (GEN configuration, VIEW hides the ghost history) prints one schedule per distinct completed
     model state; `-simulate` adds seeded random schedules.
  3. The harness replays every schedule on the real Dataset APIs through the gate store and records.
  4. TLC validates the recorded traces against Trace_LanceCommit (every call must be the next call of
     the actor's program with the recorded effect; all invariants judged on every state).
  5. Failures -> Outcome.report(signature); evidence with measured numbers.
"""
import concurrent.futures as cf
import json
import os
import random
import re
import time

import vlib

# the machine is shared: keep every JVM of this check to a few GC / JIT threads (picked up by all TLC runs)
os.environ.setdefault("JAVA_TOOL_OPTIONS", "-XX:ParallelGCThreads=2 -XX:CICompilerCount=2")

CFG = """SPECIFICATION Spec
CONSTANTS
  Handler = "{handler}"
  NamingV2 = {v2}
  InitMode = "{init}"
  Op1 = "{op1}"
  Op2 = "{op2}"
  Op4 = "{op4}"
  Att1 = {att1}
  Att2 = {att2}
  Att4 = {att4}
  RMode3 = {r3}
  RMode5 = {r5}
  FailBudget = {fail}
  LostBudget = {lost}
  CrashBudget = {crash}
  Deviations = {dev}
  MaxVer = 9
VIEW View
{tail}
CHECK_DEADLOCK FALSE
"""
INVS = ("TypeOK OneManifestPerVersion ManifestsImmutableInv AtMostOneLeaseHolder DenseVersions "
        "TargetIsLatestPlusOne DetachedNeverLatest NoTornWrite WriteAppliedOnce CommittedNeverLost ExtEntryResolvable "
        "ExtAgreesWithFinal ReaderRepairs WriterFinalises")
MC_TAIL = "INVARIANTS " + INVS + "\nPROPERTY ManifestsImmutable"
GEN_TAIL = "INVARIANTS GenPrint"

TRACE_CFG = """SPECIFICATION TraceSpec
CONSTANTS
  Handler = "condput"
  NamingV2 = FALSE
  InitMode = "table"
  Op1 = "none"
  Op2 = "none"
  Op4 = "none"
  Att1 = 1
  Att2 = 1
  Att4 = 1
  RMode3 = 99
  RMode5 = 99
  FailBudget = 0
  LostBudget = 0
  CrashBudget = 0
  Deviations = {dev}
  MaxVer = 9
INVARIANT Report
POSTCONDITION TraceAccepted
CHECK_DEADLOCK FALSE
"""

# which property an invariant belongs to (an invariant can serve several)
INV_PROPS = {
    "DenseVersions": ("C01",), "TargetIsLatestPlusOne": ("C01",), "DetachedNeverLatest": ("C01",),
    "NoTornWrite": ("C01",), "WriteAppliedOnce": ("C01",),
    "OneManifestPerVersion": ("C02", "C10"), "ManifestsImmutable": ("C02",), "ManifestsImmutableInv": ("C02",),
    "AtMostOneLeaseHolder": ("C02",),
    "CommittedNeverLost": ("C10", "C01"), "ExtEntryResolvable": ("C10",), "ExtAgreesWithFinal": ("C10",),
    "ReaderRepairs": ("C10",), "WriterFinalises": ("C10",),
    "TypeOK": ("C01", "C02", "C10"),
}


def fam(handler, op1="append", op2="append", op4="none", att=(2, 2, 1), r3=0, r5=99, fail=1, lost=0, crash=1,
        v2=False, init="table", dev=(), name=None):
    d = dict(handler=handler, op1=op1, op2=op2, op4=op4, att1=att[0], att2=att[1], att4=att[2], r3=r3, r5=r5,
             fail=fail, lost=lost, crash=crash, v2=v2, init=init, dev=tuple(dev))
    d["name"] = name or f"{handler}-{op1}-{op2}" + (f"-{op4}" if op4 != "none" else "") + \
        (f"-r{r3}" if r3 not in (0,) else "") + (f"-q{r5}" if r5 != 99 else "") + ("-v2" if v2 else "") + (f"-{init}" if init != "table" else "") + \
        f"-f{fail}l{lost}c{crash}" + ("-" + "+".join(dev) if dev else "")
    return d


def cfg_text(f, tail, dev=None):
    dv = f["dev"] if dev is None else dev
    return CFG.format(handler=f["handler"], v2="TRUE" if f["v2"] else "FALSE", init=f["init"], op1=f["op1"],
                      op2=f["op2"], op4=f["op4"], att1=f["att1"], att2=f["att2"], att4=f["att4"], r3=f["r3"],
                      r5=f["r5"], fail=f["fail"], lost=f["lost"], crash=f["crash"],
                      dev="{" + ", ".join('"%s"' % x for x in dv) + "}", tail=tail)


def actors_of(f):
    acts = []
    for i, (op, att) in ((1, (f["op1"], f["att1"])), (2, (f["op2"], f["att2"])), (4, (f["op4"], f["att4"]))):
        if op != "none":
            acts.append({"id": i, "role": "writer", "op": op, "attempts": att})
    for i, r in ((3, f["r3"]), (5, f["r5"])):
        if r != 99:
            acts.append({"id": i, "role": "reader", "mode": "latest" if r == 0 else "version", "version": r})
    return acts


def scenario(f, sid, steps, expect=None):
    return {"id": sid, "family": f["name"], "handler": f["handler"], "naming": "v2" if f["v2"] else "v1",
            "init": f["init"], "actors": actors_of(f), "steps": steps, "expect": expect or {}}


_RE_ACT = re.compile(r"^<N_(\w+) line [^>]*>: (\d+):(\d+)", re.M)


def model_check(prop, f, workers=4, timeout=600, dev=None, tag="mc"):
    r = vlib.tlc_mc(f"{prop}-{tag}-{f['name']}", "MC_LanceCommit", cfg_text(f, MC_TAIL, dev), workers=workers,
                    timeout=timeout, xmx="4g")
    # per storage-call action: number of transitions generated (TLC names N_<Action>)
    acts = {}
    for m in _RE_ACT.finditer(open(r["out"]).read()):
        acts[m.group(1)] = acts.get(m.group(1), 0) + int(m.group(3))
    r["actions"] = acts
    return r


def generate(prop, f, timeout=600):
    vals, stats = vlib.tlc_gen(f"{prop}-{f['name']}", "MC_LanceCommit", cfg_text(f, GEN_TAIL), workers=1,
                               timeout=timeout, xmx="4g")
    return [(v["steps"], {"res": v["res"], "ver": v["ver"]}) for v in vals], stats


def simulate(prop, f, num, depth=80, timeout=600):
    vals, stats = vlib.tlc_gen(f"{prop}-sim-{f['name']}", "MC_LanceCommit", cfg_text(f, GEN_TAIL), workers=1,
                               timeout=timeout, xmx="4g", simulate=f"num={num}")
    seen = set()
    out = []
    for v in vals:
        k = json.dumps(v["steps"])
        if k in seen:
            continue
        seen.add(k)
        out.append((v["steps"], {"res": v["res"], "ver": v["ver"]}))
    return out, stats


def replay_and_validate(prop, binary, name, scenarios, dev=(), mutate=None, timeout=900):
    """Runs the harness on `scenarios`, validates the trace.  Returns (report, trace_file, wall)."""
    wd = os.path.join(vlib.WORK, f"{prop}-run-{name}")
    os.makedirs(wd, exist_ok=True)
    sf = os.path.join(wd, "scn.ndjson")
    tf = os.path.join(wd, "trace.ndjson")
    with open(sf, "w") as fh:
        for s in scenarios:
            fh.write(json.dumps(s) + "\n")
    t0 = time.time()
    args = ["--scenarios", sf, "--out", tf]
    if mutate:
        args += ["--mutate", mutate]
    vlib.harness_run(binary, args, timeout=timeout)
    t1 = time.time()
    cfg = TRACE_CFG.format(dev="{" + ", ".join('"%s"' % x for x in dev) + "}")
    v = vlib.tlc_trace(f"{prop}-{name}", "Trace_LanceCommit", cfg, tf, timeout=timeout, xmx="4g")
    if not v["reports"]:
        raise vlib.ToolError(f"no REPORT from trace validation {name}: {v['out']}")
    if not v["accepted"]:
        raise vlib.ToolError(f"trace {name} not fully consumed: {v['out']}")
    return v["reports"][-1], tf, sf, {"harness_s": round(t1 - t0, 2), "validate_s": v["wall_s"]}


# ---------------------------------------------------------------------------------------------------
# the check

# deviations that describe the code as it is built today (schedules are generated from, and traces are
# validated against, the as-built model; the intended design is the model with Deviations = {})
AS_BUILT = ("ExtGetErrorDeletesStaging",)

PANIC_SIG = {"class": "panic", "op": "resolve_latest", "cause": "detached-manifest-in-v2-listing"}

ASSUMPTIONS = [
    "atomicity grain: one storage / external-store / lease call is one step; the object store provides atomic "
    "put-if-absent, rename-if-absent, copy and delete (object_store::memory::InMemory behind the gate store)",
    "GETs of manifests are not interleaving points (plain reads pass the gate unblocked; they are recorded and checked)",
    "every writer performs one operation; tables have one fragment of 4 setup rows; versions <= 5",
    "bare writers (CommitHandler::commit called directly with Manifest::new_from_previous(version 1), no transaction "
    "file) all target version 2 and make one attempt; they are not mixed with Dataset-API writers in one scenario",
    "a failed LIST of lance_io::ObjectStore::list and a failed HEAD of the object reader are retried by lance (5 / 3 "
    "times): the fault budgets used are smaller than those limits",
    "lock-based handler: the lease of a live holder does not expire (otherwise it does not provide atomic creation); "
    "the lease of a crashed holder may expire",
    "UnsafeCommitHandler is modelled and replayed but exempt from C02 (as the property states)",
    "cleanup (C08) does not run concurrently; detached commits only with the conditional-put handler",
    "trusted: TLC, the gate store's own bookkeeping (sequence numbers under one mutex, content hashes), tokio's "
    "current-thread scheduler for determinism",
]


def _sample(scs, cap, rnd):
    """Keep at most `cap` schedules: all with a fault/crash step first (seeded choice), then fault-free ones."""
    if len(scs) <= cap:
        return list(scs)
    scs = list(scs)
    rnd.shuffle(scs)
    # prefer long schedules and schedules with faults: they cover the retry / repair paths
    scs.sort(key=lambda x: (-(sum(1 for st in x[0] if st[1] != "ok") > 0), -len(x[0])))
    head = scs[: cap * 2 // 3]
    tail = scs[cap * 2 // 3:]
    rnd.shuffle(tail)
    return head + tail[: cap - len(head)]


def run_check(prop, tier, replay, families, teeth=(), cap_quick=60, cap_thorough=100, sim_thorough=60,
              expect_pcs=(), extra_assumptions=(), expect_counts=()):
    """families: list of fam() dicts (with optional key 'asbuilt': deviations to generate/validate with).
    teeth: list of (fam, invariant) model runs that are EXPECTED to violate `invariant` (sanity of the invariants
    and documented assumption breaks); they are model-only."""
    t0 = time.time()
    out = vlib.Outcome(prop)
    rnd = random.Random(1000 + vlib.seed())
    # VH_COMMIT_BIN: use a driver built elsewhere (e.g. against a patched worktree of /repo for seed tests)
    if os.environ.get("VH_COMMIT_BIN"):
        binary, build_s = os.environ["VH_COMMIT_BIN"], 0.0
    else:
        binary, build_s = vlib.harness_build("vh_commit")
    if replay:
        return _replay_one(prop, tier, replay, binary, out, t0)
    quick = tier == "quick"
    cap = cap_quick if quick else cap_thorough
    mc_info = []
    states = trans = 0
    gen_total = 0
    scenarios = []
    actions_seen = {}

    def mc_and_gen(f):
        asb = tuple(f.get("asbuilt", AS_BUILT if f["handler"] == "external" else ()))
        fa = dict(f)
        fa["dev"] = asb
        tmo = 1500 if quick else 2400
        # "ExtGetErrorDeletesStaging" only changes behaviour when a call can fail: without a fail budget the
        # as-built model and the intended design are the same state machine
        same_model = (not asb) or (set(asb) <= {"ExtGetErrorDeletesStaging"} and f["fail"] == 0)
        if same_model:
            # intended design == as-built model: one TLC run checks the invariants and prints the schedules
            name = f"{prop}-mcgen-{f['name']}"
            r = vlib.tlc_mc(name, "MC_LanceCommit", cfg_text(f, MC_TAIL.replace("INVARIANTS ", "INVARIANTS GenPrint "), ()),
                            workers=1, timeout=tmo, xmx="4g")
            text = open(r["out"]).read()
            acts = {}
            for m in _RE_ACT.finditer(text):
                acts[m.group(1)] = acts.get(m.group(1), 0) + int(m.group(3))
            r["actions"] = acts
            vals = vlib._printed(text, "SCN")
            scs = [(v["steps"], {"res": v["res"], "ver": v["ver"]}) for v in vals]
            st = {}
        else:
            r = model_check(prop, f, workers=2, timeout=tmo, dev=())
            scs, st = generate(prop, fa, timeout=tmo)
        sims = []
        if not quick and sim_thorough:
            sims, _ = simulate(prop, fa, sim_thorough, timeout=1200)
        return f, asb, r, scs, sims, st

    stage = {"build_s": build_s}
    t1 = time.time()
    with cf.ThreadPoolExecutor(max_workers=5) as ex:
        results = list(ex.map(mc_and_gen, families))
    stage["model_check_and_generate_s"] = round(time.time() - t1, 1)
    sid = 0
    for f, asb, r, scs, sims, st in results:
        if r["violated"]:
            out.report({"spec": "LanceCommit", "invariant": r["violated"], "family": f["name"]},
                       f"the intended design violates {r['violated']} for {f['name']} (see {r['out']})", {"family": f})
        states += r.get("distinct", 0)
        trans += r.get("generated", 0)
        for k, n in r["actions"].items():
            actions_seen[k] = actions_seen.get(k, 0) + n
        seen = set()
        allscs = []
        for x in scs + sims:
            k = json.dumps(x[0])
            if k not in seen:
                seen.add(k)
                allscs.append(x)
        gen_total += len(allscs)
        chosen = _sample(allscs, f.get("cap", cap) if quick else cap, rnd)
        mc_info.append({"family": f["name"], "distinct": r.get("distinct"), "generated": r.get("generated"),
                        "depth": r.get("depth"), "wall_s": r["wall_s"], "schedules_generated": len(allscs),
                        "schedules_replayed": len(chosen), "as_built_deviations": list(asb)})
        for steps, exp in chosen:
            sc = scenario(f, sid, steps, exp)
            sc["asbuilt"] = list(asb)
            scenarios.append(sc)
            sid += 1
    # sanity runs: the invariants can fail (model only)
    teeth_info = []

    def tooth(fi):
        f, inv = fi
        cfgt = cfg_text(f, "INVARIANTS " + inv)
        r = vlib.tlc_mc(f"{prop}-teeth-{f['name']}-{inv}", "MC_LanceCommit", cfgt, workers=2, timeout=1500, xmx="4g",
                        coverage=False)
        return f, inv, r
    t1 = time.time()
    with cf.ThreadPoolExecutor(max_workers=4) as ex:
        for f, inv, r in ex.map(tooth, teeth):
            teeth_info.append({"family": f["name"], "invariant": inv, "violated": r["violated"], "distinct": r.get("distinct")})
            if r["violated"] != inv:
                raise vlib.ToolError(f"sanity run {f['name']} was expected to violate {inv}, got {r['violated']}: "
                                     f"the invariant has no teeth ({r['out']})")
    stage["sanity_runs_s"] = round(time.time() - t1, 1)
    if not scenarios:
        raise vlib.ToolError("no scenarios generated")
    # group by as-built deviation set (the trace specification takes Deviations as a constant), then shard
    groups = {}
    for sc in scenarios:
        groups.setdefault(tuple(sc["asbuilt"]), []).append(sc)
    shards = []
    nshard = 6
    for dev, scs in groups.items():
        k = max(1, min(nshard, len(scs) // 40 + 1))
        for i in range(k):
            part = scs[i::k]
            if part:
                shards.append((dev, part))

    def run_shard(i_shard):
        i, (dev, part) = i_shard
        rep, tf, sf, tm = replay_and_validate(prop, binary, f"s{i}", part, dev=dev, timeout=1500 if quick else 3000)
        return i, dev, part, rep, tf, tm
    t1 = time.time()
    with cf.ThreadPoolExecutor(max_workers=6) as ex:
        shard_results = list(ex.map(run_shard, list(enumerate(shards))))
    stage["replay_and_validate_s"] = round(time.time() - t1, 1)
    stage["harness_s"] = round(sum(x[5]["harness_s"] for x in shard_results), 1)
    stage["validate_cpu_s"] = round(sum(x[5]["validate_s"] for x in shard_results), 1)

    events = 0
    counts = {}
    cov = {}
    accepted = 0
    nontrivial = set()
    samples = []
    informational = {}
    bad_scn = set()
    by_id = {sc["id"]: sc for sc in scenarios}
    for i, dev, part, rep, tf, tm in shard_results:
        events += rep["events"]
        for k, n in rep["counts"].items():
            counts[k] = counts.get(k, 0) + n
        for k, n in rep["cov"].items():
            cov[k] = cov.get(k, 0) + n
        lines = None
        for b in rep["bad"]:
            sc = by_id.get(b["scn"], {})
            bad_scn.add(b["scn"])
            if lines is None:
                lines = open(tf).read().splitlines()
            ev = json.loads(lines[b["pos"] - 1]) if 0 < b["pos"] <= len(lines) else {}
            ev.pop("vs", None)
            via = "+".join(dev) if (dev and sc.get("handler") == "external") else "none"
            payload = {"scenario": sc, "bad": b, "event": ev, "trace_deviations": list(dev)}
            if b["kind"] == "invariant":
                inv = b["sig"][0]
                sig = {"invariant": inv, "via": via}
                if prop in INV_PROPS.get(inv, ()):
                    out.report(sig, f"invariant {inv} is violated on an implementation trace (family {sc.get('family')}, "
                                    f"after {b['sig'][1:]}): {b['detail']}", payload)
                else:
                    informational[json.dumps(sig)] = informational.get(json.dumps(sig), 0) + 1
            elif b["kind"] == "deviation":
                out.report(PANIC_SIG, f"panic inside lance at {b['detail']} (family {sc.get('family')})", payload)
            elif b["kind"] == "broken-table":
                # always accompanies an invariant violation (reported above); kept as information
                sig = {"class": "broken-table", "via": via}
                informational[json.dumps(sig)] = informational.get(json.dumps(sig), 0) + 1
            else:
                out.report({"kind": "nonconformance", "sig": b["sig"]},
                           f"the implementation trace is not a behaviour of LanceCommit: {b['sig']} {b['detail']} "
                           f"(family {sc.get('family')})", payload)
        for hb in rep.get("hbad", []):
            sc = by_id.get(hb["scn"], {})
            bad_scn.add(hb["scn"])
            sig = {"invariant": "PublishedManifestChanged", "via": "recorded-hash"}
            payload = {"scenario": sc, "bad": hb, "trace_deviations": list(dev)}
            if prop == "C02":
                out.report(sig, f"the content recorded at the final manifest path of version(s) {hb['versions']} changed "
                                f"(or vanished) at the {hb['op']} call of actor {hb['a']} (family {sc.get('family')})", payload)
            else:
                informational[json.dumps(sig)] = informational.get(json.dumps(sig), 0) + 1
        if len(samples) < 4 and part:
            # one scenario with its recorded trace, verbatim (snapshots trimmed)
            want = part[len(part) // 2]["id"]
            if lines is None:
                lines = open(tf).read().splitlines()
            tr = []
            cur = None
            for ln in lines:
                e = json.loads(ln)
                if e.get("ev") == "reset":
                    cur = e.get("id")
                if cur == want and e.get("ev") != "drain":
                    e.pop("vs", None)
                    tr.append(e)
            samples.append({"scenario": by_id[want], "trace": tr[:60]})
    accepted = len(scenarios) - len(bad_scn)
    for sc in scenarios:
        if sc["id"] not in bad_scn and (any(st[1] != "ok" for st in sc["steps"]) or len(sc["steps"]) >= 8):
            nontrivial.add((sc["family"], json.dumps(sc["steps"])))
    # vacuity: every storage-call kind this property is about must have been exercised on the implementation
    missing = [pc for pc in expect_pcs if cov.get(pc, 0) == 0]
    if missing:
        raise vlib.ToolError(f"vacuous run: program points never reached on the implementation: {missing}")
    missing = [k for k in expect_counts if counts.get(k, 0) == 0]
    if missing:
        raise vlib.ToolError(f"vacuous run: situations never reached on the implementation: {missing}")
    if counts.get("publications", 0) == 0 or counts.get("finals", 0) == 0:
        raise vlib.ToolError("vacuous run: no version was ever published / audited")
    rc = out.finish()
    vlib.write_evidence(prop, tier, "model_checking", {
        "states": states, "transitions": trans, "traces_validated_against_impl": accepted, "samples": samples,
        "evaluations": len(scenarios), "distinct_nontrivial": len(nontrivial),
        "rule": "one schedule per distinct completed state of the TLC model of each family (GEN run, ghost history hidden by "
                "VIEW)" + ("" if quick else " plus seeded -simulate runs") + "; a seeded sample of at most "
                f"{cap} per family is replayed on the real Dataset APIs through the gate store; distinct = distinct "
                "(family, schedule); non-trivial = accepted by the validator and containing a fault/crash step or at least 8 "
                "gated calls (i.e. reaching the commit section)",
        "exhaustive": False,
        "exhaustive_note": "the model check is exhaustive for the stated bounds; the replay covers one schedule per "
                           "distinct final model state (sampled in the quick tier), not every interleaving",
        "model_runs": mc_info, "model_actions_taken": actions_seen, "sanity_runs": teeth_info,
        "schedules_generated": gen_total, "events_validated": events, "event_counts": counts,
        "implementation_program_points": cov, "as_built_deviations": list(AS_BUILT),
        "findings_of_other_properties_seen": informational, "stage_wall_s": stage,
    }, time.time() - t0, len(out.violations), ASSUMPTIONS + list(extra_assumptions))
    return rc


def _replay_one(prop, tier, replay, binary, out, t0):
    payload = json.load(open(replay))
    case = payload.get("case", payload)
    sc = case["scenario"]
    dev = tuple(case.get("trace_deviations", sc.get("asbuilt", ())))
    rep, tf, sf, tm = replay_and_validate(prop, binary, "replay", [sc], dev=dev)
    for hb in rep.get("hbad", []):
        print("replay:", json.dumps(hb))
        out.report({"invariant": "PublishedManifestChanged", "via": "recorded-hash"}, f"replayed: {hb}", case)
    for b in rep["bad"]:
        print("replay:", json.dumps(b))
        out.report(payload.get("signature", {"kind": b["kind"], "sig": b["sig"]}), f"replayed: {b}", case)
    print(f"replay of scenario {sc.get('id')} ({sc.get('family')}): {len(rep['bad'])} failure(s); trace {tf}")
    return out.finish()
