"""Shared pipeline of C20 (inexact scalar indices never drop a matching row) and C29 (statistics-based
pruning is conservative): spec/Pruning.tla, spec/Trace_Pruning.tla, harness/src/bin/vh_pruning.rs.

1. TLC model-checks the laws (ZoneMapSound, BloomSound, PageStatsSound, NgramSound: all zones of <= MaxZone cells x
   all predicates of the grammar) and the small state machine (append / delete / index / optimize / query) with
   Deviations = {}; the as-built deviations are re-run and must violate (they document the known findings).
2. TLC prints the predicate lists (ATOMS / PREDS) and the strings (STRS); this module lays the zone universes out as
   tables (every zone of 1..R cells, each zone one real zone / row group) and adds history scenarios.
3. vh_pruning executes them on real lance datasets and records; 4. Trace_Pruning judges every recorded query.
"""
import concurrent.futures as cf
import itertools
import json
import os
import random
import re
import shutil
import time

import vlib

CFG = """SPECIFICATION {spec}
CONSTANTS
  Kind = "{kind}"
  K = {k}
  MaxZone = {mz}
  Mode = "{mode}"
  IType = "{itype}"
  RZ = {rz}
  MaxFrags = {mf}
  MaxRows = {mr}
  MaxSteps = {ms}
  Alphabet = {alpha}
  MaxStr = {mstr}
  Deviations = {dev}
{view}
INVARIANTS {inv}
{post}
CHECK_DEADLOCK FALSE
"""
ALPHA = ["a", "b", "B", "U"]


def cfg(**kw):
    d = dict(spec="Spec", kind="int", k=3, mz=3, mode="laws", itype="zonemap", rz=2, mf=2, mr=3, ms=14,
             alpha="{" + ", ".join(json.dumps(c) for c in ALPHA) + "}", mstr=3, dev="{}",
             inv="TypeOK Laws IndexedScanEqualsFullScan", view="VIEW view", post="")
    d.update(kw)
    return CFG.format(**d)


def trace_cfg(kind, k):
    return cfg(spec="TraceSpec", kind=kind, k=k, inv="Report", view="", post="POSTCONDITION TraceAccepted")


SPEC_KIND = {"int32": "int", "int64": "int", "utf8": "int", "utf8long": "int", "float32": "float", "float64": "float", "text": "text"}
_RE_ACT = re.compile(r"^<(N_\w+) line \d+, col \d+ to line \d+, col \d+ of module Pruning>: (\d+):(\d+)", re.M)


def model_check(prop, runs, workers=2):
    """runs: list of (name, cfg kwargs, expected violation or None, actions that must fire).  Returns info, states, transitions."""
    def one(r):
        name, kw, expect, acts = r
        res = vlib.tlc_mc(f"{prop}-{name}", "Pruning", cfg(**kw), workers=workers, timeout=3000, xmx="4g", expect_violation=bool(expect))
        fired = {m.group(1): int(m.group(3)) for m in _RE_ACT.finditer(open(res["out"]).read())}
        return r, res, fired

    info, states, trans, problems = [], 0, 0, []
    with cf.ThreadPoolExecutor(max_workers=6) as ex:
        for (name, kw, expect, acts), res, fired in ex.map(one, runs):
            info.append({"cfg": name, "constants": {k: v for k, v in kw.items() if k not in ("inv",)}, "distinct": res.get("distinct"),
                         "generated": res.get("generated"), "depth": res.get("depth"), "wall_s": res["wall_s"],
                         "violated": res["violated"], "expected_violation": expect})
            if expect:
                if res["violated"] != expect:
                    problems.append((name, f"as-built deviation run {name} was expected to violate {expect}, got {res['violated']}"))
                continue
            if res["violated"]:
                problems.append((name, f"design violates {res['violated']} ({res['out']})"))
            zero = [a for a in acts if fired.get(a, 0) == 0]
            if zero:
                raise vlib.ToolError(f"vacuous model run {name}: actions never taken {zero}")
            states += res.get("distinct", 0)
            trans += res.get("generated", 0)
    return info, states, trans, problems


def printed(prop, name, tags, **kw):
    """One TLC run that prints several lists (ATOMS / PREDS / STRS); returns {tag: value}."""
    inv = " ".join({"ATOMS": "AtomList", "PREDS": "PredList", "STRS": "StrList"}[t] for t in tags)
    vals, _ = vlib.tlc_gen(f"{prop}-{name}", "Pruning", cfg(inv=inv, **kw), tag=tags[0], workers=1, timeout=900, xmx="2g")
    out = open(os.path.join(vlib.WORK, f"gen-{prop}-{name}", "out.txt")).read()
    res = {}
    for t in tags:
        v = vlib._printed(out, t)
        if not v:
            raise vlib.ToolError(f"TLC printed no {t}")
        res[t] = v[0]
    return res


# ------------------------------------------------------------------------------------------ scenarios
def zones(cells, r):
    return list(itertools.product(cells, repeat=r))


def universe_rows(cells, r, rnd=None, limit=None):
    zs = zones(cells, r)
    if limit and len(zs) > limit:
        zs = rnd.sample(zs, limit)
    rows, i = [], 0
    for z in zs:
        for v in z:
            i += 1
            rows.append([i, v])
    return rows, len(zs)


BASE = {"name": "base", "use_scalar_index": False, "use_stats": False}
IDX = {"name": "idx"}
STATS = {"name": "stats", "use_scalar_index": False, "use_stats": True}


def index_params(itype, r):
    if itype == "zonemap":
        return {"rows_per_zone": r}
    if itype == "bloomfilter":
        return {"number_of_items": r, "probability": 0.05}
    return None


def idx_step(itype, r):
    st = {"op": "index", "type": itype}
    p = index_params(itype, r)
    if p:
        st["params"] = p
    return st


def q_step(preds, itype, hist, r=0, zoned=False, variants=None, search=True):
    return {"op": "queries", "preds": preds, "itype": itype, "hist": hist, "zone": r, "zoned": zoned,
            "variants": variants or [BASE, IDX], "search": search}


def index_universe(kind, cells, r, itype, preds, rnd, limit=None, offset=0):
    rows, nz = universe_rows(cells, r, rnd, limit)
    return {"kind": kind, "offset": offset, "hist": f"universe-{itype}-r{r}", "nzones": nz, "nrows": len(rows),
            "steps": [{"op": "write", "rows": rows}, idx_step(itype, r), q_step(preds, itype, "plain", r, True)]}


def legacy_universe(kind, cells, r, preds, rnd, limit=None):
    rows, nz = universe_rows(cells, r, rnd, limit)
    return {"kind": kind, "storage": "legacy", "hist": f"universe-legacy-r{r}", "nzones": nz, "nrows": len(rows),
            "steps": [{"op": "write", "rows": rows, "group": r}, q_step(preds, "none", "plain", r, True, [BASE, STATS], False)]}


def history_scenarios(kind, cells, itype, preds, rnd, r=2):
    """Index states reached by histories (the state machine of Pruning.tla on real tables)."""
    def vals(n):
        return [rnd.choice(cells) for _ in range(n)]

    def rows(vs, start=1):
        return [[start + i, v] for i, v in enumerate(vs)]
    w = lambda vs, start=1, mode="create": {"op": "write", "mode": mode, "rows": rows(vs, start)}
    ix = idx_step(itype, r)
    q = lambda h: q_step(preds, itype, h, r)
    a, b, c = vals(5), vals(3), vals(4)
    out = [
        ("multi-fragment", [w(a), w(b, 6, "append"), w(c, 9, "append"), ix, q("multi-fragment")]),
        ("append-after-index", [w(a), ix, w(b, 6, "append"), q("append-after-index")]),
        ("optimize", [w(a), ix, w(b, 6, "append"), w(c, 9, "append"), {"op": "optimize"}, q("optimize")]),
        ("delete-after-index", [w(a), w(b, 6, "append"), ix, {"op": "delete", "ids": [1, 4, 7]}, q("delete-after-index")]),
        ("compact-after-index", [w(a), w(b, 6, "append"), ix, {"op": "delete", "ids": [2]}, {"op": "compact"}, q("compact-after-index")]),
        # the two histories below reach the known zone-address findings
        ("delete-before-index", [w(a + c), {"op": "delete", "ids": [1]}, ix, q("delete-before-index")]),
        ("fragment-gap", [w(a[:3]), w(b[:2], 4, "append"), w(c, 6, "append"), {"op": "delete", "ids": [4, 5]}, ix, q("fragment-gap")]),
    ]
    if kind in ("int32", "int64"):
        out.append(("update-after-index", [w(a), w(b, 6, "append"), ix, {"op": "update", "ids": [2, 6], "to": 1}, q("update-after-index")]))
    return [{"kind": kind, "hist": name, "steps": steps} for name, steps in out]


def ngram_scenarios(strings, queries, rnd, tier):
    rows = [[i + 1, s] for i, s in enumerate(strings)]
    preds = [["contains", "val", q] for q in queries]
    ix = {"op": "index", "type": "ngram"}
    q = lambda h, p=preds: q_step(p, "ngram", h)
    n = len(rows)
    half = n // 2
    few = preds if tier != "quick" else rnd.sample(preds, min(len(preds), 40))
    return [
        {"kind": "text", "hist": "plain", "steps": [{"op": "write", "rows": rows}, ix, q("plain")]},
        {"kind": "text", "hist": "append-after-index", "steps": [{"op": "write", "rows": rows[:half]}, ix,
                                                                  {"op": "write", "mode": "append", "rows": rows[half:]}, q("append-after-index", few)]},
        {"kind": "text", "hist": "optimize", "steps": [{"op": "write", "rows": rows[:half]}, ix, {"op": "write", "mode": "append", "rows": rows[half:]},
                                                        {"op": "optimize"}, q("optimize", few)]},
        {"kind": "text", "hist": "delete-compact", "steps": [{"op": "write", "rows": rows[:half]}, {"op": "write", "mode": "append", "rows": rows[half:]}, ix,
                                                              {"op": "delete", "ids": [2, 3, half + 1]}, {"op": "compact"}, q("delete-compact", few)]},
        # legacy-format table: the index answer goes through MaterializeIndexExec
        {"kind": "text", "storage": "legacy", "hist": "legacy-storage", "steps": [{"op": "write", "rows": [r for r in rows if r[1] != []][:40]}, ix,
                                                                                   q("legacy-storage", few[:16])]},
    ]


# ------------------------------------------------------------------------------------------ run + judge
def run_groups(prop, groups, timeout=3000):
    """groups: {(spec kind, K): [scenario]}.  One harness run + one TLC validation per shard of a group."""
    binary, build_s = vlib.harness_build("vh_pruning")
    wd = vlib.workdir(f"{prop}-traces")
    jobs = []
    sid = 0
    for (sk, k), scns in sorted(groups.items()):
        # shard by cost (number of queries x rows)
        scns = sorted(scns, key=lambda s: -sum(len(st.get("preds", [])) for st in s["steps"]) * max(1, s.get("nrows", 10)))
        nsh = max(1, min(4, len(scns)))
        shards = [[] for _ in range(nsh)]
        for i, s in enumerate(scns):
            sid += 1
            s["id"] = sid
            s["speckind"], s["k"] = sk, k
            shards[i % nsh].append(s)
        for j, sh in enumerate(shards):
            jobs.append((sk, k, j, sh))
    scratch = f"/dev/shm/lance-verif-{prop}-{os.getpid()}"

    def one(job):
        sk, k, j, sh = job
        tag = f"{sk}{k}-{j}"
        sf = os.path.join(wd, f"scn-{tag}.ndjson")
        with open(sf, "w") as f:
            for s in sh:
                f.write(json.dumps(s) + "\n")
        tf = os.path.join(wd, f"trace-{tag}.ndjson")
        t0 = time.time()
        # VERIF_PRUNING_MUTATE=<name>: the driver post-processes what lance returned as a mutated lance would have
        # (binding demonstration only, see vh_pruning.rs `mutate`)
        extra = ["--mutate", os.environ["VERIF_PRUNING_MUTATE"]] if os.environ.get("VERIF_PRUNING_MUTATE") else []
        vlib.harness_run(binary, ["--scenarios", sf, "--out", tf, "--scratch", f"{scratch}-{tag}"] + extra, timeout=timeout)
        shutil.rmtree(f"{scratch}-{tag}", ignore_errors=True)
        h = time.time() - t0
        v = vlib.tlc_trace(f"{prop}-{tag}", "Trace_Pruning", trace_cfg(sk, k), tf, timeout=timeout, xmx="4g")
        if not v["reports"] or not v["accepted"]:
            raise vlib.ToolError(f"trace validation did not complete: {v['out']}")
        return job, sf, tf, v["reports"][-1], round(h, 1), v["wall_s"]

    with cf.ThreadPoolExecutor(max_workers=6) as ex:
        return list(ex.map(one, jobs)), build_s


CALIBRATION = {"UnprunedEqualsEval", "History", "UnknownVariant"}


def judge(prop, out, results, own):
    """Turn the REPORTs into findings.  Calibration / history failures are tool errors: the oracle itself is off."""
    counts, events, samples, bad_scn, nscn, timing = {}, 0, [], set(), 0, []
    sigs = {}
    for (sk, k, j, sh), sf, tf, rep, h_s, v_s in results:
        timing.append({"group": f"{sk}{k}-{j}", "harness_s": h_s, "validate_s": v_s, "events": rep["events"]})
        events += rep["events"]
        nscn += len(sh)
        for key, n in rep["counts"].items():
            counts[key] = counts.get(key, 0) + n
        lines = None
        byid = {s["id"]: s for s in sh}
        for b in rep["bad"]:
            line, scn, step, qi, inv, cls, var = b
            if lines is None:
                lines = open(tf).read().splitlines()
            ev = json.loads(lines[line - 1])
            s = byid.get(scn, {})
            if inv in CALIBRATION:
                raise vlib.ToolError(f"calibration / history failure {inv} {cls} ({var}) in scenario {scn} ({s.get('kind')}, {s.get('hist')}): "
                                     f"{json.dumps(ev)[:600]}")
            if inv not in own:
                continue
            bad_scn.add(scn)
            itype = next((st.get("itype") for st in s.get("steps", []) if st.get("op") == "queries"), "none")
            sig = {"invariant": inv, "index": itype, "class": cls}
            key = json.dumps(sig, sort_keys=True)
            sigs[key] = sigs.get(key, 0) + 1
            out.report(sig, f"{inv} {cls} [{var}] index={itype} kind={s.get('kind')} history={s.get('hist')}: predicate {ev.get('sql')} "
                            f"-> {json.dumps([(r['name'], r['ids']) for r in ev.get('results', [])])[:300]} search={json.dumps(ev.get('search'))[:160]}",
                       {"scenario": {k2: v2 for k2, v2 in s.items() if k2 != "steps"}, "steps": [
                           {k3: (v3 if k3 != "preds" else [ev.get("pred")]) for k3, v3 in st.items()} for st in s.get("steps", [])],
                        "event": ev, "trace": tf})
        if len(samples) < 4:
            with open(tf) as f:
                ls = [x for x in f.read().splitlines() if '"ev":"q"' in x]
            if ls:
                e = json.loads(ls[len(ls) // 2])
                samples.append({k2: e[k2] for k2 in ("scn", "pred", "sql", "results", "search")})
    counts["findings_by_signature"] = sigs
    return counts, events, samples, bad_scn, nscn, timing


def replay(prop, path, own):
    """bin/check Cxx --replay <file>: re-run the single stored scenario (one predicate) and judge it."""
    payload = json.load(open(path))
    case = payload["case"]
    scn = dict(case["scenario"])
    scn["steps"] = case["steps"]
    out = vlib.Outcome(prop)
    sk = scn.get("speckind", SPEC_KIND[scn["kind"]])
    k = scn.get("k", {"int32": 3, "int64": 3, "text": 0}.get(scn["kind"], 6))
    results, _ = run_groups(prop + "-replay", {(sk, k): [scn]})
    counts, events, samples, bad_scn, nscn, timing = judge(prop, out, results, own)
    print(f"replay: {counts.get('queries', 0)} queries, findings {counts.get('findings_by_signature')}")
    return out.finish()
