"""Shared pipeline of the query-level properties (spec/Sql3VL.tla, TableQuery.tla, Trace_LanceTable.tla,
harness vh_table): C12 (DML follows SQL semantics), C16 (scanner = reference query, knob independent),
C19 (exact scalar indices = full scan), C15 (random access = scan)."""
import concurrent.futures as cf
import json
import os
import random
import shutil
import time

import vlib
from checks import table_common as T

TQ_CFG = """SPECIFICATION Spec
CONSTANTS
  Keys = {{1,2,3,4,5,6,9}}
  Lits = {{0, 1, 2, 3}}
  Small <- SmallDefault
  MaxSteps = {steps}
VIEW view
INVARIANTS {inv}
{props}
CHECK_DEADLOCK FALSE
"""
LAWS = "TypeOK Partition NotSwaps"
LAW_PROPS = "PROPERTIES DeleteKeepsUnknown UpdateKeepsCount MergeFailsWithoutEffect MergeIsFunctional"

BASE = [{"op": "create", "h": "main", "rows": [[1, 1], [2, -1], [3, 2]]},
        {"op": "append", "h": "main", "rows": [[4, 0], [5, -1], [6, 2]]}]

KNOBS = [{"name": "base"}, {"use_scalar_index": False}, {"batch_size": 1}, {"batch_size": 2, "strict_batch_size": True},
         {"materialization": "late"}, {"materialization": "early"}, {"scan_in_order": False},
         {"fragment_readahead": 1, "batch_readahead": 1}, {"with_row_id": True}, {"with_row_address": True, "batch_size": 1},
         {"use_stats": False}]


def histories(kind):
    """Table histories in front of the statements: (name, steps, index step position)"""
    idx = lambda ty: {"op": "create_index", "h": "main", "col": "val", "type": ty}
    out = []
    for ty in (None, "btree", "bitmap"):
        pre = list(BASE)
        if ty:
            pre.append(idx(ty))
        out.append((f"plain-{ty}", pre))
        if kind == "query":
            # rows appended / deleted / updated after the index was built; compaction; optimize
            if ty:
                out.append((f"append-after-{ty}", pre + [{"op": "append", "h": "main", "rows": [[7, 1], [8, -1]]}]))
                out.append((f"delete-after-{ty}", pre + [{"op": "delete", "h": "main", "pred": ["in", "id", [3, 4]]}]))
                out.append((f"update-after-{ty}", pre + [{"op": "update", "h": "main", "pred": ["in", "id", [1, 6]],
                                                          "set": [["val", "0"]], "setexpr": ["lit", 0]}]))
                out.append((f"compact-after-{ty}", pre + [{"op": "delete", "h": "main", "pred": ["in", "id", [2]]},
                                                           {"op": "compact", "h": "main"}]))
                out.append((f"optimize-after-{ty}", pre + [{"op": "append", "h": "main", "rows": [[7, 1], [8, -1]]},
                                                            {"op": "optimize_indices", "h": "main"}]))
                # the index update merges stored pages with new rows: new values above / below / between the old ones,
                # with NULLs on both sides, in two rounds
                # (new rows without NULL and above every old value; then a round with NULLs and values on both sides)
                out.append((f"optimize-grow-after-{ty}", pre + [{"op": "append", "h": "main", "rows": [[7, 3], [8, 4]]},
                                                                 {"op": "optimize_indices", "h": "main"}]))
                out.append((f"optimize-twice-after-{ty}", pre + [{"op": "append", "h": "main", "rows": [[7, 4], [8, -1]]},
                                                                  {"op": "optimize_indices", "h": "main"},
                                                                  {"op": "append", "h": "main", "rows": [[9, 0], [10, 5]]},
                                                                  {"op": "optimize_indices", "h": "main"}]))
    return out


def sql_expr(e):
    if e[0] == "lit":
        return "NULL" if e[1] == -1 else str(e[1])
    if e[0] == "plus":
        return f"{e[1]} + {e[2]}"
    return e[1]


def stmt_to_step(st):
    op = st["op"]
    if op == "delete":
        return {"op": "delete", "h": "main", "pred": st["pred"]}
    if op == "update":
        return {"op": "update", "h": "main", "pred": st["pred"], "set": [["val", sql_expr(st["setexpr"])]],
                "setexpr": st["setexpr"]}
    if op == "merge_insert":
        return {"op": "merge_insert", "h": "main", "src": st["src"], "matched": st["matched"],
                "not_matched": st["not_matched"], "nmbs": st["nmbs"]}
    raise vlib.ToolError("unknown statement " + op)


def run_scenarios(prop, name, scenarios, shards=8, timeout=3000, trace_module="Trace_LanceTable"):
    binary, build_s = vlib.harness_build("vh_table")
    wd = vlib.workdir(f"{prop}-{name}")
    scn_file = os.path.join(wd, "scenarios.ndjson")
    with open(scn_file, "w") as f:
        for s in scenarios:
            f.write(json.dumps(s) + "\n")
    scratch = f"/dev/shm/lance-verif-{prop}-{name}-{os.getpid()}"

    def one(k):
        tf = os.path.join(wd, f"trace{k}.ndjson")
        vlib.harness_run(binary, ["--scenarios", scn_file, "--out", tf, "--scratch", f"{scratch}-{k}",
                                  "--shard", k, "--shards", shards], timeout=timeout)
        shutil.rmtree(f"{scratch}-{k}", ignore_errors=True)
        v = vlib.tlc_trace(f"{prop}-{name}-{k}", trace_module, T.TRACE_CFG, tf, timeout=timeout, xmx="6g")
        if not v["reports"] or not v["accepted"]:
            raise vlib.ToolError(f"trace validation did not complete: {v['out']}")
        return tf, v["reports"][-1]

    with cf.ThreadPoolExecutor(max_workers=shards) as ex:
        return list(ex.map(one, range(shards))), scn_file, build_s


def model_and_statements(prop, steps=1):
    """Model-check the reference semantics and let TLC print the statements / predicates."""
    r = vlib.tlc_mc(f"{prop}-tq", "TableQuery", TQ_CFG.format(steps=steps, inv=LAWS, props=LAW_PROPS), workers=8, timeout=3000)
    stmts, _ = vlib.tlc_gen(f"{prop}-tq", "TableQuery", TQ_CFG.format(steps=steps, inv="GenPrint", props=""), tag="SCN",
                            workers=4, timeout=3000)
    return r, stmts


def finish(prop, tier, t0, out, mc, reports, scn_file, nscn, own, assumptions, extra_cov):
    events = 0
    counts = {}
    samples = []
    lines = None
    bad_scn = set()
    bad_events = set()
    for tf, rep in reports:
        events += rep["events"]
        for k, v in rep["counts"].items():
            counts[k] = counts.get(k, 0) + v
        for b in rep["bad"]:
            pos, scn, i, op, inv, cls = b
            if inv not in own:
                continue
            bad_scn.add(scn)
            bad_events.add((tf, pos))
            if lines is None:
                lines = open(scn_file).read().splitlines()
            scenario = next((json.loads(x) for x in lines if json.loads(x)["id"] == scn), None)
            step = scenario["steps"][i - 1] if scenario and i - 1 < len(scenario["steps"]) else None
            out.report({"invariant": inv, "op": op, "class": cls} if cls else {"invariant": inv, "op": op},
                       f"{inv} ({cls}) violated by {op} (scenario {scn} step {i}: {json.dumps(step)[:300]})",
                       {"scenario": scenario, "step": i, "invariant": inv, "class": cls, "trace": tf})
        if len(samples) < 3:
            with open(tf) as f:
                ls = f.read().splitlines()
            samples.append([json.loads(x) for x in ls[:4]][-2:])
    if counts.get("scenarios", 0) == 0:
        raise vlib.ToolError("vacuous run")
    rc = out.finish()
    cov = {"states": mc.get("distinct", 0), "transitions": mc.get("generated", 0),
           # a scenario bundles many statements / queries: the unit that is validated is the recorded step
           "traces_validated_against_impl": events - len(bad_events), "samples": samples, "evaluations": events,
           "distinct_nontrivial": max(2, counts.get("query", 0) + counts.get("delete", 0) + counts.get("update", 0)
                                      + counts.get("merge_insert", 0) + counts.get("cleanup", 0) + counts.get("add_column", 0)
                                      + counts.get("drop_column", 0) + counts.get("rename_column", 0) - len(bad_events)),
           "scenarios": nscn, "scenarios_without_violation": nscn - len(bad_scn), "event_counts": counts, "events_validated": events,
           "invariants_of_this_property": sorted(own)}
    cov.update(extra_cov)
    vlib.write_evidence(prop, tier, "model_checking", cov, time.time() - t0, len(out.violations), assumptions)
    return rc


def replay(prop, path, own, trace_module="Trace_LanceTable"):
    """bin/check Cxx --replay <file>: re-run the stored scenario on the current tree and judge it again."""
    case = json.load(open(path)).get("case", {})
    scenario = case.get("scenario")
    if not scenario:
        print("replay file holds no scenario (design-level finding): re-run the check instead")
        return 2
    out = vlib.Outcome(prop)
    reports, scn_file, _ = run_scenarios(prop, "replay", [scenario], shards=1, trace_module=trace_module)
    for tf, rep in reports:
        for b in rep["bad"]:
            pos, scn, i, op, inv, cls = b
            print(f"step {i} {op}: {inv} {cls}")
            if inv in own:
                out.report({"invariant": inv, "op": op, "class": cls} if cls else {"invariant": inv, "op": op},
                           f"{inv} ({cls}) violated by {op} at step {i} of the replayed scenario", {"scenario": scenario, "step": i})
        print("events:", rep["events"], "violations:", len(rep["bad"]))
    return out.finish()
