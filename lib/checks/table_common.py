"""Shared pipeline of the table-level properties (spec/LanceTable.tla, Trace_LanceTable.tla,
harness/src/bin/vh_table.rs): C03 C04 C05 C06 C07 C11 C13 C17 C18.

One run = model-check the design, let TLC generate operation histories, replay them on real lance
datasets, validate the recorded traces with TLC.  Each property reports only its own invariants.
"""
import concurrent.futures as cf
import json
import os
import random
import shutil
import time

import vlib

MC_CFG = """SPECIFICATION Spec
CONSTANTS
  Ids = {ids}
  Vals = {vals}
  Handles = {{"a", "b"}}
  MaxVersions = {maxv}
  MaxOps = {maxops}
  Stable = {stable}
  OpKinds = {opkinds}
  MaxBatch = {maxbatch}
  Deviations = {{}}
VIEW view
INVARIANTS {invariants}
{props}
CHECK_DEADLOCK FALSE
"""
ALL_INVS = "TypeOK IndexCoverageSound SerialEquivalence NoDoubleImage WellFormed RowIdUnique RowIdsNeverReused VersionColumnsCorrect RestoreEqualsOld RewritePreservesContents"
ALL_PROPS = "PROPERTIES VersionsImmutable RowIdStable"
ALL_OPS = ["append", "delete", "update", "upsert", "colupdate", "compact", "overwrite", "restore", "checkout"]

TRACE_CFG = """SPECIFICATION TraceSpec
INVARIANT Report
POSTCONDITION TraceAccepted
CHECK_DEADLOCK FALSE
"""

INV2PROP = {
    "FailedHasNoEffect": "C03", "SerialEquivalence": "C03",
    "NoLostUpdate": "C04", "NoDoubleImage": "C04",
    "WellFormed": "C05", "LatestUnreadable": "C05", "Panic": "C05", "VersionsMonotone": "C05",
    "VersionsImmutable": "C06",
    "RestoreEqualsOld": "C07", "RowIdsNeverReused": "C07",
    "ScanEqualsModel": "C11",
    "RewritePreservesContents": "C13", "OneVersionPerCommit": "C13",
    "VersionColumnsCorrect": "C17",
    "RowIdStable": "C18", "RowIdUnique": "C18",
    "TakeEqualsScan": "C15", "TakeRowsEqualsScan": "C15", "CopyReadsSame": "C42",
}


def tla_set(xs):
    return "{" + ", ".join(json.dumps(x) if isinstance(x, str) else str(x) for x in xs) + "}"


def cfg(ids, vals, maxv, maxops, stable, opkinds, invariants=ALL_INVS, props=ALL_PROPS, maxbatch=1):
    return MC_CFG.format(ids=tla_set(ids), vals=tla_set(vals), maxv=maxv, maxops=maxops, maxbatch=maxbatch,
                         stable="TRUE" if stable else "FALSE", opkinds=tla_set(opkinds),
                         invariants=invariants, props=props)


def hist_to_scenario(hist, sid, stable, reread=False, tail_steps=None, knobs=None, index_type="btree", extra_col=False):
    """TLC history (list of step records) -> driver scenario."""
    steps = []
    init = hist[0]
    steps.append({"op": "create", "h": "main", "rows": [[1, 1], [2, -1]]})
    nver = 1
    if init.get("two"):
        steps.append({"op": "append", "h": "main", "rows": [[3, 2]]})
        nver = 2
    for h in ("a", "b"):
        steps.append({"op": "checkout", "h": h, "from": "main", "v": nver})
    for st in hist[1:]:
        op = st["op"]
        h = st["h"]
        if op == "checkout":
            steps.append({"op": "checkout", "h": h, "from": "main", "v": st["v"]})
        elif op in ("append", "overwrite"):
            steps.append({"op": op, "h": h, "rows": [[r["id"], r["val"]] for r in st["rows"]]})
        elif op == "delete":
            steps.append({"op": "delete", "h": h, "pred": ["in", "id", sorted(st["ids"])]})
        elif op == "update":
            steps.append({"op": "update", "h": h, "pred": ["in", "id", sorted(st["ids"])],
                          "set": [["val", str(st["val"])]], "setexpr": ["lit", st["val"]]})
        elif op == "upsert":
            steps.append({"op": "merge_insert", "h": h, "src": [[st["id"], st["val"]]],
                          "matched": "update_all", "not_matched": "insert_all"})
        elif op == "colupdate":
            steps.append({"op": "merge_insert", "h": h, "cols": ["id", "val"], "src": [[i, st["val"]] for i in sorted(st["ids"])],
                          "matched": "update_all", "not_matched": "do_nothing", "in_place": 1})
        elif op == "compact":
            steps.append({"op": "compact", "h": h})
        elif op == "restore":
            steps.append({"op": "restore", "h": h, "v": st["v"]})
        elif op == "index":
            steps.append({"op": "create_index", "h": h, "col": "val", "type": index_type, "replace": True})
        else:
            raise vlib.ToolError(f"unknown op in history: {op}")
    if reread:
        # time travel: every version is read again at the end (C06)
        for v in range(1, 9):
            steps.append({"op": "reread", "v": v})
    if any(st["op"] == "colupdate" for st in hist[1:]) or extra_col:
        # an in-place column rewrite needs a column that the source does not carry: every table of the family gets a
        # third column x (always 0), full-schema batches carry it
        for st in steps:
            if st["op"] in ("create", "append", "overwrite"):
                st["rows"] = [r + [0] for r in st["rows"]]
            elif st["op"] == "merge_insert" and "in_place" not in st:
                st["src"] = [r + [0] for r in st["src"]]
        three = True
    else:
        three = False
    if tail_steps:
        steps.extend(tail_steps)
    if knobs:
        for st in steps:
            if st["op"] in ("create", "append", "overwrite"):
                st.update({k: v for k, v in knobs.items() if k.startswith("max_rows")})
    if knobs and knobs.get("storage_version") == "legacy":
        # the 0.1 file format has no nulls for primitive columns (docs/src/format/file/versioning.md: null support
        # for primitives was introduced by 2.0), so legacy scenarios write a value instead of NULL
        for st in steps:
            for key in ("rows", "src"):
                if key in st:
                    st[key] = [[7 if x == -1 else x for x in r] for r in st[key]]
    if knobs and "storage_version" in knobs:
        return {"id": sid, "stable": stable, "storage_version": knobs["storage_version"], "steps": steps, "knobs": knobs,
                "model_res": [st.get("res") for st in hist[1:]]}
    if three:
        return {"id": sid, "stable": stable, "cols": ["id", "val", "x"], "steps": steps,
                "model_res": [st.get("res") for st in hist[1:]]}
    return {"id": sid, "stable": stable, "steps": steps,
            "model_res": [st.get("res") for st in hist[1:]]}


def run_family(name, prop, hists_by_stable, reread, shards=8, timeout=3000, tail_steps=None, knob_list=None):
    """Replay histories on the implementation and validate the traces.  Returns (reports, files)."""
    binary, build_s = vlib.harness_build("vh_table")
    wd = vlib.workdir(f"{prop}-{name}")
    scn_file = os.path.join(wd, "scenarios.ndjson")
    n = 0
    with open(scn_file, "w") as f:
        for stable, hists in hists_by_stable:
            for h in hists:
                n += 1
                kn = knob_list[n % len(knob_list)] if knob_list else None
                f.write(json.dumps(hist_to_scenario(h, n, stable, reread, tail_steps, kn)) + "\n")
    scratch = f"/dev/shm/lance-verif-{prop}-{name}-{os.getpid()}"
    if not os.path.isdir("/dev/shm"):
        scratch = os.path.join(wd, "scratch")

    def one(k):
        tf = os.path.join(wd, f"trace{k}.ndjson")
        vlib.harness_run(binary, ["--scenarios", scn_file, "--out", tf, "--scratch", f"{scratch}-{k}",
                                  "--shard", k, "--shards", shards], timeout=timeout)
        shutil.rmtree(f"{scratch}-{k}", ignore_errors=True)
        v = vlib.tlc_trace(f"{prop}-{name}-{k}", "Trace_LanceTable", TRACE_CFG, tf, timeout=timeout, xmx="6g")
        return tf, v

    out = []
    with cf.ThreadPoolExecutor(max_workers=shards) as ex:
        for tf, v in ex.map(one, range(shards)):
            if not v["reports"] or not v["accepted"]:
                raise vlib.ToolError(f"trace validation did not complete: {v['out']}")
            out.append((tf, v["reports"][-1]))
    return out, scn_file, n, build_s


def interesting(h):
    """Histories in which a transaction met a concurrent one: an operation failed in the model (conflict) or two
    different handles wrote (the second one is stale)."""
    steps = h[1:]
    writers = {st.get("h") for st in steps if st.get("op") not in ("checkout",)}
    return any(st.get("res") not in (None, "ok") for st in steps) or len(writers) > 1


def sample(hists, k, rnd):
    """Seeded stratified sample: concurrent histories first (up to 70% of the cap), the rest at random."""
    if len(hists) <= k:
        return hists
    hot = [h for h in hists if interesting(h)]
    cold = [h for h in hists if not interesting(h)]
    n_hot = min(len(hot), int(k * 0.7))
    picked = rnd.sample(hot, n_hot) if len(hot) > n_hot else hot
    rest = k - len(picked)
    picked += rnd.sample(cold, min(rest, len(cold)))
    if len(picked) < k:
        left = [h for h in hot if h not in picked]
        picked += rnd.sample(left, min(k - len(picked), len(left)))
    return picked


def generate(name, prop, c, simulate=None, timeout=1500):
    # genview keeps the last step apart, so every (state, last operation) pair is printed: failing operations are kept
    hists, stats = vlib.tlc_gen(f"{prop}-{name}", "LanceTable", c.replace("INVARIANTS " + ALL_INVS, "INVARIANTS GenPrint")
                                .replace(ALL_PROPS, "").replace("VIEW view", "VIEW genview"), tag="SCN", workers=1,
                                timeout=timeout, simulate=simulate)
    return hists, stats


def run(prop, tier, families, own_invariants, reread=False, assumptions=None, quick_cap=1500, thorough_cap=8000,
        tail_steps=None, knob_list=None, replay=None):
    """families: list of dicts(name, ids, vals, maxv, maxops(quick), maxops_thorough, stable(list), opkinds)"""
    if replay:
        from checks import query_common
        return query_common.replay(prop, replay, own_invariants)
    t0 = time.time()
    rnd = random.Random(vlib.seed())
    out = vlib.Outcome(prop)
    states = trans = 0
    mc_info = []
    total_scn = total_events = accepted_scn = 0
    samples = []
    counts_total = {}
    exhaustive = True
    for fam in families:
        # quick: exhaustive at depth maxops.  thorough: exhaustive one step deeper where that stays below ~1M states
        # (families of depth 2); otherwise exhaustive at the quick depth PLUS seeded TLC simulation one step deeper,
        # for the invariants and for the histories that are replayed.
        deep_sim = tier != "quick" and fam["maxops"] >= 3
        maxops = fam["maxops"] if (tier == "quick" or deep_sim) else fam.get("maxops_thorough", fam["maxops"] + 1)
        hb = []
        for stable in fam["stable"]:
            c = cfg(fam["ids"], fam["vals"], fam["maxv"], maxops, stable, fam["opkinds"], maxbatch=fam.get("maxbatch", 1))
            # 1. model-check the intended design
            r = vlib.tlc_mc(f"{prop}-{fam['name']}-{int(stable)}", "LanceTable", c, workers=8, timeout=3000)
            if r["violated"]:
                out.report({"spec": "LanceTable", "invariant": r["violated"]},
                           f"design model violates {r['violated']} ({r['out']})", {"cfg": c})
            states += r.get("distinct", 0)
            trans += r.get("generated", 0)
            mc_info.append({"family": fam["name"], "stable": stable, "distinct": r.get("distinct"),
                            "generated": r.get("generated"), "depth": r.get("depth"), "wall_s": r["wall_s"]})
            # 2. TLC generates the histories (one per distinct final state)
            hists, gstats = generate(f"{fam['name']}-{int(stable)}", prop, c)
            if not hists:
                raise vlib.ToolError("TLC generated no scenario")
            cap = (quick_cap if tier == "quick" else thorough_cap) // max(1, len(fam["stable"]) * len(families))
            if deep_sim:
                deep = fam.get("maxops_thorough", fam["maxops"] + 1)
                cd = cfg(fam["ids"], fam["vals"], fam["maxv"] + 1, deep, stable, fam["opkinds"], maxbatch=fam.get("maxbatch", 1))
                rs = vlib.tlc_mc(f"{prop}-{fam['name']}-{int(stable)}-sim", "LanceTable", cd, workers=4, timeout=3000,
                                 simulate="num=60000")
                if rs["violated"]:
                    out.report({"spec": "LanceTable", "invariant": rs["violated"]},
                               f"design model violates {rs['violated']} in simulation at depth {deep} ({rs['out']})", {"cfg": cd})
                mc_info.append({"family": fam["name"], "stable": stable, "mode": "simulation num=60000", "maxops": deep,
                                "generated": rs.get("generated"), "wall_s": rs["wall_s"]})
                dh, _ = generate(f"{fam['name']}-{int(stable)}-sim", prop, cd, simulate=f"num={cap * 2}", timeout=3000)
                seen = {json.dumps(h, sort_keys=True) for h in hists}
                deeper = []
                for h in dh:
                    k = json.dumps(h, sort_keys=True)
                    if k not in seen:
                        seen.add(k)
                        deeper.append(h)
                # half of the budget for the deeper (sampled) histories
                hists = sample(hists, cap // 2, rnd) + sample(deeper, cap - cap // 2, rnd)
                exhaustive = False
            if len(hists) > cap:
                exhaustive = False
            hb.append((stable, sample(hists, cap, rnd)))
        # 3./4. replay on the implementation and validate
        reports, scn_file, n, build_s = run_family(fam["name"], prop, hb, reread, tail_steps=tail_steps, knob_list=knob_list)
        total_scn += n
        scn_lines = None
        bad_scn = set()
        for tf, rep in reports:
            total_events += rep["events"]
            for k, v in rep["counts"].items():
                counts_total[k] = counts_total.get(k, 0) + v
            for b in rep["bad"]:
                pos, scn, i, op, inv, cls = b
                if INV2PROP.get(inv) != prop and inv not in own_invariants:
                    continue
                if inv not in own_invariants:
                    continue
                bad_scn.add(scn)
                if scn_lines is None:
                    scn_lines = open(scn_file).read().splitlines()
                scenario = json.loads(scn_lines[scn - 1])
                out.report({"invariant": inv, "op": op, "class": cls} if cls else {"invariant": inv, "op": op},
                           f"{inv} violated by {op} (scenario {scn} step {i}) on the implementation trace",
                           {"scenario": scenario, "step": i, "invariant": inv, "trace": tf})
            if len(samples) < 3:
                with open(tf) as f:
                    ls = f.read().splitlines()
                samples.append({"family": fam["name"], "events": [json.loads(x) for x in ls[:3]]})
        accepted_scn += n - len(bad_scn)
    # vacuity: the run must have exercised what it claims
    if counts_total.get("ok", 0) == 0 or counts_total.get("scenarios", 0) == 0:
        raise vlib.ToolError("vacuous run: no successful operation recorded")
    rc = out.finish()
    vlib.write_evidence(prop, tier, "model_checking", {
        "states": states, "transitions": trans, "traces_validated_against_impl": accepted_scn,
        "samples": samples, "evaluations": total_scn, "distinct_nontrivial": accepted_scn,
        "rule": "histories are generated by TLC from LanceTable.tla (one per distinct reachable final state of the "
                "bounded model, hence distinct; sampled with the seed when above the cap); every history contains at "
                "least one committed write; each is replayed on a real dataset and every step judged by Trace_LanceTable",
        "exhaustive": exhaustive, "model_runs": mc_info, "event_counts": counts_total,
        "events_validated": total_events, "invariants_of_this_property": sorted(own_invariants),
    }, time.time() - t0, len(out.violations), assumptions or [])
    return rc
