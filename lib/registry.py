"""Single source of truth for MANIFEST.json (bin/mkmanifest writes it from here)."""

NA_TECH = {
    "C25": "file-format encode/decode fidelity over the Arrow type zoo: the specification would be the identity function; "
           "no state/transition content for TLC to explore (DESIGN.md section 6)",
    "C26": "bit-level compression codecs: identity specification, inputs not representable in TLC's 32-bit integers (section 6)",
    "C28": "FSST / FastLanes kernels: bit-level round trip, identity specification (section 6)",
    "C32": "protobuf/Arrow metadata encode/decode equality of arbitrary values: identity specification (section 6)",
    "C35": "floating-point accuracy of SIMD distance kernels: TLC has no reals (section 6)",
    "C40": "value-level Arrow array helper transformations: identity-like specifications over Arrow buffers (section 6)",
}

# property id -> dict(level, text, design_ref, note, technique, thorough(bool))
CLAIMED = {
    "C21": dict(
        category="model_checking",
        text="TLC checks the design-level mask/evaluate model (IndexAlgebra.tla) for MaskIsSet and GuaranteeKept, then "
             "every operator of the real RowIdTreeMap / RowIdMask / ScalarIndexExpr::evaluate is called on the complete "
             "finite universe of tree maps, masks and expression trees and each recorded call is judged by TLC against "
             "the set semantics (Trace_IndexAlgebra.tla). Exhaustive for the stated universe, which is the right level "
             "for a pure component whose defects live in corner cases of the allow/block/full-fragment representation.",
        design_ref="DESIGN.md 3.9, 5 (C21)",
        note="trusted: roaring bitmaps, TLC, the probe universe (NF+1 fragments x NR+1 offsets) as a faithful witness of "
             "membership; expression trees are read-once",
        technique="TLA+ operator semantics + TLC model check of the structural model; exhaustive implementation replay "
                  "validated by TLC trace checking",
    ),
}

_TABLE_NOTE = ("trusted: TLC; the projection function of the harness (scan with _rowid/_rowaddr/version columns, deletion vectors, "
               "manifest counters); concurrency is expressed as stale read versions + commit order with conflict_retries = 0; "
               "keys are unique; tables have <= 4 keys, <= 3 fragments")
_TABLE_TECH = "TLA+ table model (LanceTable.tla) checked by TLC; TLC-generated histories replayed on real datasets; TLC trace validation (Trace_LanceTable.tla)"


def _table(text, ref):
    return dict(category="model_checking", text=text, design_ref=ref, note=_TABLE_NOTE, technique=_TABLE_TECH)


CLAIMED.update({
    "C03": _table("TLC checks SerialEquivalence (latest contents = serial replay of the committed transactions' effects computed at their "
                  "read versions) on the design model with lance's conflict rules and row-level rebase transcribed, for all histories of "
                  "2 (quick) / 3 (thorough) operations by two writers over append, delete, update, upsert, compact, overwrite, restore with "
                  "every read-version assignment; one history per distinct reachable state is replayed on a real dataset through stale "
                  "handles and every step is judged by TLC: a failed operation leaves the projected latest version unchanged, a "
                  "committed one yields exactly the serial-replay table.", "DESIGN.md 3.4, 5 (C03)"),
    "C04": _table("NoLostUpdate (a committed delete/update/upsert whose selected keys were touched by a version between its read version "
                  "and its commit is a violation) and NoDoubleImage are evaluated by TLC on every step of TLC-generated histories of "
                  "delete / update / upsert / compact by two writers with stale handles, replayed on real datasets (stable row ids on and off); "
                  "the design model with the transcribed rebase logic is model-checked for the same invariants.", "DESIGN.md 3.4, 5 (C04)"),
    "C05": _table("WellFormed (fragment ids ordered and <= max_fragment_id, deletion vectors within physical rows, live rows = physical - "
                  "deleted, unique field ids, row ids below next_row_id, index fields in the schema, latest version opens and scans) is "
                  "evaluated by TLC on the projection recorded after every step of every generated history over the full operation alphabet.",
                  "DESIGN.md 3.4, 5 (C05)"),
    "C06": _table("VersionsImmutable: every version observed during a history (after restore, overwrite, compaction, rebased deletes ...) is "
                  "re-read through a fresh open at the end of the history and TLC compares the full projection (schema, rows and order, "
                  "deletions, config, index list, counters) with the one recorded when the version was created; the design model checks the "
                  "action property on all transitions.", "DESIGN.md 3.4, 5 (C06)"),
    "C07": _table("RestoreEqualsOld (fragments of the restored latest = fragments of the old version) and RowIdsNeverReused (no row id handed "
                  "out by a step was ever seen in an earlier version of the history; ghost set `issued`) evaluated by TLC on histories "
                  "restore;append|upsert|update|delete... of length 3 (quick) / 4 (thorough).", "DESIGN.md 3.4, 5 (C07)"),
    "C13": _table("RewritePreservesContents: across a compaction the multiset of (key, value, stable row id, created-at, last-updated) is "
                  "unchanged, and compaction commits at most the fragment reservation plus one rewrite version; evaluated by TLC on "
                  "generated histories mixing compaction (also planned on a stale handle) with delete/update/upsert/append.",
                  "DESIGN.md 3.4, 5 (C13)"),
    "C17": _table("VersionColumnsCorrect: the model keeps, per key, the version of creation and of the last update as the property defines "
                  "them (ghost `truth`, independent of lance's version sequences) and TLC compares them with _row_created_at_version / "
                  "_row_last_updated_at_version of every live row after every step (append, update, upsert, delete, compact, restore; "
                  "multi-fragment tables).", "DESIGN.md 3.4, 5 (C17)"),
    "C18": _table("RowIdStable (a key keeps its stable row id across update, upsert and compaction), RowIdUnique and row ids below "
                  "next_row_id, evaluated by TLC after every step of the lineage histories with stable row ids.", "DESIGN.md 3.4, 5 (C18)"),
})

_QUERY_NOTE = ("trusted: TLC; values are small int32 and NULL (no floats/strings/temporal); predicates are the Sql3VL grammar of depth <= 2 "
               "over one nullable column; the table has 6-8 rows in 2-3 fragments")
CLAIMED.update({
    "C12": dict(category="model_checking",
                text="TLC checks the laws of the reference semantics (TableQuery.tla over Sql3VL.tla: TRUE/FALSE/UNKNOWN partition, NOT "
                     "swaps TRUE and FALSE only, DELETE removes exactly TRUE rows, UPDATE keeps the row count) and prints every statement "
                     "(delete / update x 3 expressions for every predicate; merge_insert over 4 sources x 12 option settings); each is "
                     "executed on an unindexed, btree- and bitmap-indexed real table and TLC compares the rows removed / re-inserted and "
                     "their values with Effect() of the reference semantics.",
                design_ref="DESIGN.md 5 (C12)", note=_QUERY_NOTE + "; NULL keys and duplicate source keys are not generated",
                technique="TLA+ three-valued SQL semantics + TLC; statement replay; TLC trace validation"),
    "C16": dict(category="model_checking",
                text="Every predicate printed by TLC is scanned under 11 execution-knob assignments (batch size, strict batch size, "
                     "readahead, ordered/unordered, early/late materialisation, stats, scalar index use, row id / address columns) plus "
                     "ORDER BY / LIMIT / OFFSET variants; TLC judges each variant's rows, order keys, limits and count_rows(filter) "
                     "against Sql3VL!Eval on the observed table, which implies knob independence.",
                design_ref="DESIGN.md 5 (C16)", note=_QUERY_NOTE,
                technique="TLA+ three-valued SQL semantics + TLC; query replay with knob variants; TLC trace validation"),
    "C19": dict(category="model_checking",
                text="The same predicates are scanned with and without scalar index use on btree- and bitmap-indexed tables in six index "
                     "states (fresh, rows appended after indexing, deleted, updated, compacted/remapped, optimized); TLC judges the indexed "
                     "rows and count against Sql3VL!Eval. The index-negation-over-NULL defect is a known finding matched by its class.",
                design_ref="DESIGN.md 5 (C19)", note=_QUERY_NOTE + "; label-list indices are not covered",
                technique="TLA+ three-valued SQL semantics + TLC; indexed/unindexed query replay; TLC trace validation"),
    "C31": dict(category="model_checking",
                text="TLC model-checks ObjectWriter.tla (the writer's poll_write/poll_shutdown/poll_tasks state machine against a multipart "
                     "store with gated part uploads and scripted faults on put_multipart / put_part (failure, connection reset) / complete / put, "
                     "call-order and strict part accounting) for NothingVisibleBeforeDone, DoneEqualsConcat, FailLeavesNothing, AbortLeavesNothing "
                     "and PendingCanProgress; TLC-generated scenarios (one per distinct closed state, seeded stratified subset) are replayed on the real "
                     "ObjectWriter over a mock object_store, and every recorded step (store calls with payload segments, API result, destination listing) "
                     "is explained by the model and judged by the invariants in Trace_ObjectWriter.tla.",
                design_ref="DESIGN.md 3.8, 5 (C31)",
                note="trusted: tokio JoinSet/Vec capacity, the mock store semantics (no lost responses), 5 MiB parts only; retry scenarios are few "
                     "because each costs 2-8 s of real sleep; after an error only abort/drop follow",
                technique="TLA+ state machine + TLC; scenario replay with hand-polled futures; TLC trace validation with named deviation RetryAppendsPart"),
    "C41": dict(category="model_checking",
                text="TLC model-checks Spill.tla: the replay-spill protocol (sender Buffering->Spilling->Finished|Errored with write() split at its await "
                     "points, published WriteStatus, readers opened at any time switching from the in-memory snapshot to the file with skip) for "
                     "EveryReaderSeesAllInOrder, PublishedOnDisk and ReadsNeverFail, and the Chunk law for TLA+ transcriptions of BatchReaderChunker and "
                     "StrictBatchSizeStream over the complete input universe. TLC-generated schedules (memory limit 0 / 1 / 2.5 batches / none, 2-3 readers "
                     "opened before/during/after writing, blocked readers resumed) are replayed on the real create_replay_spill on a current-thread runtime "
                     "with wake-driven polling, and the real chunk_stream / chunk_concat_stream / StrictBatchSizeStream are run on the whole universe; every "
                     "recorded step / call is judged by TLC in Trace_Spill.tla.",
                design_ref="DESIGN.md 3.8, 5 (C41)",
                note="trusted: arrow IPC stream reader/writer, tokio watch and blocking pool; equal-sized batches; no I/O faults; reader/writer "
                     "interleaving inside write() is checked on the model only",
                technique="TLA+ state machine + operator laws, TLC; schedule replay without wall-clock time-outs; TLC trace validation"),
})

CLAIMED.update({
    "C11": _table("ScanEqualsModel: after every create / append / overwrite of 1-2 row batches the ordered scan of the latest version "
                  "equals the concatenation of the batches since the last overwrite (values, NULLs, order), new fragments get fresh ids "
                  "and consecutive row ids; histories are generated by TLC and replayed under 18 write-knob assignments (rows per file "
                  "1/2/unlimited, rows per group 1/1024, storage versions legacy/2.0/2.1).", "DESIGN.md 5 (C11)"),
    "C15": _table("After every generated history (append, delete, update, upsert, compact, restore; stable row ids on and off) the driver "
                  "takes every position, every stable row id and every address once, all of them in reverse order, duplicates, and one "
                  "offset past the end; TLC compares each result with the rows of the observed scan (TakeEqualsScan, TakeRowsEqualsScan); "
                  "OffsetMapper::map_offset is checked exhaustively against OffsetMapOps.tla in the C34 run.", "DESIGN.md 5 (C15)"),
    "C33": dict(category="model_checking",
        text="Manifest names are specified character by character over decimal numerals (u64::MAX - v, 20-digit padding, detached "
             "bit 2^63, byte-wise name order); TLC checks the naming laws (round trip for both schemes, detached never parses as "
             "attached, V2 names sort in reverse version order) and model-checks the design of latest-version discovery, "
             "list_manifest_locations and migrate_scheme_to_v2 for every directory content of <= 3 (thorough 4) entries out of 18 "
             "(published V1/V2, detached, staging, temporary, multipart, junk) and every listing order on lexically ordered, "
             "unordered and local stores (ResolveExact, ListExact, MigratePreserves). The same finite universe is then executed on "
             "the real ManifestNamingScheme / CommitHandler / migrate functions (in-memory store, a store with forced listing "
             "order, real directories) under five u64 embeddings (0, 1, 9/10, 2^32, 2^63-1, 2^63, 10^19, u64::MAX) and every "
             "recorded call is judged by TLC; a Dataset-level commit/checkout_latest scenario confirms reachability through the "
             "public API.",
        design_ref="DESIGN.md 3.9, 5 (C33), Appendix B (readers), 8 item 8",
        note="exactness is claimed for single-scheme directories plus staging/temporary/multipart files; junk names, mixed V1+V2 "
             "and detached-in-V1 directories are recorded and counted but not judged; local readdir order is not forced; trusted: "
             "object_store InMemory/LocalFileSystem, TLC",
        technique="TLA+ operator laws + TLC model check of the discovery design; exhaustive implementation replay over the "
                  "spec-defined universe with TLC trace validation; named deviations (V2InScanArm, UnwrapNone) classify failures"),
    "C34": dict(category="model_checking",
        text="TLC checks the design-level model of RowIdSequence / U64Segment / rechunk_sequences / RowIdIndex (RowIdSeq.tla: encoded "
             "segments next to a ghost plain list; IterIsGhost, QueriesAgree, RechunkAgrees, ChoiceSound, IndexIsInverse, whatever encoding "
             "each segment is in). Every operation of the real code is then called on the complete universe of small id lists (all orders, "
             "all splits into <=3 segments incl. empty ones, each of the five encodings forced or chosen, all delete sets incl. repeated ids, "
             "all mask position lists in any order, all slices / sorted selections / chunk-size lists that do and do not sum to the length, "
             "all fragment layouts of <=3 fragments with deletion vectors and update-style duplicates), stretched into u64 by eight "
             "order-preserving run embeddings, plus seeded random operation chains; each recorded call is judged by TLC against the "
             "plain-list semantics (Trace_RowIdSeq.tla).",
        design_ref="DESIGN.md 3.9, 5 (C34)",
        note="trusted: TLC, prost, roaring, the run embeddings as faithful witnesses of u64 behaviour; domain: distinct ids < u64::MAX "
             "(tombstone), sorted select offsets, in-range slices; OffsetMapper::map_offset is checked in the same run against OffsetMapOps.tla (C15)",
        technique="TLA+ operator semantics + TLC model check of the structural model; exhaustive implementation replay validated by TLC trace checking"),
    "C30": dict(category="model_checking",
        text="TLC checks (a) the coalesce/split/un-coalesce design (IoSchedOps/IoSched ops mode): one buffer per requested "
             "range, in order, equal to the file slice, on the complete universe of range lists (<=3 ranges over 12 bytes, "
             "<=4 over 6 bytes; block 0/2/4, max_iop 3/5/16MiB, read_chunk 4/default), and (b) the I/O queue machine "
             "(IoSched queue mode): NoOverIssue, EachRequestOnce, exact byte accounting, budget exceeded only via the "
             "priority bypass, close cancels pending, deadlock freedom and submitted ~> resolved under weak fairness with "
             "adversarial heap tie-breaks. The real FileScheduler::submit_request / LanceEncodingsIo::submit_request are "
             "called on the same universe and every call is judged by TLC; TLC-generated schedules are forced onto a real "
             "ScanScheduler through a driver-owned object store and every recorded Submit/Issue/Complete/Resolved/Close/"
             "quiescence event is replayed on the queue machine (Trace_IoSched.tla).",
        design_ref="DESIGN.md 3.8, 5 (C30), 8 (#7)",
        note="scaled-down sizes; current-thread runtime, completion order chosen by the driver, hangs observed by bounded "
             "executor turns; store errors/retries, the process-wide iops quota and multi-threaded runs not covered; unsorted "
             "range lists are a known finding; a consumer dropping a request future is outside the property "
             "(reported in evidence.beyond_property)",
        technique="TLA+ operators + TLC exhaustive universe and queue-machine model checking (safety, deadlock, liveness); "
                  "exhaustive / schedule replay on the implementation validated by TLC trace checking"),
})

CLAIMED.update({
    "C01": dict(
        category="model_checking",
        text="TLC checks LanceCommit.tla (one action per storage / external-store / lease call of the condput, rename, "
             "lock, external and unsafe commit handlers and of the reader programs; faults FailNoEffect, LostResponse, "
             "Crash at every call) for DenseVersions, TargetIsLatestPlusOne, DetachedNeverLatest, NoTornWrite, "
             "WriteAppliedOnce; TLC-generated schedules are forced onto the real Dataset APIs through a gate object store, "
             "and every recorded call trace, the fresh reader's versions()/checkout/scan/validate included, is validated "
             "by TLC against the same actions with all invariants judged on every state.",
        design_ref="DESIGN.md 2.3, 3.1, 3.2, 5 (C01), Appendix B",
        note="bounds: 2-3 writers + 1-2 readers, one operation per writer (append/delete/overwrite/restore/detached), "
             "versions <= 5, fault budgets <= 2; replay covers one schedule per distinct final model state (sampled in the "
             "quick tier); detached commits only with the conditional-put handler; create races and cleanup not covered; "
             "trusted: TLC, InMemory object store atomicity, gate bookkeeping",
        technique="explicit TLA+ protocol model + TLC model check; schedule replay on the implementation; TLC trace validation"),
    "C02": dict(
        category="model_checking",
        text="Same model and binding as C01; decides OneManifestPerVersion, ManifestsImmutable (action property and "
             "content-hash invariant on every implementation state) and AtMostOneLeaseHolder for racing writers with "
             "retries, failed calls and lost responses; UnsafeCommitHandler modelled but exempt; sanity runs show that the "
             "unsafe handler and an expiring lease violate the invariant.",
        design_ref="DESIGN.md 3.2, 5 (C02)",
        note="lock handler under the assumption that the lease of a live holder does not expire; scripted lease store; same bounds as C01",
        technique="explicit TLA+ protocol model + TLC; gated schedule replay; TLC trace validation"),
    "C10": dict(
        category="model_checking",
        text="External-handler families of LanceCommit.tla (staging put, put_if_not_exists, EXT.get recovery branch, "
             "finalize = copy / put_if_exists / delete, reader repair on latest and on version lookup, onboarding of a "
             "table written without the store): UniqueContentPerVersion, CommittedNeverLost, ExtEntryResolvable, "
             "ExtAgreesWithFinal, ReaderRepairs, WriterFinalises under a crash at every call, failed calls and lost "
             "responses; replayed on ExternalManifestCommitHandler over a scriptable ExternalManifestStore sharing the gate.",
        design_ref="DESIGN.md 3.2, 5 (C10), 8 #12",
        note="StaleRead of the external store not modelled; known finding: lost response of put_if_not_exists together "
             "with a failed EXT.get leaves a dangling store entry (double fault)",
        technique="explicit TLA+ protocol model + TLC; gated schedule replay with mock external store; TLC trace validation"),
})

CLAIMED.update({
    "C27": dict(category="model_checking",
        text="TLC model-checks RepDef.tla: a transcription of SerializerContext / RepDefUnraveler / CompositeRepDefUnraveler is shown to "
             "produce exactly the documented Dremel-style levels (LevelsMatchScheme), to be inverted by unravelling on the logical value "
             "(RoundTrip: Tree(Unravel(Build x)) = Tree x, also for two batches serialised together and two pages read together) and to map "
             "rows to level and item ranges (RowTranslation), for all nestings of lists / structs (and list-free fixed-size lists) up to "
             "depth 3 with validity at every level, empty and null lists and garbage behind nulls. Every filled column TLC reaches is "
             "printed as a scenario; the real RepDefBuilder..serialize, control words, RepDefSlicer and RepDefUnraveler are run on each, "
             "the column is also written as a Lance 2.1 file and read back by every row range and row subset, and every recorded result "
             "is judged by TLC (Trace_RepDef.tla) against the declarative scheme and the logical tree.",
        design_ref="DESIGN.md 3.9, 5 (C27)",
        note="exhaustive for the stated small bounds (total slots of all layers <= 5-6, rows <= 4-6, list length <= 2; pairs of batches "
             "<= 9 slots without validity buffers), larger pairs by TLC simulation; leaf values abstracted to slot numbers; list + structural "
             "FSL and zero-row pages excluded; trusted: TLC, arrow-rs",
        technique="TLA+ operator semantics + TLC model check of the operational model; spec-generated scenarios replayed on the "
                  "implementation (API and file level); TLC trace validation"),
    "C37": dict(category="model_checking",
        text="TLC checks FeatureFlags.tla (table facts evolving by append/delete/update/compact/config/clone/overwrite, future writers "
             "setting unknown bits, our writers/readers gated) for FlagsReflectContents, NeverWriteUnknown, WritersRefuseUnknown, "
             "ReadersRefuseUnknown, GateIsExact on all 2^8 flag words and VersionLaws (name<->number<->alias table from the docs). The real "
             "can_read/can_write_dataset are called on every word under 4 embeddings of the unknown bits, apply_feature_flags on every small "
             "manifest, every LanceFileVersion conversion on a spec-given string set; one TLC-generated history per reachable model state is "
             "replayed on real tables and every step's manifest is judged (flags = flags implied by contents, all data files carry the table's "
             "storage version); a manifest with unknown reader/writer bits is written with the public manifest writer and every read/write "
             "operation is attempted through fresh and stale handles; every recorded event is judged by TLC (Trace_FeatureFlags.tla).",
        design_ref="DESIGN.md 3.9, 5 (C37), 8 #9",
        note="trusted: TLC, local file-system store, the manifest projection of the driver; known bits are the implementation's (0..5); "
             "undocumented version names judged by consistency with the number table only",
        technique="TLA+ state machine + operator semantics model-checked by TLC; exhaustive operator replay, TLC-generated history replay "
                  "and gate probing on real tables, validated by TLC trace checking"),
    "C43": dict(category="model_checking",
        text="TLC checks SchemaAlgebra.tla (every field tree with <=4 fields is built node by node, then transformed by exclude/intersect/"
             "merge/project-by-ids/project-by-path; the per-field name-matched procedure of the code is compared with the plain set operation "
             "on field ids) for ImplIsSetOp, ClosedUnderAncestors, PathFindsField, QuoteRoundTrip and the set identities. TLC prints every "
             "well-formed tree; for each tree the real Schema::{resolve, field_path, project, project_by_ids, intersection, exclude, merge}, "
             "Projection::{union_*, subtract_*, intersect, to_bare_schema}, the Arrow and the stored-form round trips are called on the "
             "complete operand universe and parse/format_field_path on every short string; TLC judges every recorded result field by field "
             "(id, parent, name, type, nullability, metadata-carried identity) against the set semantics (Trace_SchemaAlgebra.tla).",
        design_ref="DESIGN.md 3.9, 5 (C43)",
        note="trusted: TLC, Arrow schema types; operands are sub-schemas of one tree; a selected nested field without selected descendants "
             "may make Projection::to_schema decline; Arrow round trip judged without id equality; sibling order not judged",
        technique="TLA+ operator semantics + design-level state machine model-checked by TLC; exhaustive implementation replay over the "
                  "TLC-generated tree universe, validated by TLC trace checking"),
})

CLAIMED.update({
    "C08": dict(category="model_checking",
        text="TLC model-checks LanceCleanup.tla (versions referencing file tokens, tags, a write in progress, ageing, cleanup through a "
             "handle pinned at any version with before_version x delete_unverified x error_if_tagged; the working-set / verified / "
             "unverified rules of cleanup.rs transcribed) for RetainedReadable, OnlyPolicyManifests, NoInProgressFileDeleted, and "
             "generates the histories; each is replayed on a real table (commits of four kinds, prepared-but-uncommitted appends, tags, "
             "mtimes set 9 days back, cleanup through a stale handle) and after every cleanup every version is re-read and compared by "
             "TLC with its recorded projection: versions the policy retains (latest, tagged, not older than the handle) must be "
             "identical, removed ones must be policy-selected, a blocked cleanup must fail, a commit prepared before the cleanup must "
             "still read back.",
        design_ref="DESIGN.md 3.3, 5 (C08)",
        note="sequential half only: interleavings of the cleaner's storage calls with a concurrent writer (and Restore racing the "
             "cleaner) are not replayed; time-based policies and auto-cleanup not covered; branches / shallow clones are C09's finding",
        technique="TLA+ cleanup model + TLC; history replay on real tables; TLC trace validation (Trace_LanceTable.JudgeCleanup)"),
    "C14": dict(category="model_checking",
        text="TLC model-checks SchemaEvo.tla (add column from expressions, rename, drop, re-add under a dropped name, interleaved "
             "with append / delete / compaction) for FieldIdsUnique, NoFieldIdReuse, EvolutionPreservesOthers, RowsMatchSchema and "
             "generates the histories; each is replayed on a real table and TLC judges every step on the recorded projection "
             "(Trace_SchemaEvo.tla): other columns' values and the row order unchanged, the added column holds exactly the requested "
             "values, a re-added name never shows the dropped data, field ids unique and never reused.",
        design_ref="DESIGN.md 5 (C14)",
        note="flat nullable int32 columns; SQL-expression variant of add_columns only (batch / UDF / key-join variants, casts and "
             "nullability changes not covered)",
        technique="TLA+ schema-evolution model + TLC; history replay; TLC trace validation"),
    "C24": _table("IndexCoverageSound on the design model (fragment bitmap vs snapshot of indexed values, with the CreateIndex / Rewrite "
                  "conflict rules transcribed) and, on the implementation, index creation through fresh and stale handles interleaved with "
                  "update, upsert, delete, append and compaction followed by indexed and unindexed queries for every value and by "
                  "optimize_indices: TLC judges the indexed rows and counts against Sql3VL (IndexedScanEqualsEval).", "DESIGN.md 5 (C24)"),
    "C38": dict(category="model_checking",
        text="Every TLC-generated table history is replayed three times -- without a session, through a shared Session with 1 KiB "
             "caches (eviction) and with large caches -- with and without dropping and re-creating the table at the same location, and "
             "judged by Trace_LanceTable (all table invariants, scan, take, time travel); a violation present only in a run through a "
             "session is a CacheTransparent violation.",
        design_ref="DESIGN.md 3.7, 5 (C38)",
        note="several tables at nested locations sharing one session are not covered; known finding: per-version cache keys after "
             "drop + re-create",
        technique="differential replay of TLC-generated histories with TLC trace validation as the oracle"),
    "C42": _table("CopyReadsSame: after every generated history (plus index creation and tags) the table directory is copied byte for "
                  "byte, the original is moved away, and every version and every tag is re-read at the copy; TLC compares the full "
                  "projections with the ones recorded at the original.", "DESIGN.md 5 (C42)"),
})

CLAIMED.update({
    "C09": dict(category="model_checking",
        text="TLC model-checks the intended design of branches/tags/shallow clones (LanceRefs.tla: per-location version histories, parent refs, "
             "tags, object tree with ownership) for TagResolves, RefResolves, BranchIsolation, OwnHistoryKept, DeleteRemovesOnlyOwn, "
             "DeleteRemovesAllOwn and OnlyOwnStorageTouched over all histories of 4 (quick) / 5-6 (thorough) operations on prefix-related and "
             "sibling names (a, ab, a/b, a/bc, b), and confirms that each as-built deviation breaks exactly the named property. Histories "
             "generated by TLC (one per distinct final state, seeded simulation for deeper ones, plus the deviation counterexamples) are replayed "
             "on real datasets; after every step every other (location, version), every tag and the object-tree listing are recorded and judged "
             "by TLC (Trace_LanceRefs.tla). The documented name grammar (branch_tag.md) is written token-wise in TLA+ and compared with "
             "check_valid_branch / check_valid_tag on every string up to length 5 (quick) / 6 (thorough) over a 10-token alphabet.",
        design_ref="DESIGN.md 3.5, 5 (C09), 8 (#2, #3)",
        note="trusted: TLC; tablekit projection; local file system store; a branch is deleted only when nothing depends on it; a shallow clone "
             "losing files to a cleanup of its source is documented behaviour (layout.md) and only counted; non-ASCII alphanumerics not "
             "enumerated; known findings: cleanup ignores files other branches reference through base paths; deleting a branch that has "
             "sub-branches keeps its own files",
        technique="TLA+ state machine + action properties checked by TLC; TLC-generated histories and exhaustive name universe replayed on the "
                  "real lance crate; TLC trace validation"),
})

CLAIMED.update({
    "C39": dict(category="model_checking",
        text="TLC model-checks MemWal.tla: the MemWAL list of every table version (region, generation, state Open<Sealed<Flushed<Merged, owner) "
             "under 2-3 writers whose handles are pinned at stale read versions; each API function builds its UpdateMemWalState / "
             "Update{mem_wal_to_merge} transaction as the code does, and commit applies the transcribed MemWAL arms of check_txn and "
             "update_mem_wal_index_in_indices_list. The intended design satisfies EachGenerationOnce, Consecutive, OnlyLatestOpen, StateMonotone, "
             "TrimmedNeverReappears, NoTwoCommitsOnSameGeneration and OwnerChangesSerialise on all histories of the bound. TLC prints the "
             "histories of the as-built design with the findings it predicts; a seeded stratified subset (every predicted finding represented) "
             "is replayed on real datasets through stale handles, and TLC judges every recorded step: result class, raw decoded mem_wal_list, "
             "rows and fragments must equal the prediction, the seven invariants are evaluated on the observed history.",
        design_ref="DESIGN.md 3.6, 5 (C39), 8 (#11), Appendix A (M1, M2)",
        note="trusted: TLC; the JSON projection of the raw MemWalIndexDetails list; concurrency = stale read version + commit order; honest "
             "expected-owner arguments; no user index (trim's index catch-up rule not exercised); create_mem_wal_generation is outside the "
             "modelled API; known finding: trim removes the newest generation of a region",
        technique="TLA+ state machine + TLC (intended design exhaustive for the bound; as-built design for history generation); TLC-generated "
                  "histories replayed on the implementation; TLC trace validation with conformance and invariant judgement"),
    "C20": dict(category="model_checking",
        text="TLC checks on spec/Pruning.tla that zone-map, bloom-filter and n-gram answers cover every matching row: laws ZoneMapSound / "
             "BloomSound / NgramSound over all zones of <=3 cells and all accepted predicates (=, ranges, IN, BETWEEN, IS NULL; contains over a "
             "4-character alphabet with a multibyte character), and a state machine (append, delete, build, optimize, query) with "
             "IndexedScanEqualsFullScan. The real indices are trained through create_index on tables that hold every zone of the universe and "
             "on index histories; TLC judges each scan with/without the index and each direct ScalarIndex::search answer against Sql3VL!Eval "
             "(IndexedScanEqualsEval, SearchSuperset). The zone-address, short-query and no-trigram defects are known findings matched by class.",
        design_ref="DESIGN.md 3.9, 5 (C20)",
        note="values are small model values embedded order-preservingly into int32/int64/utf8/float32/float64 (float = IEEE total order, "
             "calibrated each run); bloom false-positive rate is not a property; quick tier samples size-3 float/utf8 zones and predicates",
        technique="TLA+ laws + state machine + TLC; zone-universe and history replay on real indices; TLC trace validation with named deviations"),
    "C29": dict(category="model_checking",
        text="TLC checks on spec/Pruning.tla that a page/zone decided from min/max/null_count/nan_count has no matching row: PageStatsSound "
             "(legacy page statistics + interval simplification, strong 3-valued form over all pages of <=3 cells and the depth-2 predicate "
             "grammar), PageStatsWideningSound (truncated bounds), ZoneMapSound. Legacy tables written with max_rows_per_group = page size are "
             "scanned with use_stats(true/false) (plan checked to contain LancePushdownScan) and zone-map tables with/without the index; TLC "
             "judges every result against Sql3VL!Eval (StatsScanEqualsEval). NaN-ignoring float statistics and constant pages with nulls are "
             "known findings matched by class.",
        design_ref="DESIGN.md 3.9, 5 (C29)",
        note="legacy preconditions: no NULL in primitive columns, no empty string; lance-encoding block statistics prune nothing; float order "
             "calibrated each run; quick tier samples predicates and size-3 float/utf8 pages",
        technique="TLA+ interval-abstraction laws + TLC; page-universe replay on legacy tables and zone-map indices; TLC trace validation"),
    "C36": dict(category="model_checking",
        text="Namespace catalog behaves as a hierarchical map: TLC model-checks the manifest-row design (object_id = names joined by '$', the "
             "code's filters transcribed) against the map meaning (CatalogIsMap, OperationsAreLocal, UnfaithfulNamesRejected, PagingCoversOnce) "
             "for all histories up to depth 3 (quick) / 4 (thorough) over names with $, ', /, ., non-ASCII; TLC-generated histories (exhaustive "
             "final states + seeded simulation + witness counterexamples of each as-built deviation) are replayed on the real DirectoryNamespace "
             "in dir, manifest and dual mode and every response and probe is judged by Trace_Namespace.",
        design_ref="DESIGN.md 3.8 (Namespace), 5 (C36), 8 #13",
        note="local file system store; one mode per scenario; REST namespace, migration between modes and concurrent callers not covered; "
             "findings keyed by {invariant, deviation}",
        technique="explicit TLA+ spec (spec/Namespace.tla) + TLC + history replay (harness/src/bin/vh_namespace.rs) + trace validation "
                  "(spec/Trace_Namespace.tla)"),
    "C22": dict(category="model_checking",
        text="TLC checks the laws of the nearest-neighbour answer relation (VectorQueryOps!Judge: visibility, exact integer distances, ascending "
             "order, |R|=min(k,eligible), no closer eligible row outside; post-filter = filtered exact top-k) on every reachable small table "
             "(append/delete/IVF_FLAT index/optimize/compact) and query, then generates histories, the query universe (25 grid points x k 1..9 x "
             "10 filters x 3 metrics) and 34 execution variants (flat, IVF_FLAT full probe with/without refine, fast_search, pre-/post-filter, "
             "partial probing); the driver replays them on real datasets (stable and address row ids, multi-fragment, optional btree prefilter) "
             "and TLC judges every recorded answer (Trace_VectorQuery.tla). Partial claim.",
        design_ref="DESIGN.md 3.9, 5 (C22)",
        note="vectors on the integer grid {-2..2}^2 as float32 (L2, dot exact; cosine only non-zero vectors, tolerance 1e-6), <= 8 rows; NOT "
             "decided: float16/float64, SIMD tails, high dimensions, PQ/SQ/HNSW recall, multivectors; partial-probe modes judged for deleted / "
             "filtered-out rows only; trusted: TLC, the scan projection used as ground truth for liveness and index coverage",
        technique="TLA+ answer relation + TLC law checking; TLC-generated histories/queries replayed on lance; TLC trace validation"),
    "C23": dict(category="model_checking",
        text="TLC checks laws of the token-level matching semantics (TextQueryOps: OR/AND/phrase/boolean, NULL and empty documents, hierarchy "
             "phrase <= AND <= OR, boolean laws, independence from index coverage) on every reachable small table and query, then generates "
             "histories (append after indexing, delete, optimize, compact), the query universe (1,524 match / phrase / boolean queries of <= 3 "
             "terms) and document pools; the driver replays them on real datasets with a whitespace + lower-case inverted index (with "
             "positions) and TLC judges every recorded answer: returned key set = matching live rows (unindexed included, deleted excluded), no "
             "duplicates, non-increasing reported score, limit = subset of size min(L, matches) (Trace_TextQuery.tla). Partial claim.",
        design_ref="DESIGN.md 3.9, 5 (C23)",
        note="<= 8 documents of <= 4 tokens over ant/bee/cat/nandu(non-ASCII) + empty + NULL, rendered with mixed case / whitespace; NOT "
             "decided: BM25 score values (only their order), fuzziness, boost, slop, multi-match, other tokenizers; trusted: TLC, scan projection",
        technique="TLA+ answer relation + TLC law checking; TLC-generated histories/queries replayed on lance; TLC trace validation"),
})

PENDING_REASON = "not yet bound to the implementation by a registered check in this snapshot (see DESIGN.md status table)"

ALL = ["C%02d" % i for i in range(1, 44)]
