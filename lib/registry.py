"""Single source of truth for MANIFEST.json (bin/mkmanifest writes it from here)."""

NA_TECH = {
    "C25": "file-format encode/decode fidelity over the Arrow type zoo: the specification would be the identity function; "
           "no state/transition content for TLC to explore (DESIGN.md section 6)",
    "C26": "bit-level compression codecs: identity specification, inputs not representable in TLC's 32-bit integers (section 6)",
    "C28": "FSST / FastLanes kernels: bit-level round trip, identity specification (section 6)",
    "C32": "protobuf/Arrow metadata encode/decode equality of arbitrary values: identity specification (section 6)",
    "C35": "floating-point accuracy of SIMD distance kernels: TLC has no reals (section 6)",
    "C40": "value-level Arrow array helper transformations: identity-like specifications over Arrow buffers (section 6)",
}

# property id -> dict(level, text, design_ref, note, technique, thorough(bool))
CLAIMED = {
    "C21": dict(
        category="model_checking",
        text="TLC checks the design-level mask/evaluate model (IndexAlgebra.tla) for MaskIsSet and GuaranteeKept, then "
             "every operator of the real RowIdTreeMap / RowIdMask / ScalarIndexExpr::evaluate is called on the complete "
             "finite universe of tree maps, masks and expression trees and each recorded call is judged by TLC against "
             "the set semantics (Trace_IndexAlgebra.tla). Exhaustive for the stated universe, which is the right level "
             "for a pure component whose defects live in corner cases of the allow/block/full-fragment representation.",
        design_ref="DESIGN.md 3.9, 5 (C21)",
        note="trusted: roaring bitmaps, TLC, the probe universe (NF+1 fragments x NR+1 offsets) as a faithful witness of "
             "membership; expression trees are read-once",
        technique="TLA+ operator semantics + TLC model check of the structural model; exhaustive implementation replay "
                  "validated by TLC trace checking",
    ),
}

PENDING_REASON = "not yet bound to the implementation by a registered check in this snapshot (see DESIGN.md status table)"

ALL = ["C%02d" % i for i in range(1, 44)]
