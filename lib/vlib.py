"""Shared plumbing for the /verif checks: run TLC (model checking, scenario generation,
trace validation), build and run the Rust harness, match findings, write evidence.

Exit-code contract of every check (bin/check):
  0  property held on everything explored (KNOWN-FINDING lines allowed)
  1  a violation not listed in known_findings.json  (prints VIOLATION property=<id> replay=<path>)
  2  tool error / timeout / build failure (never a VIOLATION line)
"""
import fcntl
import hashlib
import json
import os
import re
import shutil
import subprocess
import sys
import time

ROOT = os.path.dirname(os.path.dirname(os.path.abspath(__file__)))
SPEC = os.path.join(ROOT, "spec")
WORK = os.path.join(ROOT, "work")
HARNESS = os.path.join(ROOT, "harness")
EVID = os.path.join(ROOT, "evidence")
JAR = "/opt/veriftools/tla/tla2tools.jar:/opt/veriftools/tla/CommunityModules-deps.jar"


class ToolError(Exception):
    pass


def seed():
    try:
        return int(os.environ.get("VERIF_SEED", "0"))
    except ValueError:
        return 0


def workdir(name):
    d = os.path.join(WORK, name)
    shutil.rmtree(d, ignore_errors=True)
    os.makedirs(d, exist_ok=True)
    return d


def _stage_spec(wd, modules):
    """Copy spec modules next to the generated cfg (TLC resolves EXTENDS relative to the spec)."""
    for f in os.listdir(SPEC):
        if f.endswith(".tla"):
            shutil.copy(os.path.join(SPEC, f), os.path.join(wd, f))


def _java(args, env=None, timeout=600, cwd=None, xmx="8g", xss=None, deque=False, gc_threads=4):
    # few GC threads: many TLC processes run side by side (trace shards, other checks)
    cmd = ["java", "-XX:+UseParallelGC", f"-XX:ParallelGCThreads={gc_threads}", "-XX:CICompilerCount=2", f"-Xmx{xmx}"]
    if xss:
        cmd.append(f"-Xss{xss}")
    if deque:
        cmd.append("-Dtlc2.tool.queue.IStateQueue=StateDeque")
    cmd += ["-cp", JAR, "tlc2.TLC"] + args
    e = dict(os.environ)
    if env:
        e.update(env)
    t0 = time.time()
    try:
        p = subprocess.run(cmd, cwd=cwd, env=e, stdout=subprocess.PIPE, stderr=subprocess.STDOUT,
                           timeout=timeout, text=True, errors="replace")
    except subprocess.TimeoutExpired as ex:
        raise ToolError(f"TLC timeout after {timeout}s: {' '.join(args)}") from ex
    return p.returncode, p.stdout, time.time() - t0


_RE_STATES = re.compile(r"(\d[\d,]*) states generated, (\d[\d,]*) distinct states found, (\d[\d,]*) states left on queue")
_RE_DEPTH = re.compile(r"The depth of the complete state graph search is (\d+)")
_RE_INV = re.compile(r"Invariant (\S+) is violated")
_RE_APROP = re.compile(r"Action property (\S+) is violated")
_RE_COV = re.compile(r"^<(\w+) line (\d+), col (\d+) to line (\d+), col (\d+) of module (\w+)>: (\d+):(\d+)", re.M)


def tlc_mc(name, module, cfg_text, workers=8, timeout=900, coverage=True, simulate=None, xmx="12g",
           extra_env=None, expect_violation=False):
    """Model-check `module` with the given cfg text.  Returns a dict with measured numbers."""
    wd = workdir("tlc-" + name)
    _stage_spec(wd, None)
    cfg = os.path.join(wd, "MC.cfg")
    with open(cfg, "w") as f:
        f.write(cfg_text)
    args = ["-workers", str(workers), "-metadir", os.path.join(wd, "states"), "-cleanup",
            "-noGenerateSpecTE", "-config", "MC.cfg"]
    if coverage and not simulate:
        args += ["-coverage", "1"]
    if simulate:
        args += ["-simulate", simulate, "-seed", str(seed() + 1)]
    args.append(module + ".tla")
    rc, out, wall = _java(args, env=extra_env, timeout=timeout, cwd=wd, xmx=xmx, xss="64m")
    with open(os.path.join(wd, "out.txt"), "w") as f:
        f.write(out)
    res = {"rc": rc, "wall_s": round(wall, 2), "out": os.path.join(wd, "out.txt"), "wd": wd}
    m = None
    for m in _RE_STATES.finditer(out):
        pass
    if m:
        res["generated"] = int(m.group(1).replace(",", ""))
        res["distinct"] = int(m.group(2).replace(",", ""))
    d = _RE_DEPTH.search(out)
    if d:
        res["depth"] = int(d.group(1))
    inv = _RE_INV.search(out) or _RE_APROP.search(out)
    res["violated"] = inv.group(1) if inv else None
    if "Temporal properties were violated" in out:
        res["violated"] = res["violated"] or "temporal"
    if "Deadlock reached" in out:
        res["violated"] = res["violated"] or "deadlock"
    cov = {}
    for c in _RE_COV.finditer(out):
        cov[c.group(1)] = max(cov.get(c.group(1), 0), int(c.group(7)))
    res["coverage"] = cov
    completed = ("Model checking completed. No error has been found." in out) or \
                (simulate and rc in (0,)) or ("Finished in" in out and not res["violated"] and rc == 0)
    res["completed"] = bool(completed)
    if not res["violated"] and not completed:
        tail = "\n".join(out.splitlines()[-25:])
        raise ToolError(f"TLC did not complete ({name}); see {res['out']}\n{tail}")
    if res["violated"] and not expect_violation:
        pass  # caller decides
    return res


_RE_PRINT = re.compile(r'^<<"(\w+)", "(.*)">>$', re.M)


def _printed(out, tag):
    """Values printed by PrintT(<<tag, ToJson(x)>>)."""
    vals = []
    for m in _RE_PRINT.finditer(out):
        if m.group(1) == tag:
            s = m.group(2)
            vals.append(json.loads(json.loads('"' + s + '"')))
    return vals


def tlc_gen(name, module, cfg_text, tag="SCN", workers=1, timeout=900, simulate=None, xmx="8g"):
    """Run a scenario-generating configuration; returns the list of printed JSON values."""
    wd = workdir("gen-" + name)
    _stage_spec(wd, None)
    with open(os.path.join(wd, "GEN.cfg"), "w") as f:
        f.write(cfg_text)
    args = ["-workers", str(workers), "-metadir", os.path.join(wd, "states"), "-cleanup",
            "-noGenerateSpecTE", "-config", "GEN.cfg"]
    if simulate:
        args += ["-simulate", simulate, "-seed", str(seed() + 1)]
    args.append(module + ".tla")
    rc, out, wall = _java(args, timeout=timeout, cwd=wd, xmx=xmx, xss="64m")
    with open(os.path.join(wd, "out.txt"), "w") as f:
        f.write(out)
    if "Error:" in out and "Invariant" not in out:
        raise ToolError(f"TLC generation failed ({name}); see {wd}/out.txt\n" + "\n".join(out.splitlines()[-20:]))
    m = None
    for m in _RE_STATES.finditer(out):
        pass
    stats = {"wall_s": round(wall, 2)}
    if m:
        stats["generated"] = int(m.group(1).replace(",", ""))
        stats["distinct"] = int(m.group(2).replace(",", ""))
    return _printed(out, tag), stats


def tlc_trace(name, module, cfg_text, trace_file, timeout=1800, xmx="8g", env=None):
    """Validate a recorded ndjson trace with a Trace_* module.  The module prints
    <<"REPORT", json>>; acceptance = postcondition TraceAccepted held (no TLC error)."""
    wd = workdir("trace-" + name)
    _stage_spec(wd, None)
    with open(os.path.join(wd, "T.cfg"), "w") as f:
        f.write(cfg_text)
    args = ["-workers", "1", "-metadir", os.path.join(wd, "states"), "-cleanup", "-noGenerateSpecTE",
            "-config", "T.cfg", module + ".tla"]
    e = {"TRACE": os.path.abspath(trace_file)}
    if env:
        e.update(env)
    rc, out, wall = _java(args, env=e, timeout=timeout, cwd=wd, xmx=xmx, xss="1g", deque=True, gc_threads=2)
    with open(os.path.join(wd, "out.txt"), "w") as f:
        f.write(out)
    reports = _printed(out, "REPORT")
    res = {"rc": rc, "wall_s": round(wall, 2), "out": os.path.join(wd, "out.txt"),
           "reports": reports, "accepted": False}
    m = None
    for m in _RE_STATES.finditer(out):
        pass
    if m:
        res["generated"] = int(m.group(1).replace(",", ""))
        res["distinct"] = int(m.group(2).replace(",", ""))
    d = _RE_DEPTH.search(out)
    if d:
        res["depth"] = int(d.group(1))
    inv = _RE_INV.search(out)
    res["violated"] = inv.group(1) if inv else None
    res["accepted"] = ("Model checking completed. No error has been found." in out)
    res["post_failed"] = "postcondition" in out.lower() and "violated" in out.lower()
    if not res["accepted"] and not res["post_failed"] and not res["violated"]:
        raise ToolError(f"TLC trace validation error ({name}); see {res['out']}\n" + "\n".join(out.splitlines()[-25:]))
    return res


# ---------------------------------------------------------------------------------------------
# harness

def harness_build(bin_name, timeout=3600):
    """(Re)build one harness binary from /repo's current working tree (path deps => incremental)."""
    os.makedirs(WORK, exist_ok=True)
    lock = open(os.path.join(WORK, ".build.lock"), "w")
    fcntl.flock(lock, fcntl.LOCK_EX)
    try:
        t0 = time.time()
        env = dict(os.environ, CARGO_NET_OFFLINE="true")
        p = subprocess.run(["cargo", "build", "--offline", "--bin", bin_name], cwd=HARNESS, env=env,
                           stdout=subprocess.PIPE, stderr=subprocess.STDOUT, text=True, timeout=timeout)
        if p.returncode != 0:
            raise ToolError("harness build failed:\n" + "\n".join(p.stdout.splitlines()[-40:]))
        return os.path.join(HARNESS, "target", "debug", bin_name), round(time.time() - t0, 1)
    except subprocess.TimeoutExpired as ex:
        raise ToolError("harness build timeout") from ex
    finally:
        fcntl.flock(lock, fcntl.LOCK_UN)
        lock.close()


def harness_run(binary, args, timeout=3600, cwd=None, env=None):
    e = dict(os.environ)
    if env:
        e.update(env)
    try:
        p = subprocess.run([binary] + [str(a) for a in args], stdout=subprocess.PIPE, stderr=subprocess.PIPE,
                           text=True, timeout=timeout, cwd=cwd, env=e)
    except subprocess.TimeoutExpired as ex:
        raise ToolError(f"harness timeout: {binary} {args}") from ex
    if p.returncode != 0:
        raise ToolError(f"harness failed rc={p.returncode}: {binary} {args}\n{p.stderr[-3000:]}")
    return p.stdout


# ---------------------------------------------------------------------------------------------
# findings and evidence

def load_known():
    p = os.path.join(ROOT, "known_findings.json")
    if not os.path.exists(p):
        return {"findings": [], "fixed": []}
    return json.load(open(p))


def known_match(prop, signature):
    """signature: a JSON-able value; a finding matches when its `signature` equals it."""
    for f in load_known().get("findings", []):
        if f.get("property") == prop and f.get("signature") == signature:
            return f
    return None


def write_replay(prop, payload):
    d = os.path.join(WORK, "replay")
    os.makedirs(d, exist_ok=True)
    s = json.dumps(payload, sort_keys=True)
    h = hashlib.sha1(s.encode()).hexdigest()[:10]
    p = os.path.join(d, f"{prop}-{h}.json")
    with open(p, "w") as f:
        f.write(s)
    return p


def write_evidence(prop, tier, level, coverage, wall_s, violations, assumptions):
    os.makedirs(EVID, exist_ok=True)
    ev = {"property_id": prop, "tier": tier, "seed": seed(), "level": level, "coverage": coverage,
          "assumptions": assumptions, "wall_s": round(wall_s, 2), "violations": violations}
    tmp = os.path.join(EVID, f".{prop}.json.tmp")
    with open(tmp, "w") as f:
        json.dump(ev, f, indent=1, sort_keys=True)
    os.replace(tmp, os.path.join(EVID, f"{prop}.json"))


class Outcome:
    """Collects what a check found and turns it into the exit-code / stdout contract."""

    def __init__(self, prop):
        self.prop = prop
        self.violations = []   # (signature, description, replay payload)
        self.known = []        # finding records that reproduced

    def report(self, signature, description, payload):
        k = known_match(self.prop, signature)
        if k is not None:
            if k not in self.known:
                self.known.append(k)
        else:
            self.violations.append((signature, description, payload))

    def finish(self):
        for k in self.known:
            print(f"KNOWN-FINDING: property={self.prop} {k.get('what', '')}")
        seen = set()
        for sig, desc, payload in self.violations:
            key = json.dumps(sig, sort_keys=True)
            if key in seen:
                continue
            seen.add(key)
            path = write_replay(self.prop, {"property": self.prop, "signature": sig, "what": desc, "case": payload})
            print(f"VIOLATION property={self.prop} replay={path}")
            print(f"  {desc}")
            if len(seen) >= 10:
                break
        sys.stdout.flush()
        return 1 if self.violations else 0
