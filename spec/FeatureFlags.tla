---------------------------- MODULE FeatureFlags ----------------------------
(* Property C37, state machine.

   One table.  Its facts (fragments with live/physical rows, stable row ids,
   config, base paths, storage version) evolve by user operations performed by
   THIS implementation; every commit recomputes the two flag words from the
   contents (apply_feature_flags is called by write_manifest_file on every
   commit).  A FUTURE writer may commit versions whose flag words carry bits
   this implementation does not know.  This implementation must then refuse:
   every write operation when the writer word has an unknown bit, every
   open / refresh when the reader word has one.

   Invariants
     FlagsReflectContents   the flag words written by us are exactly the ones the contents imply
     NeverWriteUnknown      we never write a bit we do not know
     WritersRefuseUnknown   no operation of ours committed on top of an unknown writer bit
     ReadersRefuseUnknown   no handle of ours sits on a version with an unknown reader bit
     GateIsExact            CanRead/CanWrite accept every word made of known bits only (checked on all words)
     VersionLaws            name <-> number <-> alias table is consistent (checked in the initial state)

   Deviations (what the code does today; {} is the intended design):
     "UncheckedWritePath"   only the insert path (append / overwrite) calls can_write_dataset
     "StaleHandleNotRechecked"  the insert path looks at the handle's manifest only, not at the latest
                            version its commit is rebased onto
     "UncheckedRefresh"     checkout_latest reads the manifest without can_read_dataset
     "StaleFlags"           (sanity mutant, not as-built) compaction keeps the old flag words        *)
EXTENDS FeatureFlagsOps, Json

CONSTANTS Deviations,
          MaxOps,        \* bound on the number of operations
          Foreign,       \* TRUE: future writers take part
          StableChoices, VerChoices

VARIABLES T,        \* the table facts
          rflags, wflags,   \* flag words of the latest version
          ours,     \* TRUE iff the latest version was written by this implementation
          hw,       \* writer flag word of the version our writer's handle has checked out
          rd,       \* reader handle: "none" | "current" | "stale"
          overrode, \* ghost: set of operations of ours that committed over an unknown writer bit
          nops,
          hist      \* ghost: the operation history (scenario), hidden by VIEW
vars == <<T, rflags, wflags, ours, hw, rd, overrode, nops, hist>>
view == <<T, rflags, wflags, ours, hw, rd, overrode, nops>>

CheckedWriteOps == {"append", "overwrite"}     \* the insert path

Init == /\ \E s \in StableChoices, v \in VerChoices : T = InitT(s, v)
        /\ rflags = TImpliedR(T) /\ wflags = TImpliedW(T)
        /\ ours = TRUE /\ hw = wflags /\ rd = "none" /\ overrode = {} /\ nops = 0
        /\ hist = <<[op |-> <<"create">>, stable |-> T.stable, ver |-> T.ver]>>

Aged(r) == IF r = "current" THEN "stale" ELSE r

\* The gate of a write operation: the handle's version AND the latest version (the one the commit is built
\* on) must carry no unknown writer bit.
Allowed(op) ==
   IF op[1] \in CheckedWriteOps
   THEN CanWrite(hw) /\ (CanWrite(wflags) \/ "StaleHandleNotRechecked" \in Deviations)
   ELSE (CanWrite(hw) /\ CanWrite(wflags)) \/ "UncheckedWritePath" \in Deviations

\* an operation of this implementation
Do(op) ==
   /\ nops < MaxOps
   /\ Enabled(op, T)
   /\ nops' = nops + 1
   /\ hist' = Append(hist, [op |-> op])
   /\ IF Allowed(op)
      THEN /\ T' = Effect(op, T)
           /\ IF "StaleFlags" \in Deviations /\ op[1] = "compact"
              THEN UNCHANGED <<rflags, wflags>>
              ELSE rflags' = TImpliedR(T') /\ wflags' = TImpliedW(T')
           /\ ours' = TRUE /\ hw' = wflags'
           /\ rd' = Aged(rd)
           /\ overrode' = IF CanWrite(wflags) THEN overrode ELSE overrode \cup {op[1]}
      ELSE UNCHANGED <<T, rflags, wflags, ours, hw, rd, overrode>>   \* refused: "unsupported", table unchanged

\* a future implementation commits a version with feature bits we do not know
FutureWrite(ur, uw) ==
   /\ Foreign /\ nops < MaxOps
   /\ ur \cup uw # {}
   /\ nops' = nops + 1
   /\ rflags' = rflags \cup ur /\ wflags' = wflags \cup uw
   /\ ours' = FALSE /\ rd' = Aged(rd)
   /\ hist' = Append(hist, [op |-> <<"future", WordNum(ur), WordNum(uw)>>])
   /\ UNCHANGED <<T, overrode, hw>>

\* our writer re-opens the table (its handle now sees the latest flag words)
Reopen ==
   /\ Foreign /\ hw # wflags /\ nops < MaxOps /\ nops' = nops + 1
   /\ hw' = wflags
   /\ hist' = Append(hist, [op |-> <<"reopen">>])
   /\ UNCHANGED <<T, rflags, wflags, ours, rd, overrode>>

OpenTable ==
   /\ Foreign /\ rd = "none" /\ nops < MaxOps /\ nops' = nops + 1
   /\ rd' = IF CanRead(rflags) THEN "current" ELSE "none"
   /\ hist' = Append(hist, [op |-> <<"open">>])
   /\ UNCHANGED <<T, rflags, wflags, ours, hw, overrode>>
Refresh ==
   /\ Foreign /\ rd = "stale" /\ nops < MaxOps /\ nops' = nops + 1
   /\ rd' = IF CanRead(rflags) \/ "UncheckedRefresh" \in Deviations THEN "current" ELSE "stale"
   /\ hist' = Append(hist, [op |-> <<"refresh">>])
   /\ UNCHANGED <<T, rflags, wflags, ours, hw, overrode>>

Next == \/ \E op \in OpsOf(T) : Do(op)
        \/ \E ur \in SUBSET UnknownBits, uw \in SUBSET UnknownBits : FutureWrite(ur, uw)
        \/ OpenTable \/ Refresh \/ Reopen
Spec == Init /\ [][Next]_vars

TypeOK == /\ rflags \in Words /\ wflags \in Words /\ rd \in {"none", "current", "stale"}
          /\ Len(T.frags) <= MaxFrags
FlagsReflectContents == ours => (rflags = TImpliedR(T) /\ wflags = TImpliedW(T))
NeverWriteUnknown    == ours => (CanRead(rflags) /\ CanWrite(wflags))
WritersRefuseUnknown == overrode = {}
ReadersRefuseUnknown == rd = "current" => CanRead(rflags)

\* ---- laws of the pure operators, evaluated once (in the initial state) ---------------------------
GateIsExact == nops = 0 =>
   /\ \A w \in Words : CanRead(w) <=> (w \subseteq KnownBits)
   /\ \A w \in Words : CanWrite(w) <=> (w \subseteq KnownBits)
   /\ \A w \in Words : Bits(WordNum(w)) = w
   \* the reader word is always contained in the writer word; applying never yields an unknown bit
   /\ \A d \in BOOLEAN, s \in BOOLEAN, c \in BOOLEAN, b \in BOOLEAN, n \in BOOLEAN :
         /\ ImpliedR(d, s, b) \subseteq ImpliedW(d, s, c, b, n)
         /\ ImpliedW(d, s, c, b, n) \subseteq KnownBits
         /\ V2DEP \notin ImpliedW(d, s, c, b, n)
VersionLaws == nops = 0 =>
   /\ \A v \in Variants : Resolve(v) \in Concrete /\ Resolve(Resolve(v)) = Resolve(v)
   /\ \A v \in Concrete : Resolve(v) = v
   /\ \A v \in Variants : FromNumbers(ToNumbers(v)) = Resolve(v)
   /\ \A v \in Variants : Display(v) \in DOMAIN DocNames => DocNames[Display(v)] = v
   /\ \A s \in DOMAIN DocNames : Display(DocNames[s]) = s \/ s = "legacy"
   /\ \A p \in NumPairs : FromNumbers(p) \in Concrete
   /\ \A v \in Concrete \ {"Legacy"} : Display(v) = ToString(ToNumbers(v)[1]) \o "." \o ToString(ToNumbers(v)[2])
   /\ \A i \in 1 .. Len(VersionStrings) :
        LET x == VersionStrings[i] IN
        \* the intended parser (documented names, everything else invalid) satisfies the judgement
        ParseOK(x, IF x.s \in DOMAIN DocNames THEN DocNames[x.s] ELSE "invalid", NoMM)

\* Scenario export (GEN configuration): the history of every distinct state
GenPrint == PrintT(<<"SCN", ToJson(hist)>>)
GenStrings == nops = 0 => PrintT(<<"STR", ToJson(VersionStrings)>>)
=============================================================================
