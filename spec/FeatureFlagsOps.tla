-------------------------- MODULE FeatureFlagsOps --------------------------
(* Property C37 -- variable-free operators.

   Sources: docs/src/format/table/versioning.md (feature flag table, "Readers
   should check reader_feature_flags ... Writers should check
   writer_feature_flags ... return an unsupported error on any read or write
   operation"), docs/src/format/file/versioning.md (version names and
   aliases), rust/lance-table/src/feature_flags.rs, rust/lance-encoding/src/
   version.rs, rust/lance/src/io/commit.rs (check_storage_version).

   A flag word is a set of bit numbers.  Bits 0..NKnown-1 are the bits this
   implementation knows, NKnown..NKnown+NUnknown-1 stand for bits it does not
   know (the driver embeds them at several real positions up to bit 63).     *)
EXTENDS Naturals, Integers, Sequences, FiniteSets, TLC

CONSTANTS NKnown, NUnknown

NBits       == NKnown + NUnknown
KnownBits   == 0 .. (NKnown - 1)
UnknownBits == NKnown .. (NBits - 1)
Words       == SUBSET (0 .. (NBits - 1))

\* names of the known bits (docs table; bit 5 = value 32 is in the code, not yet in the docs table)
DEL == 0      \* FLAG_DELETION_FILES        = 1   reader + writer
STABLE == 1   \* FLAG_STABLE_ROW_IDS        = 2   reader + writer
V2DEP == 2    \* FLAG_USE_V2_FORMAT_DEPRECATED = 4  never required, never written
CONFIG == 3   \* FLAG_TABLE_CONFIG          = 8   writer only
BASE == 4     \* FLAG_BASE_PATHS            = 16  reader + writer
NOTXN == 5    \* FLAG_DISABLE_TRANSACTION_FILE = 32 writer only

Pow2(n) == IF n = 0 THEN 1 ELSE IF n = 1 THEN 2 ELSE IF n = 2 THEN 4 ELSE IF n = 3 THEN 8
           ELSE IF n = 4 THEN 16 ELSE IF n = 5 THEN 32 ELSE IF n = 6 THEN 64 ELSE IF n = 7 THEN 128
           ELSE IF n = 8 THEN 256 ELSE 512
\* decode / encode a word written as a natural number below 2^NBits
Bits(n)  == {b \in 0 .. (NBits - 1) : (n \div Pow2(b)) % 2 = 1}
RECURSIVE WordNum(_)
WordNum(w) == IF w = {} THEN 0 ELSE LET b == CHOOSE x \in w : TRUE IN Pow2(b) + WordNum(w \ {b})

\* ---- compatibility gate -------------------------------------------------------------------
CanRead(w)  == w \cap UnknownBits = {}
CanWrite(w) == w \cap UnknownBits = {}

\* ---- flags implied by the contents of a manifest -----------------------------------------
\* facts: hasDel, stable, config, base, notxn  (booleans)
ImpliedR(hasDel, stable, base) ==
   (IF hasDel THEN {DEL} ELSE {}) \cup (IF stable THEN {STABLE} ELSE {}) \cup (IF base THEN {BASE} ELSE {})
ImpliedW(hasDel, stable, config, base, notxn) ==
   ImpliedR(hasDel, stable, base) \cup (IF config THEN {CONFIG} ELSE {}) \cup (IF notxn THEN {NOTXN} ELSE {})

\* apply_feature_flags(manifest, enable_stable_row_id, disable_transaction_file):
\* frags is a sequence of <<del, rid>> pairs (0/1): has a deletion file / has row id metadata.
\* "If any fragment has row ids, they must all have row ids."
HasDel(frags) == \E i \in 1 .. Len(frags) : frags[i][1] = 1
AnyRid(frags) == \E i \in 1 .. Len(frags) : frags[i][2] = 1
AllRid(frags) == \A i \in 1 .. Len(frags) : frags[i][2] = 1
ApplyOk(frags, enable)     == (AnyRid(frags) \/ enable) => AllRid(frags)
ApplyStable(frags, enable) == AnyRid(frags) \/ enable
ApplyR(frags, enable, base) == ImpliedR(HasDel(frags), ApplyStable(frags, enable), base)
ApplyW(frags, enable, config, base, notxn) ==
   ImpliedW(HasDel(frags), ApplyStable(frags, enable), config, base, notxn)

\* ---- storage versions --------------------------------------------------------------------
\* enum variants of LanceFileVersion; Stable and Next are aliases, the others concrete
Concrete == {"Legacy", "V2_0", "V2_1", "V2_2"}
Aliases  == {"Stable", "Next"}
Variants == Concrete \cup Aliases
\* docs/src/format/file/versioning.md: "stable = alias for the latest stable version (currently 2.0)",
\* "next = alias for the latest unstable version (currently 2.1)", "legacy = alias for 0.1"
Resolve(v) == IF v = "Stable" THEN "V2_0" ELSE IF v = "Next" THEN "V2_1" ELSE v
\* documented names (exact, lower case)
DocNames == [s \in {"0.1", "2.0", "2.1", "legacy", "stable", "next"} |->
               CASE s = "0.1" -> "Legacy" [] s = "2.0" -> "V2_0" [] s = "2.1" -> "V2_1"
                 [] s = "legacy" -> "Legacy" [] s = "stable" -> "Stable" [] s = "next" -> "Next"]
Display(v) == CASE v = "Legacy" -> "0.1" [] v = "V2_0" -> "2.0" [] v = "V2_1" -> "2.1" [] v = "V2_2" -> "2.2"
                [] v = "Stable" -> "stable" [] v = "Next" -> "next" [] OTHER -> "?"
\* (major, minor) numbers found in data files -> concrete version (version.rs; legacy files carry 0.0 .. 0.2,
\* the first v2 files carried 0.3)
NumPairs == {<<0, 0>>, <<0, 1>>, <<0, 2>>, <<0, 3>>, <<2, 0>>, <<2, 1>>, <<2, 2>>}
FromNumbers(p) == CASE p \in {<<0, 0>>, <<0, 1>>, <<0, 2>>} -> "Legacy"
                    [] p \in {<<0, 3>>, <<2, 0>>} -> "V2_0"
                    [] p = <<2, 1>> -> "V2_1" [] p = <<2, 2>> -> "V2_2" [] OTHER -> "invalid"
\* "a table's files all carry the table's storage version": the version inferred from fragments, each given as the
\* sequence of the (major, minor) pairs of its data files (Fragment::try_infer_version; check_storage_version and
\* the manifest decoder rely on it)
FilePairs(frs) == UNION {{frs[i][j] : j \in 1 .. Len(frs[i])} : i \in 1 .. Len(frs)}
InferSem(frs) == LET vs == {FromNumbers(<<p[1], p[2]>>) : p \in FilePairs(frs)} IN
                 IF vs = {} THEN "none"
                 ELSE IF "invalid" \in vs \/ Cardinality(vs) > 1 THEN "error"
                 ELSE CHOOSE v \in vs : TRUE
ToNumbers(v) == LET c == Resolve(v) IN
                CASE c = "Legacy" -> <<0, 2>> [] c = "V2_0" -> <<2, 0>> [] c = "V2_1" -> <<2, 1>>
                  [] c = "V2_2" -> <<2, 2>> [] OTHER -> <<-1, -1>>

\* The strings the driver feeds to LanceFileVersion::from_str: s, its lower-case form, and its reading as
\* "<major>.<minor>" (<<-1,-1>> if it is not of that form).
VerStr(s, lc, mm) == [s |-> s, lc |-> lc, mm |-> mm]
NoMM == <<-1, -1>>
VersionStrings == <<
   VerStr("0.1", "0.1", <<0, 1>>), VerStr("2.0", "2.0", <<2, 0>>), VerStr("2.1", "2.1", <<2, 1>>),
   VerStr("2.2", "2.2", <<2, 2>>), VerStr("0.3", "0.3", <<0, 3>>), VerStr("0.2", "0.2", <<0, 2>>),
   VerStr("0.0", "0.0", <<0, 0>>), VerStr("1.0", "1.0", <<1, 0>>), VerStr("2.3", "2.3", <<2, 3>>),
   VerStr("3.0", "3.0", <<3, 0>>), VerStr("0.4", "0.4", <<0, 4>>), VerStr("2", "2", NoMM), VerStr("", "", NoMM),
   VerStr("stable", "stable", NoMM), VerStr("next", "next", NoMM), VerStr("legacy", "legacy", NoMM),
   VerStr("STABLE", "stable", NoMM), VerStr("Next", "next", NoMM), VerStr("LEGACY", "legacy", NoMM),
   VerStr("latest", "latest", NoMM), VerStr("v2.0", "v2.0", NoMM), VerStr(" 2.0", " 2.0", NoMM),
   VerStr("2.0 ", "2.0 ", NoMM), VerStr("2.0.0", "2.0.0", NoMM), VerStr("02.0", "02.0", NoMM),
   VerStr("2_0", "2_0", NoMM), VerStr("V2_0", "v2_0", NoMM) >>

\* Judgement of one from_str result.  res = variant name or "invalid"; (rmaj, rmin) = to_numbers(res).
ParseOK(x, res, rnum) ==
   IF x.s \in DOMAIN DocNames THEN res = DocNames[x.s]
   ELSE IF x.lc \in DOMAIN DocNames THEN res \in {"invalid", DocNames[x.lc]}     \* case folding is optional
   ELSE IF x.mm = NoMM THEN res = "invalid"
   \* an undocumented numeric name may be accepted only consistently with the number table
   ELSE \/ res = "invalid"
        \/ (x.mm \in NumPairs /\ res = FromNumbers(x.mm))
        \/ (x.mm \notin NumPairs /\ res \notin Aliases /\ rnum = x.mm)

NumStr(n) == ToString(n)
\* Judgement of the conversions of one enum variant v (all recorded in one event).
VariantOK(v, disp, parsed, resolved, num, fromnum, dsf, dsfback) ==
   /\ parsed = v                                    \* from_str(to_string(v)) = v
   /\ resolved \notin Aliases                       \* resolve yields a concrete version ...
   /\ (v \in Variants => resolved = Resolve(v))     \* ... the documented one
   /\ (v \notin Aliases => resolved = v)
   /\ (v \in Variants => disp = Display(v))
   /\ (v \in Variants => num = ToNumbers(v))
   /\ fromnum = resolved                            \* try_from_major_minor(to_numbers(v)) = resolve(v)
   /\ ((v \notin Aliases /\ v # "Legacy") => disp = NumStr(num[1]) \o "." \o NumStr(num[2]))
   /\ dsf \notin {"stable", "next", "legacy"}       \* a manifest never stores an alias
   /\ dsfback = resolved
   /\ (resolved \in Variants => dsf = Display(resolved))

FromNumbersOK(p, res, rnum) ==
   IF p \in NumPairs THEN res = FromNumbers(p)
   ELSE res = "invalid" \/ (res \notin Aliases /\ rnum = p)     \* a future version must round trip

\* ---- the small table model (facts that the flags must reflect) ------------------------------
\* T = [stable, ver, frags, config, base]; a fragment is <<physical rows, live rows>>.
\* Operations are the user-level ones; their effect on the facts is what lance documents:
\* append adds a fragment, delete/update of some rows of a fragment leaves a deletion file, deleting the
\* last live row drops the fragment, update moves the row to a new fragment, compaction merges fragments
\* and materialises deletions, a shallow clone refers to its source through a base path.
CONSTANTS MaxFrags, RowsPerFrag

NewFrag == <<RowsPerFrag, RowsPerFrag>>
InitT(stable, ver) == [stable |-> stable, ver |-> ver, frags |-> <<NewFrag>>, config |-> FALSE, base |-> FALSE]

RemoveAt(s, i) == [j \in 1 .. (Len(s) - 1) |-> IF j < i THEN s[j] ELSE s[j + 1]]
DelOne(frags, i) == IF frags[i][2] = 1 THEN RemoveAt(frags, i)
                    ELSE [frags EXCEPT ![i] = <<@[1], @[2] - 1>>]
RECURSIVE SumLive(_)
SumLive(frags) == IF frags = <<>> THEN 0 ELSE frags[1][2] + SumLive(Tail(frags))
NeedsCompaction(frags) == Len(frags) > 1 \/ (\E i \in 1 .. Len(frags) : frags[i][2] < frags[i][1])
OtherVer(v) == IF v = "V2_0" THEN "V2_1" ELSE "V2_0"

Enabled(op, T) ==
   CASE op[1] = "append" -> Len(T.frags) < MaxFrags
     [] op[1] = "delete" -> op[2] <= Len(T.frags)
     [] op[1] = "update" -> op[2] <= Len(T.frags) /\ (Len(T.frags) < MaxFrags \/ T.frags[op[2]][2] = 1)
     [] op[1] = "compact" -> NeedsCompaction(T.frags)
     [] op[1] = "set_config" -> ~T.config
     [] op[1] = "clear_config" -> T.config
     [] op[1] = "clone" -> ~T.base
     [] op[1] = "overwrite" -> TRUE
     [] OTHER -> FALSE

Effect(op, T) ==
   CASE op[1] = "append" -> [T EXCEPT !.frags = Append(@, NewFrag)]
     [] op[1] = "delete" -> [T EXCEPT !.frags = DelOne(@, op[2])]
     [] op[1] = "update" -> [T EXCEPT !.frags = Append(DelOne(@, op[2]), <<1, 1>>)]
     [] op[1] = "compact" -> [T EXCEPT !.frags = <<<<SumLive(@), SumLive(@)>>>>]
     [] op[1] = "set_config" -> [T EXCEPT !.config = TRUE]
     [] op[1] = "clear_config" -> [T EXCEPT !.config = FALSE]
     [] op[1] = "clone" -> [T EXCEPT !.base = TRUE]
     \* overwrite replaces the data (new files: the table may change its storage version), keeps config
     [] op[1] = "overwrite" -> [T EXCEPT !.frags = <<NewFrag>>,
                                          !.ver = IF op[2] = "switch" THEN OtherVer(@) ELSE @]
     [] OTHER -> T

OpsOf(T) == {<<"append">>, <<"compact">>, <<"set_config">>, <<"clear_config">>, <<"clone">>,
             <<"overwrite", "keep">>, <<"overwrite", "switch">>}
            \cup {<<"delete", i>> : i \in 1 .. MaxFrags} \cup {<<"update", i>> : i \in 1 .. MaxFrags}

THasDel(T) == \E i \in 1 .. Len(T.frags) : T.frags[i][2] < T.frags[i][1]
TImpliedR(T) == ImpliedR(THasDel(T), T.stable, T.base)
TImpliedW(T) == ImpliedW(THasDel(T), T.stable, T.config, T.base, FALSE)

\* ---- the operations whose gate the driver probes on real tables --------------------------------
ReadOps  == {"open", "checkout_version", "refresh"}
WriteOps == {"append", "overwrite", "delete", "update", "merge_insert", "compact", "create_index",
             "optimize_indices", "add_column", "drop_column", "rename_column", "update_config",
             "delete_config", "restore", "commit_append", "commit_detached"}
=============================================================================
