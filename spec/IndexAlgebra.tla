--------------------------- MODULE IndexAlgebra ---------------------------
(* State machine over the operators of IndexAlgebraOps (property C21):
   an index expression / a mask expression is evaluated bottom-up and TLC
   checks that the structural result always denotes the ghost set-algebra
   result (MaskIsSet) and keeps its guarantee tag (GuaranteeKept).          *)
EXTENDS IndexAlgebraOps

(***************************************************************************)
(* State machine: an index expression is evaluated bottom-up.  `res` is    *)
(* the structural result so far, `iv` the ghost interval of possible true  *)
(* answers, `sem` the ghost set for the pure mask algebra.                 *)
(***************************************************************************)
VARIABLES res, iv, msk, sem, depth
vars == <<res, iv, msk, sem, depth>>

LeafTMs == {tm \in TreeMap : \A f \in Frags : tm[f].k # "P" \/ tm[f].s \subseteq Rows}
LeafMask(tm) == [allow |-> Some(tm), block |-> None]
InputMasks == {m \in [allow : {None} \cup {Some(tm) : tm \in LeafTMs},
                      block : {None} \cup {Some(tm) : tm \in LeafTMs}] : TRUE}

CONSTANTS MaxDepth,
          Mode        \* "mask": explore the mask algebra; "expr": explore evaluate()

Init == /\ IF Mode = "expr"
           THEN \E tag \in Tags, tm \in LeafTMs :
                  /\ res = <<tag, LeafMask(tm)>>
                  /\ iv  = LeafIv(tag, Sem(tm))
           ELSE res = <<"Exact", AllRowsMask>> /\ iv = <<U, U>>
        /\ IF Mode = "mask"
           THEN \E m \in InputMasks : msk = m /\ sem = Selected(m)
           ELSE msk = AllRowsMask /\ sem = U
        /\ depth = 0

\* expr mode -------------------------------------------------------------
ENot == /\ res' = RNot(res) /\ iv' = NotIv(iv) /\ UNCHANGED <<msk, sem>>
EAnd == \E tag \in Tags, tm \in LeafTMs, left \in BOOLEAN :
           LET leaf == <<tag, LeafMask(tm)>> IN
           /\ res' = IF left THEN RAnd(leaf, res) ELSE RAnd(res, leaf)
           /\ iv'  = AndIv(iv, LeafIv(tag, Sem(tm)))
           /\ UNCHANGED <<msk, sem>>
EOr  == \E tag \in Tags, tm \in LeafTMs, left \in BOOLEAN :
           LET leaf == <<tag, LeafMask(tm)>> IN
           /\ res' = IF left THEN ROr(leaf, res) ELSE ROr(res, leaf)
           /\ iv'  = OrIv(iv, LeafIv(tag, Sem(tm)))
           /\ UNCHANGED <<msk, sem>>
\* mask mode -------------------------------------------------------------
StepNot == /\ msk' = MNot(msk) /\ sem' = U \ sem /\ UNCHANGED <<res, iv>>
StepAnd == \E m \in InputMasks, left \in BOOLEAN :
           /\ msk' = IF left THEN MAnd(m, msk) ELSE MAnd(msk, m)
           /\ sem' = sem \cap Selected(m)
           /\ UNCHANGED <<res, iv>>
StepOr  == \E m \in InputMasks, left \in BOOLEAN :
           /\ msk' = IF left THEN MOr(m, msk) ELSE MOr(msk, m)
           /\ sem' = sem \cup Selected(m)
           /\ UNCHANGED <<res, iv>>
StepTM  == \E tm \in LeafTMs, which \in {"allow", "block", "norm"} :
           /\ UNCHANGED <<res, iv>>
           /\ msk' = CASE which = "allow" -> AlsoAllow(msk, tm)
                       [] which = "block" -> AlsoBlock(msk, tm)
                       [] OTHER -> Normalize(msk)
           /\ sem' = CASE which = "allow" -> (IF msk.allow.none THEN sem
                                               ELSE sem \cup (Sem(tm) \ (IF msk.block.none THEN {} ELSE Sem(msk.block.tm))))
                       [] which = "block" -> sem \ Sem(tm)
                       [] OTHER -> sem

Next == /\ depth < MaxDepth
        /\ depth' = depth + 1
        /\ IF Mode = "expr" THEN (ENot \/ EAnd \/ EOr)
                           ELSE (StepNot \/ StepAnd \/ StepOr \/ StepTM)
Spec == Init /\ [][Next]_vars

\* C21, mask half: the structure always denotes the set algebra result.
MaskIsSet == Selected(msk) = sem
\* C21, guarantee half.
GuaranteeKept == GuaranteeHolds(res[1], Selected(res[2]), iv)
TypeOK == msk \in Mask /\ res[1] \in Tags /\ res[2] \in Mask
=============================================================================
