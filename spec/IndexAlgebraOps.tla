------------------------- MODULE IndexAlgebraOps -------------------------
(* Row-set masks and index-result combination (property C21).

   Level L3 of the suite: a sequential component with rich case analysis,
   transcribed from rust/lance-core/src/utils/mask.rs (RowIdTreeMap, RowIdMask)
   and rust/lance-index/src/scalar/expression.rs (IndexExprResult /
   ScalarIndexExpr::evaluate).

   Two layers live here:
   (1) the *meaning* of a tree map / mask as a plain set of row addresses
       over a finite probe universe U  (SemTM, Selected) -- this is the oracle
       used by Trace_IndexAlgebra to judge recorded implementation calls;
   (2) a *design-level constructive model* of the data structure (per-fragment
       Absent / Full / Partial(bitmap) entries; allow/block lists that may be
       None) with the operators as the code implements them.  The state
       machine at the bottom lets TLC check that (2) refines (1):
       every reachable structural mask denotes the ghost set computed with
       ordinary set algebra.
   Deviation operators (what the code did before a repair) are kept under
   the constant Deviations so the as-built design can be re-checked.       *)
EXTENDS Naturals, Integers, FiniteSets, Sequences, TLC

CONSTANTS NF,          \* real fragments are 0..NF-1 ; fragment NF is a ghost no list mentions
          NR,          \* explicit row offsets 0..NR-1 ; offset NR stands for "some other row"
          Deviations   \* subset of {"NotSwapsLists", "OrAllRowsKeepsBlock"}

Frags   == 0..(NF-1)
AllFrag == 0..NF
Rows    == 0..(NR-1)
AllRows == 0..NR
U       == AllFrag \X AllRows
Idx(u)  == u[1] * (NR+1) + u[2]
FromBits(b) == {u \in U : (b \div (2^Idx(u))) % 2 = 1}

(***************************************************************************)
(* (1) Integer codes used on the wire, and their meaning                   *)
(***************************************************************************)
B  == 2 + 2^NR                       \* per-fragment codes: 0 absent, 1 full, 2+bits partial
T  == B^NF                           \* number of tree-map codes
TMCodes   == 0..(T-1)
MaskCodes == 0..((T+1)*(T+1)-1)
Digit(code, f) == (code \div (B^f)) % B
RowsOfCode(c) == IF c = 0 THEN {} ELSE IF c = 1 THEN AllRows
                 ELSE {r \in Rows : (((c-2) \div (2^r)) % 2) = 1}
SemTM(code) == {u \in U : u[1] < NF /\ u[2] \in RowsOfCode(Digit(code, u[1]))}
AllowOf(mc) == (mc \div (T+1)) - 1          \* -1 = None
BlockOf(mc) == (mc % (T+1)) - 1
MaskCode(a, b) == (a+1)*(T+1) + (b+1)
SelectedC(mc) == (IF AllowOf(mc) = -1 THEN U ELSE SemTM(AllowOf(mc)))
                  \ (IF BlockOf(mc) = -1 THEN {} ELSE SemTM(BlockOf(mc)))
HasFull(code) == \E f \in Frags : Digit(code, f) = 1
NoEntries(code) == \A f \in Frags : Digit(code, f) = 0

(***************************************************************************)
(* (2) Constructive model of the data structure                            *)
(***************************************************************************)
Absent == [k |-> "A", s |-> {}]
Full   == [k |-> "F", s |-> {}]
Part(s) == [k |-> "P", s |-> s]
Entry  == {Absent, Full} \cup {Part(s) : s \in SUBSET AllRows}
TreeMap == [Frags -> Entry]
EmptyTM == [f \in Frags |-> Absent]

EntryRows(e) == IF e.k = "F" THEN AllRows ELSE IF e.k = "P" THEN e.s ELSE {}
Sem(tm) == {u \in U : u[1] < NF /\ u[2] \in EntryRows(tm[u[1]])}

\* BitOrAssign
OrE(a, b) == IF a.k = "A" THEN b
             ELSE IF a.k = "F" THEN Full
             ELSE IF b.k = "F" THEN Full
             ELSE IF b.k = "A" THEN a ELSE Part(a.s \cup b.s)
TMOr(x, y) == [f \in Frags |-> OrE(x[f], y[f])]
\* BitAndAssign (drops empty partials)
AndE(a, b) == IF a.k = "A" \/ b.k = "A" THEN Absent
              ELSE IF b.k = "F" THEN (IF a.k = "P" /\ a.s = {} THEN Absent ELSE a)
              ELSE IF a.k = "F" THEN (IF b.s = {} THEN Absent ELSE b)
              ELSE IF a.s \cap b.s = {} THEN Absent ELSE Part(a.s \cap b.s)
TMAnd(x, y) == [f \in Frags |-> AndE(x[f], y[f])]
\* SubAssign
SubE(a, b) == IF b.k = "A" \/ a.k = "A" THEN a
              ELSE IF b.k = "F" THEN Absent
              ELSE IF a.k = "F" THEN Part(AllRows \ b.s)
              ELSE IF a.s \ b.s = {} THEN Absent ELSE Part(a.s \ b.s)
TMSub(x, y) == [f \in Frags |-> SubE(x[f], y[f])]
TMIsEmpty(x) == \A f \in Frags : x[f].k = "A"      \* "no entries" (as the code defines it)

None == [none |-> TRUE,  tm |-> EmptyTM]
Some(tm) == [none |-> FALSE, tm |-> tm]
Opt  == {None} \cup {Some(tm) : tm \in TreeMap}
Mask == [allow : Opt, block : Opt]
AllRowsMask == [allow |-> None, block |-> None]
Selected(m) == (IF m.allow.none THEN U ELSE Sem(m.allow.tm))
                \ (IF m.block.none THEN {} ELSE Sem(m.block.tm))

Normalize(m) == IF ~m.allow.none /\ ~m.block.none
                THEN [allow |-> Some(TMSub(m.allow.tm, m.block.tm)), block |-> None]
                ELSE m

\* std::ops::Not -- intended: the complement.  Deviation: the pre-repair code
\* simply swapped the two lists.
MNot(m) ==
  IF "NotSwapsLists" \in Deviations THEN [allow |-> m.block, block |-> m.allow]
  ELSE IF m.allow.none /\ m.block.none THEN [allow |-> Some(EmptyTM), block |-> None]
  ELSE IF m.block.none THEN [allow |-> None, block |-> m.allow]
  ELSE IF m.allow.none THEN [allow |-> m.block, block |-> None]
  ELSE [allow |-> None, block |-> Some(TMSub(m.allow.tm, m.block.tm))]

MAnd(x, y) ==
  [block |-> IF x.block.none THEN y.block ELSE IF y.block.none THEN x.block
             ELSE Some(TMOr(x.block.tm, y.block.tm)),
   allow |-> IF x.allow.none THEN y.allow ELSE IF y.allow.none THEN x.allow
             ELSE Some(TMAnd(x.allow.tm, y.allow.tm))]

MOr(x0, y0) ==
  LET x == Normalize(x0)
      y == Normalize(y0)
      blk == IF ~x.block.none
             THEN (IF y.allow.none /\ y.block.none THEN None
                   ELSE IF y.block.none THEN Some(TMSub(x.block.tm, y.allow.tm))
                   ELSE Some(TMAnd(x.block.tm, y.block.tm)))
             ELSE IF ~y.block.none
             THEN (IF ~x.allow.none THEN Some(TMSub(y.block.tm, x.allow.tm))
                   ELSE IF "OrAllRowsKeepsBlock" \in Deviations THEN y.block
                   ELSE None)   \* x selects all rows
             ELSE None
      alw == IF x.allow.none \/ y.allow.none THEN None
             ELSE Some(TMOr(x.allow.tm, y.allow.tm))
  IN [allow |-> alw, block |-> blk]

AlsoBlock(m, tm)  == IF TMIsEmpty(tm) THEN m
                     ELSE [m EXCEPT !.block = IF m.block.none THEN Some(tm)
                                               ELSE Some(TMOr(m.block.tm, tm))]
AlsoAllow(m, tm)  == IF m.allow.none THEN m
                     ELSE [m EXCEPT !.allow = Some(TMOr(m.allow.tm, tm))]

(***************************************************************************)
(* IndexExprResult: guarantee tags and their combination                   *)
(* A result is <<tag, mask>>; the true answer set R satisfies               *)
(*   Exact: R = Sel   AtMost: R \subseteq Sel   AtLeast: Sel \subseteq R    *)
(* For a read-once expression tree over independent leaves the set of       *)
(* possible true answers is exactly the interval [lo, hi] computed below.   *)
(***************************************************************************)
Tags == {"Exact", "AtMost", "AtLeast"}
LeafIv(tag, S) == IF tag = "Exact" THEN <<S, S>>
                  ELSE IF tag = "AtMost" THEN <<{}, S>> ELSE <<S, U>>
NotIv(iv)     == <<U \ iv[2], U \ iv[1]>>
AndIv(a, b)   == <<a[1] \cap b[1], a[2] \cap b[2]>>
OrIv(a, b)    == <<a[1] \cup b[1], a[2] \cup b[2]>>
GuaranteeHolds(tag, S, iv) ==
    CASE tag = "Exact"   -> iv[1] = S /\ iv[2] = S
      [] tag = "AtMost"  -> iv[2] \subseteq S
      [] tag = "AtLeast" -> S \subseteq iv[1]

\* evaluate(), as in expression.rs
RNot(r) == <<IF r[1] = "Exact" THEN "Exact" ELSE IF r[1] = "AtMost" THEN "AtLeast" ELSE "AtMost",
             MNot(r[2])>>
RAnd(a, b) ==
   CASE a[1] = "Exact"   /\ b[1] = "Exact"   -> <<"Exact",  MAnd(a[2], b[2])>>
     [] a[1] = "Exact"   /\ b[1] = "AtMost"  -> <<"AtMost", MAnd(a[2], b[2])>>
     [] a[1] = "AtMost"  /\ b[1] = "Exact"   -> <<"AtMost", MAnd(a[2], b[2])>>
     [] a[1] = "Exact"   /\ b[1] = "AtLeast" -> <<"AtMost", a[2]>>
     [] a[1] = "AtLeast" /\ b[1] = "Exact"   -> <<"AtMost", b[2]>>
     [] a[1] = "AtMost"  /\ b[1] = "AtMost"  -> <<"AtMost", MAnd(a[2], b[2])>>
     [] a[1] = "AtLeast" /\ b[1] = "AtLeast" -> <<"AtLeast", MAnd(a[2], b[2])>>
     [] a[1] = "AtLeast" /\ b[1] = "AtMost"  -> <<"AtMost", b[2]>>
     [] a[1] = "AtMost"  /\ b[1] = "AtLeast" -> <<"AtMost", a[2]>>
ROr(a, b) ==
   CASE a[1] = "Exact"   /\ b[1] = "Exact"   -> <<"Exact",  MOr(a[2], b[2])>>
     [] a[1] = "Exact"   /\ b[1] = "AtMost"  -> <<"AtMost", MOr(a[2], b[2])>>
     [] a[1] = "AtMost"  /\ b[1] = "Exact"   -> <<"AtMost", MOr(a[2], b[2])>>
     [] a[1] = "Exact"   /\ b[1] = "AtLeast" -> <<"AtLeast", MOr(a[2], b[2])>>
     [] a[1] = "AtLeast" /\ b[1] = "Exact"   -> <<"AtLeast", MOr(a[2], b[2])>>
     [] a[1] = "AtMost"  /\ b[1] = "AtMost"  -> <<"AtMost", MOr(a[2], b[2])>>
     [] a[1] = "AtLeast" /\ b[1] = "AtLeast" -> <<"AtLeast", MOr(a[2], b[2])>>
     [] a[1] = "AtLeast" /\ b[1] = "AtMost"  -> <<"AtLeast", a[2]>>
     [] a[1] = "AtMost"  /\ b[1] = "AtLeast" -> <<"AtLeast", b[2]>>
=============================================================================
