------------------------------- MODULE IoSched -------------------------------
(* Property C30 "The I/O scheduler returns exactly the requested bytes and
   always completes".

   Mode = "ops"   : the pure half.  One state per case of the finite universe
                    of range lists; TLC checks the theorems of IoSchedOps.
   Mode = "queue" : the concurrent half: the queue machine of
                    rust/lance-io/src/scheduler.rs (IoQueueState / IoQueue /
                    ScanScheduler::submit_request / Drop for ScanScheduler).

   Queue machine, as read from the code
     * a request r has a priority and n I/O operations ("iops") of given byte
       sizes; submitting pushes n IoTasks of that priority into a min-heap;
     * IoQueue::pop peeks the heap top (lowest priority value; ties: whatever
       the BinaryHeap has on top) and takes it iff can_deliver:
           iops_avail > 0 /\ (prio <= min_in_flight \/ bytes <= bytes_avail)
       then iops_avail -= 1, bytes_avail -= bytes (may go negative), the
       priority is added to priorities_in_flight;
     * when the read of an iop finishes: iops_avail += 1; when all iops of a
       request are finished (or cancelled) the response is sent;
     * the bytes go back to the budget and the priorities leave
       priorities_in_flight only when the *request future* yields the
       response (on_bytes_consumed): that is the action Consume;
     * dropping the ScanScheduler (possible only when no FileScheduler handle
       is left, hence no later Submit) closes the queue: every pending iop is
       cancelled (its request fails once its in-flight iops finished).
     * a zero-length range is an iop of 0 bytes: it goes through the heap, an
       iops slot and priorities_in_flight like any other (and its request
       must complete and release its priority when consumed), but IoTask::run
       answers it without calling the store;
   The process-wide IOPS quota (128 by default) is not modelled: the bounds
   here never reach it.                                                      *)
EXTENDS IoSchedOps, TLC, Json

CONSTANTS Mode,
          \* --- queue mode ---
          Capacities,     \* values of io_parallelism of the store (= initial iops_avail) to explore
          Budgets,        \* values of SchedulerConfig.io_buffer_size_bytes to explore
          ReqCodes,       \* set of integers id*10000 + prio*1000 + s1*100 + s2*10 + s3 (size digits: 0 = absent, 1..8 = bytes, 9 = a zero-length range)
          AllowClose,     \* may the scheduler be dropped
          AllowAbandon,   \* may a consumer drop a request future (environment outside the property)
          OrderedSubmit,  \* requests are submitted in id order (scenario generation)
          Record,         \* keep the history of environment steps (scenario generation)
          \* --- ops mode ---
          MaxRanges, ListClass, Blocks, MaxIops, Chunks

VARIABLES cap, bud,     \* the configuration of this run (chosen initially, never changed)
          rstate, istate, flight, iopsAvail, bytesAvail, prios, closed, bypass, hist, case
qvars == <<rstate, istate, flight, iopsAvail, bytesAvail, prios, closed, bypass>>
vars  == <<cap, bud, rstate, istate, flight, iopsAvail, bytesAvail, prios, closed, bypass, hist, case>>

(***************************************************************************)
(* Requests                                                                 *)
(***************************************************************************)
ReqIds == {c \div 10000 : c \in ReqCodes}
CodeOf(r) == CHOOSE c \in ReqCodes : c \div 10000 = r
Prio(r) == (CodeOf(r) \div 1000) % 10
Sizes(r) == LET c == CodeOf(r)
                a == (c \div 100) % 10
                b == (c \div 10) % 10
                d == c % 10
                z(x) == IF x = 9 THEN 0 ELSE x      \* digit 9 encodes an iop of 0 bytes
            IN IF b = 0 THEN <<z(a)>> ELSE IF d = 0 THEN <<z(a), z(b)>> ELSE <<z(a), z(b), z(d)>>
NIops(r) == Len(Sizes(r))
Iops == {i \in ReqIds \X (1..3) : i[2] <= NIops(i[1])}
Size(i) == Sizes(i[1])[i[2]]
IopsOf(r) == {i \in Iops : i[1] = r}
RECURSIVE SumSeq(_)
SumSeq(s) == IF s = <<>> THEN 0 ELSE s[1] + SumSeq(Tail(s))
ReqBytes(r) == SumSeq(Sizes(r))
RECURSIVE SumSizes(_)
SumSizes(S) == IF S = {} THEN 0 ELSE LET i == CHOOSE x \in S : TRUE IN Size(i) + SumSizes(S \ {i})
PrioVals == 0..9
NoPrio == 1000        \* u128::MAX

\* the byte range read by iop k of request r in the conformance driver (vh_iosched.rs)
IopRange(i) == LET b == ((i[1] - 1) * 3 + (i[2] - 1)) * 10 IN <<b, b + Size(i)>>

Terminal == {"done", "cancelled"}
PendingIops == {i \in Iops : istate[i] = "pending"}
PendingPrios == {Prio(i[1]) : i \in PendingIops}
MinPendingPrio == CHOOSE p \in PendingPrios : \A q \in PendingPrios : q >= p
\* the tasks that may be on top of the heap
Candidates == IF PendingIops = {} THEN {} ELSE {i \in PendingIops : Prio(i[1]) = MinPendingPrio}
MinInFlight == IF \A p \in PrioVals : prios[p] = 0 THEN NoPrio
               ELSE CHOOSE p \in PrioVals : prios[p] > 0 /\ \A q \in PrioVals : prios[q] > 0 => q >= p
CanDeliver(i) == /\ iopsAvail > 0
                 /\ (Prio(i[1]) <= MinInFlight \/ Size(i) <= bytesAvail)
\* whatever the heap has on top can be delivered
StrictEnabled == Candidates # {} /\ \A i \in Candidates : CanDeliver(i)
\* iops taken from the queue whose bytes have not been given back yet
Outstanding == {i \in Iops : istate[i] \in {"flight", "done"} /\ rstate[i[1]] # "resolved"}
AllTerminalExcept(ist, r, i) == \A j \in IopsOf(r) : j = i \/ ist[j] \in Terminal

Log(step) == hist' = IF Record THEN Append(hist, step) ELSE hist
IndexIn(s, x) == CHOOSE j \in 1..Len(s) : s[j] = x
Remove(s, x) == SelectSeq(s, LAMBDA y : y # x)

(***************************************************************************)
(* Actions (guard and effect are separate so that Trace_IoSched can judge   *)
(* an implementation step that is not enabled)                               *)
(***************************************************************************)
SubmitGuard(r) == /\ ~closed /\ rstate[r] = "new"
                  /\ OrderedSubmit => \A q \in ReqIds : q < r => rstate[q] # "new"
SubmitEffect(r) == /\ rstate' = [rstate EXCEPT ![r] = "waiting"]
                   /\ istate' = [i \in Iops |-> IF i[1] = r THEN "pending" ELSE istate[i]]
                   /\ UNCHANGED <<flight, iopsAvail, bytesAvail, prios, closed, bypass>>
Submit(r) == SubmitGuard(r) /\ SubmitEffect(r) /\ Log(<<"S", r>>)

PopGuard(i) == i \in Candidates /\ CanDeliver(i)
PopEffect(i) == /\ istate' = [istate EXCEPT ![i] = "flight"]
                /\ flight' = Append(flight, i)
                /\ iopsAvail' = iopsAvail - 1
                /\ bytesAvail' = bytesAvail - Size(i)
                /\ prios' = [prios EXCEPT ![Prio(i[1])] = @ + 1]
                /\ bypass' = IF Size(i) > bytesAvail THEN bypass \cup {i} ELSE bypass
                /\ UNCHANGED <<rstate, closed>>
Pop(i) == PopGuard(i) /\ PopEffect(i) /\ UNCHANGED hist

CompleteGuard(i) == istate[i] = "flight"
CompleteEffect(i) ==
  /\ istate' = [istate EXCEPT ![i] = "done"]
  /\ flight' = Remove(flight, i)
  /\ iopsAvail' = iopsAvail + 1
  /\ rstate' = IF rstate[i[1]] = "waiting" /\ AllTerminalExcept(istate, i[1], i)
               THEN [rstate EXCEPT ![i[1]] = "ready"] ELSE rstate
  /\ UNCHANGED <<bytesAvail, prios, closed, bypass>>
Complete(i) == CompleteGuard(i) /\ CompleteEffect(i) /\ Log(<<"C", IndexIn(flight, i)>>)

\* the request future yields the response: on_bytes_consumed(num_bytes, priority, num_reqs);
\* num_bytes counts cancelled iops too, remove() of an absent priority is a no-op
ConsumeGuard(r) == rstate[r] = "ready"
ConsumeEffect(r) ==
  /\ rstate' = [rstate EXCEPT ![r] = "resolved"]
  /\ bytesAvail' = bytesAvail + ReqBytes(r)
  /\ prios' = [prios EXCEPT ![Prio(r)] = IF @ >= NIops(r) THEN @ - NIops(r) ELSE 0]
  /\ bypass' = bypass \ IopsOf(r)
  /\ UNCHANGED <<istate, flight, iopsAvail, closed>>
Consume(r) == ConsumeGuard(r) /\ ConsumeEffect(r) /\ Log(<<"U", r>>)
Outcome(r) == IF \A i \in IopsOf(r) : istate[i] = "done" THEN "ok" ELSE "err"

\* Drop for ScanScheduler -> IoQueue::close: every pending task is cancelled, which runs its
\* when_done(Err): on_iop_complete (iops_avail += 1) and deliver_data
CloseGuard == ~closed
CloseEffect ==
  LET ist == [i \in Iops |-> IF istate[i] = "pending" THEN "cancelled" ELSE istate[i]]
  IN /\ closed' = TRUE
     /\ istate' = ist
     /\ iopsAvail' = iopsAvail + Cardinality(PendingIops)
     /\ rstate' = [r \in ReqIds |-> IF rstate[r] = "waiting" /\ \A j \in IopsOf(r) : ist[j] \in Terminal
                                    THEN "ready" ELSE rstate[r]]
     /\ UNCHANGED <<flight, bytesAvail, prios, bypass>>
Close == AllowClose /\ CloseGuard /\ CloseEffect /\ Log(<<"X">>)

\* environment outside the property: the consumer drops the request future; the response (if
\* any) is discarded and on_bytes_consumed never runs
AbandonGuard(r) == rstate[r] \in {"waiting", "ready"}
AbandonEffect(r) == /\ rstate' = [rstate EXCEPT ![r] = "abandoned"]
                    /\ UNCHANGED <<istate, flight, iopsAvail, bytesAvail, prios, closed, bypass>>
Abandon(r) == AllowAbandon /\ AbandonGuard(r) /\ AbandonEffect(r) /\ Log(<<"A", r>>)

Finished == /\ \A r \in ReqIds : rstate[r] \in {"new", "resolved", "abandoned"}
            /\ closed \/ \A r \in ReqIds : rstate[r] # "new"
            /\ flight = <<>> /\ PendingIops = {}
Terminated == Finished /\ UNCHANGED vars

QInit == /\ IF Mode = "queue" THEN cap \in Capacities /\ bud \in Budgets ELSE cap = 1 /\ bud = 1
         /\ rstate = [r \in ReqIds |-> "new"]
         /\ istate = [i \in Iops |-> "none"]
         /\ flight = <<>>
         /\ iopsAvail = cap
         /\ bytesAvail = bud
         /\ prios = [p \in PrioVals |-> 0]
         /\ closed = FALSE
         /\ bypass = {}

Q(A) == Mode = "queue" /\ UNCHANGED <<case, cap, bud>> /\ A
DoSubmit   == Mode = "queue" /\ UNCHANGED <<case, cap, bud>> /\ (\E r \in ReqIds : Submit(r))
DoPop      == Mode = "queue" /\ UNCHANGED <<case, cap, bud>> /\ (\E i \in Iops : Pop(i))
DoComplete == Mode = "queue" /\ UNCHANGED <<case, cap, bud>> /\ (\E i \in Iops : Complete(i))
DoConsume  == Mode = "queue" /\ UNCHANGED <<case, cap, bud>> /\ (\E r \in ReqIds : Consume(r))
DoClose    == Mode = "queue" /\ UNCHANGED <<case, cap, bud>> /\ (Close)
DoAbandon  == Mode = "queue" /\ UNCHANGED <<case, cap, bud>> /\ (\E r \in ReqIds : Abandon(r))
DoTerminated == Mode = "queue" /\ UNCHANGED <<case, cap, bud>> /\ (Terminated)
External == DoSubmit \/ DoComplete \/ DoConsume \/ DoClose \/ DoAbandon
\* An iop of zero bytes (a zero-length range) is an IoTask like any other: it waits in the heap, takes
\* an iops slot and its priority enters priorities_in_flight until the request is consumed; but
\* IoTask::run answers it at once without calling the object store.  For an outside observer its
\* Pop and its Complete are therefore invisible.
SilentGuard(i) == Size(i) = 0 /\ PopGuard(i)
\* Pop(i) followed at once by Complete(i), as one step (used by Trace_IoSched)
SilentEffect(i) ==
  /\ istate' = [istate EXCEPT ![i] = "done"]
  /\ prios' = [prios EXCEPT ![Prio(i[1])] = @ + 1]
  /\ bypass' = IF 0 > bytesAvail THEN bypass \cup {i} ELSE bypass
  /\ rstate' = IF rstate[i[1]] = "waiting" /\ AllTerminalExcept(istate, i[1], i)
               THEN [rstate EXCEPT ![i[1]] = "ready"] ELSE rstate
  /\ UNCHANGED <<flight, iopsAvail, bytesAvail, closed>>
DoSilentComplete == Mode = "queue" /\ UNCHANGED <<case, cap, bud, hist>> /\
                    (\E i \in Iops : Size(i) = 0 /\ CompleteGuard(i) /\ CompleteEffect(i))
\* the implementation pops as soon as it can and answers zero-byte iops by itself: used to generate
\* schedules (only the environment's steps are logged)
EagerNext == IF \E i \in Iops : PopGuard(i) THEN DoPop
             ELSE IF \E i \in Iops : Size(i) = 0 /\ CompleteGuard(i) THEN DoSilentComplete
             ELSE External

(***************************************************************************)
(* ops mode: the universe of cases                                          *)
(***************************************************************************)
\* The universe is explored as a tree: a state is one case <<api, ranges, block, maxIop, chunk>>,
\* a step appends one range (so TLC's workers share the enumeration).
Ranges == {r \in (0..FileLen) \X (0..FileLen) : r[1] <= r[2]}
InClass(rs) == CASE ListClass = "sorted" -> SortedByStart(rs)
                 [] ListClass = "unsorted" -> ~SortedByStart(rs)
                 [] OTHER -> TRUE
Apis == {<<"file", 0>>} \cup {<<"enc", c>> : c \in Chunks}
Cases0 == {<<a[1], <<>>, b, m, a[2]>> : a \in Apis, b \in Blocks, m \in MaxIops}
OpsNext == /\ Len(case[2]) < MaxRanges
           /\ \E r \in Ranges :
                /\ IF ListClass = "sorted" /\ case[2] # <<>> THEN case[2][Len(case[2])][1] <= r[1] ELSE TRUE
                /\ case' = [case EXCEPT ![2] = Append(@, r)]
           /\ UNCHANGED <<cap, bud, rstate, istate, flight, iopsAvail, bytesAvail, prios, closed, bypass, hist>>

AsBuilt == "AsBuilt" \in Deviations
CaseResult(c) == SubmitApi(c[1], c[2], c[3], c[4], c[5], AsBuilt)
CaseClass(c) == Class(c[1], c[2], c[3], c[4], c[5])
\* THE THEOREM: one buffer per requested range, in order, holding the file's bytes
OpsTheorem == (Mode = "ops" /\ InClass(case[2])) => CaseResult(case) = <<"ok", Expected(case[2])>>
OpsReadsWellFormed == (Mode = "ops" /\ InClass(case[2])) =>
   ReadsWellFormed(FileRanges(case[1], case[2], case[5]), case[3], case[4], AsBuilt)
\* what the as-built variant gets wrong is confined to the named classes
AsBuiltFailsOnlyInNamedClasses ==
   (Mode = "ops" /\ InClass(case[2])) => (CaseClass(case) = "plain" => SubmitApi(case[1], case[2], case[3], case[4], case[5], TRUE)
                                                  = <<"ok", Expected(case[2])>>)

Init == /\ hist = <<>>
        /\ QInit
        /\ IF Mode = "ops" THEN case \in Cases0 ELSE case = <<>>
DoOps == Mode = "ops" /\ OpsNext
Next == DoOps \/ DoSubmit \/ DoPop \/ DoComplete \/ DoConsume \/ DoClose \/ DoAbandon \/ DoTerminated
\* fairness: the I/O loop runs (it is only *obliged* to pop when whatever is on top of the heap
\* is deliverable), every issued read eventually finishes, every consumer eventually polls
Fairness == /\ WF_vars(StrictEnabled /\ DoPop)
            /\ \A i \in Iops : WF_vars(Q(Complete(i)))
            /\ \A r \in ReqIds : WF_vars(Q(Consume(r)))
Spec == Init /\ [][Next]_vars /\ Fairness
GenSpec == Init /\ [][EagerNext]_vars

(***************************************************************************)
(* Invariants of the queue machine                                          *)
(***************************************************************************)
TypeOK == /\ rstate \in [ReqIds -> {"new", "waiting", "ready", "resolved", "abandoned"}]
          /\ istate \in [Iops -> {"none", "pending", "flight", "done", "cancelled"}]
          /\ iopsAvail \in Nat /\ bytesAvail \in Int /\ closed \in BOOLEAN
          /\ bypass \subseteq Iops
Cancelled == {i \in Iops : istate[i] = "cancelled"}
\* never more reads in flight than the I/O capacity, and the counter is exact
NoOverIssue == /\ Len(flight) <= cap
               /\ iopsAvail = cap - Len(flight) + Cardinality(Cancelled)
\* every iop is issued at most once, every request resolves at most once, and only when
\* all of its iops are finished
EachRequestOnce ==
  /\ \A a, b \in 1..Len(flight) : a # b => flight[a] # flight[b]
  /\ {flight[a] : a \in 1..Len(flight)} = {i \in Iops : istate[i] = "flight"}
  /\ \A r \in ReqIds :
       /\ rstate[r] = "new" <=> \A i \in IopsOf(r) : istate[i] = "none"
       /\ rstate[r] \in {"ready", "resolved"} => \A i \in IopsOf(r) : istate[i] \in Terminal
       /\ rstate[r] = "waiting" => \E i \in IopsOf(r) : istate[i] \notin Terminal
\* the byte counter is exact: budget minus what was taken and not yet given back
Accounting == bytesAvail = bud - SumSizes(Outstanding)
                           + SumSizes({i \in Cancelled : rstate[i[1]] = "resolved"})
PrioBag == ~closed => \A p \in PrioVals : prios[p] = Cardinality({i \in Outstanding : Prio(i[1]) = p})
\* the budget is exceeded only through the documented priority bypass: the reads admitted
\* on the normal path never hold more than the budget, and a negative counter implies a
\* bypass-admitted read is still outstanding
BudgetRespectedExceptBypass ==
  /\ bypass \subseteq Outstanding
  /\ ~closed => SumSizes(Outstanding \ bypass) <= bud
  /\ (~closed /\ bytesAvail < 0) => bypass # {}
CloseCancelsPending == /\ closed => PendingIops = {}
                       /\ ~closed => Cancelled = {}
                       /\ \A r \in ReqIds : rstate[r] = "resolved" /\ Outcome(r) = "err" => closed
\* no deadlock: requests pending, nothing in flight, nothing deliverable, nothing to consume
Stuck == /\ PendingIops # {} /\ flight = <<>> /\ ~StrictEnabled
         /\ \A r \in ReqIds : rstate[r] # "ready"
NoStuck == ~Stuck
\* liveness: submitted ~> completed or cancelled (resolved with Ok or with Err)
Live == \A r \in ReqIds : (rstate[r] = "waiting") ~> (rstate[r] = "resolved")

\* scenario generation: print the environment steps of every complete run
GenPrint == (Mode = "queue" /\ Record /\ Finished) =>
              PrintT(<<"SCN", ToJson([cap |-> cap, budget |-> bud, steps |-> hist])>>)
=============================================================================
