----------------------------- MODULE IoSchedOps -----------------------------
(* Property C30, pure half: what FileScheduler::submit_request
   (rust/lance-io/src/scheduler.rs) and LanceEncodingsIo::submit_request
   (rust/lance-file/src/io.rs) compute for a list of byte ranges.

   MEANING (the oracle).  For a request `rs` (a sequence of ranges <<s, e>>,
   0 <= s <= e <= FileLen) the response is one buffer per range, in request
   order, holding the file's bytes of that range: Expected(rs).  Buffers are
   modelled as sequences of file *positions*; the file holds Byte(p) at p.
   The EncodingsIo trait documents: "The response must contain a Bytes object
   for each range requested even if the underlying I/O was coalesced" and
   "should return an empty byte buffer for each empty range".

   DESIGN-LEVEL MODEL (transcribed from the code): coalesce ranges that are
   within `block` bytes, split intervals larger than `maxIop`, read the
   pieces, undo both.  Two variants are given:
     * intended (asBuilt = FALSE): the coalesced interval also grows to the
       left, the response is assembled per requested byte from the piece that
       holds it.  TLC checks  Submit*(..., FALSE) = <<"ok", Expected(rs)>>  for
       every range list of the universe (IoSched.tla, Mode = "ops").
     * as built (asBuilt = TRUE): a literal transcription of the two-cursor
       loop of the code, including its panics (usize underflow, index out of
       bounds).  It violates the theorem exactly on the classes named by
       Class(): empty ranges, overlapping ranges whose coalesced interval is
       split, lists not sorted by start.                                       *)
EXTENDS Integers, Sequences, FiniteSets

CONSTANTS FileLen,      \* length of the file in bytes
          Deviations    \* subset of {"AsBuilt"}: which variant the theorems are checked on

Byte(p) == (p * 7 + 3) % 256
Max(a, b) == IF a >= b THEN a ELSE b
Min(a, b) == IF a <= b THEN a ELSE b
RLen(r) == r[2] - r[1]
IsEmpty(r) == r[1] = r[2]

\* file positions s .. e-1 as a sequence
PosSeq(s, e) == [k \in 1..(e - s) |-> s + k - 1]
Positions(r) == PosSeq(r[1], r[2])
Expected(rs) == [i \in 1..Len(rs) |-> Positions(rs[i])]
BytesOf(buf) == [k \in 1..Len(buf) |-> Byte(buf[k])]

RECURSIVE Flatten(_)
Flatten(ss) == IF ss = <<>> THEN <<>> ELSE ss[1] \o Flatten(Tail(ss))

(***************************************************************************)
(* Coalesce: scheduler.rs, first loop of FileScheduler::submit_request.     *)
(*   is_close_together(r1, r2, block) == r2.start <= r1.end + block         *)
(* As built the current interval only ever grows to the right.              *)
(***************************************************************************)
RECURSIVE CoalesceRec(_, _, _, _, _, _)
CoalesceRec(rs, i, cur, acc, block, asBuilt) ==
  IF i > Len(rs) THEN Append(acc, cur)
  ELSE IF rs[i][1] <= cur[2] + block
       THEN CoalesceRec(rs, i + 1,
                        <<IF asBuilt THEN cur[1] ELSE Min(cur[1], rs[i][1]), Max(cur[2], rs[i][2])>>,
                        acc, block, asBuilt)
       ELSE CoalesceRec(rs, i + 1, rs[i], Append(acc, cur), block, asBuilt)
Coalesce(rs, block, asBuilt) ==
  IF rs = <<>> THEN <<>> ELSE CoalesceRec(rs, 2, rs[1], <<>>, block, asBuilt)

(***************************************************************************)
(* Split: second loop.  An empty interval is kept as one (empty) read, a    *)
(* non-empty one becomes ceil(len / maxIop) reads of floor(len / n) bytes,  *)
(* the last one taking the remainder.                                        *)
(***************************************************************************)
SplitOne(r, maxIop) ==
  IF IsEmpty(r) THEN <<r>>
  ELSE LET len == RLen(r)
           n   == (len + maxIop - 1) \div maxIop
           bpr == len \div n
       IN [i \in 1..n |-> <<r[1] + (i - 1) * bpr, IF i = n THEN r[2] ELSE r[1] + i * bpr>>]
Split(merged, maxIop) == Flatten([j \in 1..Len(merged) |-> SplitOne(merged[j], maxIop)])

Overlap(u, o) == u[1] < o[2] /\ o[1] < u[2]       \* is_overlapping

(***************************************************************************)
(* Un-coalesce as built: two cursors (updated_index, orig_index).           *)
(* Result: <<"ok", buffers>> or <<"panic", <<>>>>.                          *)
(***************************************************************************)
RECURSIVE Gather(_, _, _, _)
\* inner `while copy_offset < orig_size` loop; returns <<status, updated_index, buffer>>
Gather(upd, ui, buf, size) ==
  IF Len(buf) >= size THEN <<"ok", ui, buf>>
  ELSE IF ui + 1 > Len(upd) THEN <<"panic", ui, buf>>          \* updated_requests[updated_index] out of bounds
  ELSE LET nx   == upd[ui + 1]
           take == Min(size - Len(buf), RLen(nx))
       IN Gather(upd, ui + 1, buf \o PosSeq(nx[1], nx[1] + take), size)

RECURSIVE UncoalesceAsBuilt(_, _, _, _, _)
UncoalesceAsBuilt(upd, req, ui, oi, out) ==
  IF ui > Len(upd) \/ oi > Len(req) THEN <<"ok", out>>
  ELSE LET u == upd[ui]
           o == req[oi]
       IN IF ~Overlap(u, o) THEN UncoalesceAsBuilt(upd, req, ui + 1, oi, out)
          ELSE IF o[1] < u[1] THEN <<"panic", <<>>>>           \* orig_range.start - byte_offset underflows
          ELSE IF o[2] <= u[2] THEN UncoalesceAsBuilt(upd, req, ui, oi + 1, Append(out, Positions(o)))
          ELSE LET g == Gather(upd, ui, PosSeq(o[1], u[2]), RLen(o))
               IN IF g[1] = "panic" THEN <<"panic", <<>>>>
                  ELSE UncoalesceAsBuilt(upd, req, g[2], oi + 1, Append(out, g[3]))

(***************************************************************************)
(* Un-coalesce as intended: every requested byte is taken from the piece    *)
(* that holds it (-1 = no piece holds it: the coalesced reads do not cover  *)
(* the request).                                                             *)
(***************************************************************************)
Covered(upd, p) == \E j \in 1..Len(upd) : upd[j][1] <= p /\ p < upd[j][2]
UncoalesceIntended(upd, req) ==
  [i \in 1..Len(req) |-> [k \in 1..RLen(req[i]) |-> IF Covered(upd, req[i][1] + k - 1)
                                                     THEN req[i][1] + k - 1 ELSE -1]]

\* The reads issued for a request, and the whole FileScheduler::submit_request
Reads(rs, block, maxIop, asBuilt) == Split(Coalesce(rs, block, asBuilt), maxIop)
SubmitFile(rs, block, maxIop, asBuilt) ==
  LET upd == Reads(rs, block, maxIop, asBuilt)
  IN IF asBuilt THEN UncoalesceAsBuilt(upd, rs, 1, 1, <<>>)
     ELSE <<"ok", UncoalesceIntended(upd, rs)>>

(***************************************************************************)
(* LanceEncodingsIo::submit_request: ranges larger than read_chunk_size are *)
(* cut into ceil(len / chunk) chunks, submitted to the FileScheduler and    *)
(* re-assembled.  `sp` is the sequence of <<chunk range, original index>>.  *)
(***************************************************************************)
ChunkOne(r, idx, chunk) ==
  IF RLen(r) > chunk
  THEN LET len == RLen(r)
           n   == (len + chunk - 1) \div chunk
           cs  == len \div n
       IN [i \in 1..n |-> <<<<r[1] + (i - 1) * cs, IF i = n THEN r[2] ELSE r[1] + i * cs>>, idx>>]
  ELSE << <<r, idx>> >>
Chunked(rs, chunk) == Flatten([i \in 1..Len(rs) |-> ChunkOne(rs[i], i, chunk)])

RECURSIVE ConcatFor(_, _, _, _)
\* concatenation, in order, of the inner buffers j <= n whose chunk belongs to original range i
ConcatFor(inner, sp, i, j) ==
  IF j > Min(Len(inner), Len(sp)) THEN <<>>
  ELSE (IF sp[j][2] = i THEN inner[j] ELSE <<>>) \o ConcatFor(inner, sp, i, j + 1)

SubmitEnc(rs, block, maxIop, chunk, asBuilt) ==
  LET sp    == Chunked(rs, chunk)
      inner == SubmitFile([j \in 1..Len(sp) |-> sp[j][1]], block, maxIop, asBuilt)
  IN IF inner[1] # "ok" THEN inner
     ELSE IF asBuilt /\ Len(inner[2]) = Len(rs) THEN inner             \* "fast path" of the code
     ELSE <<"ok", [i \in 1..Len(rs) |-> ConcatFor(inner[2], sp, i, 1)]>>

DefaultChunk == 8388608     \* DEFAULT_READ_CHUNK_SIZE; the driver logs it as 0
SubmitApi(api, rs, block, maxIop, chunk, asBuilt) ==
  IF api = "file" THEN SubmitFile(rs, block, maxIop, asBuilt)
  ELSE SubmitEnc(rs, block, maxIop, IF chunk = 0 THEN DefaultChunk ELSE chunk, asBuilt)

(***************************************************************************)
(* Case classes (finding signatures).  "unsorted" is outside the contract   *)
(* set (every in-tree caller passes ranges sorted by start, the API does    *)
(* not say so) and is reported separately.                                   *)
(***************************************************************************)
SortedByStart(rs) == \A i \in 1..(Len(rs) - 1) : rs[i][1] <= rs[i + 1][1]
HasEmpty(rs) == \E i \in 1..Len(rs) : IsEmpty(rs[i])
HasOverlap(rs) == \E i \in 1..Len(rs) : \E j \in (i + 1)..Len(rs) : Overlap(rs[i], rs[j])
\* the ranges the FileScheduler sees
FileRanges(api, rs, chunk) ==
  IF api = "file" THEN rs
  ELSE LET sp == Chunked(rs, IF chunk = 0 THEN DefaultChunk ELSE chunk) IN [j \in 1..Len(sp) |-> sp[j][1]]
\* some coalesced interval is longer than maxIop, i.e. it is read in several pieces
WasSplit(frs, block, maxIop) == LET m == Coalesce(frs, block, TRUE) IN \E j \in 1..Len(m) : RLen(m[j]) > maxIop
Class(api, rs, block, maxIop, chunk) ==
  LET frs == FileRanges(api, rs, chunk)
      os  == HasOverlap(frs) /\ WasSplit(frs, block, maxIop)
  IN IF ~SortedByStart(rs) THEN "unsorted"
     ELSE IF HasEmpty(rs) THEN (IF os THEN "empty+overlap-split" ELSE "empty")
     ELSE IF os THEN "overlap-split"
     ELSE "plain"

(***************************************************************************)
(* Lemmas about the reads themselves (checked by TLC in "ops" mode)         *)
(***************************************************************************)
\* reads stay inside the file and inside the hull of the request; a split produces no empty read
ReadsWellFormed(rs, block, maxIop, asBuilt) ==
  LET m   == Coalesce(rs, block, asBuilt)
      upd == Split(m, maxIop)
  IN /\ \A j \in 1..Len(upd) : 0 <= upd[j][1] /\ upd[j][1] <= upd[j][2] /\ upd[j][2] <= FileLen
     /\ \A j \in 1..Len(m) : IsEmpty(m[j]) \/
          LET ps == SplitOne(m[j], maxIop)
          IN /\ ps[1][1] = m[j][1] /\ ps[Len(ps)][2] = m[j][2]
             /\ \A i \in 1..Len(ps) : ~IsEmpty(ps[i])
             /\ \A i \in 1..(Len(ps) - 1) : ps[i][2] = ps[i + 1][1]
=============================================================================
