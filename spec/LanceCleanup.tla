---------------------------- MODULE LanceCleanup ----------------------------
(* Removing old versions (C08), sequential half: which manifests and files a
   cleanup may delete.

   Abstract state: every version references a set of file tokens (data,
   deletion, index files); a commit creates a version that keeps some files
   of its parent and adds new ones (append keeps all, overwrite keeps none,
   delete/update/compaction keep some).  Writers in progress own files that no
   manifest references yet.  Tags pin versions.  Cleanup runs through a handle
   pinned at some version (auto-cleanup runs against the pre-commit handle)
   with a policy (before_version, delete_unverified, error_if_tagged); it
   transcribes rust/lance/src/dataset/cleanup.rs:
     - manifests newer than the handle's version are never touched and their
       files count as referenced (the "working set");
     - the handle's version, tagged versions and versions the policy does not
       select are retained; their files are referenced;
     - unreferenced files are deleted if they were referenced by a removed
       manifest ("verified") or if delete_unverified is set; otherwise only when
       older than the safety window (modelled by the `old` flag of a file).
   Properties: RetainedReadable, OnlyPolicyManifests, NoInProgressFileDeleted,
   LateCommitSound.                                                          *)
EXTENDS Naturals, Integers, Sequences, FiniteSets, TLC, Json

CONSTANTS MaxVersions, MaxFiles, MaxSteps, TagNames

VARIABLES man,      \* version -> set of file tokens (only for manifests that still exist)
          store,    \* file tokens that exist
          old,      \* file tokens older than the safety window
          pending,  \* files written by a writer that has not committed yet
          tags,     \* tag name -> version
          nextV, nextF, steps, lastCleanup, hist
vars == <<man, store, old, pending, tags, nextV, nextF, steps, lastCleanup, hist>>
view == <<man, store, old, pending, tags, nextV, nextF, steps, lastCleanup>>

Latest == nextV - 1
Versions == DOMAIN man
Referenced(vs) == UNION {man[v] : v \in vs}
NoCleanup == [ran |-> FALSE, retained |-> {}, removedFiles |-> {}, unverified |-> FALSE, selected |-> {}]

Init == /\ man = (1 :> {1}) /\ store = {1} /\ old = {} /\ pending = {} /\ tags = <<>>
        /\ nextV = 2 /\ nextF = 2 /\ steps = 0 /\ lastCleanup = NoCleanup /\ hist = <<>>

Bump == steps' = steps + 1 /\ steps < MaxSteps

\* a commit keeps a subset of the parent's files and adds one new file (or uses the pending files)
Commit(kind) ==
  /\ Bump /\ nextV <= MaxVersions /\ nextF <= MaxFiles
  /\ LET keep == CASE kind = "append" -> man[Latest]
                   [] kind = "overwrite" -> {}
                   [] kind = "rewrite" -> {}            \* compaction: all data rewritten
                   [] OTHER -> man[Latest]              \* delete: same files + a deletion file
     IN /\ man' = man @@ (nextV :> (keep \cup {nextF}))
        /\ store' = store \cup {nextF}
  /\ nextV' = nextV + 1 /\ nextF' = nextF + 1
  /\ hist' = Append(hist, [op |-> "commit", kind |-> kind])
  /\ lastCleanup' = NoCleanup
  /\ UNCHANGED <<old, pending, tags>>

\* a writer uploads its files first and commits later
BeginWrite ==
  /\ Bump /\ pending = {} /\ nextF <= MaxFiles
  /\ pending' = {nextF} /\ store' = store \cup {nextF} /\ nextF' = nextF + 1
  /\ hist' = Append(hist, [op |-> "begin"])
  /\ lastCleanup' = NoCleanup
  /\ UNCHANGED <<man, old, tags, nextV>>
FinishWrite ==
  /\ Bump /\ pending # {} /\ nextV <= MaxVersions
  \* a writer whose uploaded files were removed (unverified deletion was requested, or they had left the safety
  \* window) is outside the property: C08 promises a sound late commit only otherwise
  /\ pending \subseteq store
  /\ man' = man @@ (nextV :> (man[Latest] \cup pending))
  /\ pending' = {} /\ nextV' = nextV + 1
  /\ hist' = Append(hist, [op |-> "finish"])
  /\ lastCleanup' = NoCleanup
  /\ UNCHANGED <<store, old, tags, nextF>>

Tag(t, v) ==
  /\ Bump /\ v \in Versions /\ t \notin DOMAIN tags
  /\ tags' = tags @@ (t :> v)
  /\ hist' = Append(hist, [op |-> "tag", name |-> t, v |-> v])
  /\ lastCleanup' = NoCleanup
  /\ UNCHANGED <<man, store, old, pending, nextV, nextF>>

\* time passes: everything written so far leaves the safety window
Age ==
  /\ Bump /\ old # store
  /\ old' = store
  /\ hist' = Append(hist, [op |-> "age"])
  /\ lastCleanup' = NoCleanup
  /\ UNCHANGED <<man, store, pending, tags, nextV, nextF>>

Cleanup(hv, before, unverified, errIfTagged) ==
  /\ Bump /\ hv \in Versions
  /\ LET tagged == {tags[t] : t \in DOMAIN tags}
         selected == {v \in Versions : v < before /\ v < hv}      \* policy-selected, not newer than the handle
         blocked == errIfTagged /\ selected \cap tagged # {}
         removed == IF blocked THEN {} ELSE selected \ tagged
         retained == Versions \ removed
         refd == Referenced(retained)
         verified == Referenced(removed) \ refd
         \* files no manifest references: deleted only when unverified deletion is requested or they are old
         orphans == {f \in store : f \notin Referenced(Versions)}
         delOrphans == IF blocked THEN {} ELSE {f \in orphans : unverified \/ f \in old}
         gone == verified \cup delOrphans
     IN /\ man' = [v \in retained |-> man[v]]
        /\ store' = store \ gone
        /\ lastCleanup' = [ran |-> TRUE, retained |-> retained, removedFiles |-> gone, unverified |-> unverified,
                           selected |-> selected]
        /\ hist' = Append(hist, [op |-> "cleanup", hv |-> hv, before |-> before, unverified |-> unverified,
                                 err_if_tagged |-> errIfTagged, blocked |-> blocked])
  /\ UNCHANGED <<old, pending, tags, nextV, nextF>>

Next == \/ \E k \in {"append", "delete", "overwrite", "rewrite"} : Commit(k)
        \/ BeginWrite \/ FinishWrite \/ Age
        \/ \E t \in TagNames, v \in 1..MaxVersions : Tag(t, v)
        \/ \E hv \in 1..MaxVersions, b \in 1..(MaxVersions+1), u \in BOOLEAN, e \in BOOLEAN : Cleanup(hv, b, u, e)
Spec == Init /\ [][Next]_vars

\* every manifest that still exists has all its files; the latest and tagged versions exist
RetainedReadable ==
  /\ \A v \in Versions : man[v] \subseteq store
  /\ Latest \in Versions
  /\ \A t \in DOMAIN tags : tags[t] \in Versions
\* only manifests the policy selected are removed
OnlyPolicyManifests == lastCleanup.ran => (Versions \cup lastCleanup.selected) = (lastCleanup.retained \cup lastCleanup.selected)
\* files of a write in progress survive unless they are old or unverified deletion was requested
NoInProgressFileDeleted ==
  (lastCleanup.ran /\ ~lastCleanup.unverified) => (pending \ old) \cap lastCleanup.removedFiles = {}
TypeOK == nextV <= MaxVersions + 1

Done == steps = MaxSteps
GenPrint == Done => PrintT(<<"SCN", ToJson(hist)>>)
=============================================================================
